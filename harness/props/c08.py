"""C08 -- life cycle: every started block is stopped exactly once, asynchronous clean-up first,
clean-up errors isolated, stop_data last, nothing (task, timer, helper) outlives the simulation.

Correspondence with lean/EdzedModel/Lifecycle.lean (`runForever`) + an independent oracle.
Probe blocks carry fault scripts for every phase; they run on the REAL simulator
(`Circuit.run_forever`, `edzed.run`) in virtual time.
"""
import asyncio
import itertools
import os
import signal
import time

import edzed

from .. import vtime

ID = 'C08'
RULE = ("circuits of 1-5 blocks over 9 block kinds (probe SBlock, probe AddonMainTask block with "
        "init_async/stop_async/main task, probe AddonAsync block with init_async only, probe AddonAsync block with "
        "stop_async and no task incl. stop_timeout=0, probe CBlock, real Timer, OutputFunc, OutputAsync; '_ctrl' created by "
        "Event.shutdown()/Event.abort()) with a fault script per phase (start, restore, init_async, "
        "init_regular, init_from_value, first evaluation, event handler, main task, stop, stop_async) x "
        "termination cause (shutdown(), abort(), ctrl shutdown/abort event, SIGTERM, supporting task "
        "end/failure, handler error, shutdown/abort control event sent from INSIDE the simulator task by a CBlock's "
        "on_output alone or followed by an exception of the next evaluated CBlock in the same burst; before start / at the yield after start / during async init / "
        "running; optional further request during clean-up) x runner (run_forever task, edzed.run); "
        "the whole single-fault x cause x instant grid on a fixed 4-block circuit (both tiers) plus 6 000 / 400 000 "
        "random circuits; order-dependent scenarios are re-run with fresh allocations until both stop orders "
        "of the synchronous set were seen (tags stop-order-both-seen / stop-order-one-only); "
        "persistent probe blocks (persistent=True) with and without an entry in the storage, so that the 'save the "
        "state' step of run_forever meets started but uninitialised blocks; the storage entries after the run are compared; "
        "persistent timed FSM probes whose saved state is timed and unexpired, with calc_output raising / returning UNDEF "
        "during the restore x initdef timed / untimed / absent; a caller of wait_init() -- plain task, supporting coroutine of run() (cancelled by run() when the first task "
        "ends), or a direct task cancelled from outside at a chosen instant while the circuit keeps running -- with every "
        "cause, before and after the initialisation is complete; the helper task of wait_init() is looked for among ALL "
        "tasks of the loop (by its coroutine) just before / right after the outside cancellation and at the end; "
        "a storage whose __setitem__ (and pop) raise from the moment the circuit has recorded its error, with every "
        "cause and circuit shape that has a persistent block; "
        "init_async / stop_async coroutines and supporting coroutines of run() whose cancellation needs 1-7 further loop "
        "iterations or 1-2 ms (listed before and after the coroutine that ends or fails); a SECOND termination cause 2-152 ms "
        "after the first, i.e. during the clean-up: the task awaiting shutdown() is cancelled, a supporting coroutine that "
        "itself awaits shutdown() is cancelled by run() because another one returns / fails, abort(), SIGTERM, another shutdown(); "
        "stop_async ending with a CancelledError of its own; OutputFunc -> OutputFunc on_success chains with stop_data on both "
        "(both stop orders forced as above); start() faults before AND after super().start() on sync / AddonMainTask / AddonAsync "
        "probes at every position; main-task blocks with stop_timeout 0; besides the task list taken six loop iterations "
        "after the end, a snapshot of edzed's tasks and timers at the very moment run() returns / the simulation task finishes; "
        "a case is distinct by its (input lines, trace) hash, non-trivial when at least one block was started")
ASSUMPTIONS = [
    "instants of different origin never coincide (durations = 0 mod 10 ms and pairwise distinct, time-outs = 3, "
    "requests = 5, main task failures = 7 mod 10 ms; 0 = the yield after the start loop)",
    "a probe block's own start() is below the add-ons in the MRO (it raises before AddonMainTask.start creates the "
    "main task); a probe's stop()/stop_async() runs the library part (super()) before it raises",
    "stop_timeout of a main-task block is 0 (known finding: its task is never cancelled) or larger than the time the main "
    "task needs to finish after its cancellation; no direct cancellation of the simulation task or of the task that runs "
    "edzed.run() while the clean-up is in progress (DESIGN.md section 6)",
    "a slow cancellation of init_async that takes time (not only loop iterations) is generated only where init_async does "
    "not run into its time-out; in random circuits a stop_async ending with its own CancelledError is the only asynchronous "
    "clean-up of the circuit; the main task of a block with stop_timeout=0 does not fail; the destination OutputFunc of an OutputFunc's on_success has no on_success of its own",
    "OutputAsync blocks receive only their stop_data (mode 'wait'); C12 covers their running behaviour",
]
EXHAUSTIVE = {'quick': False, 'thorough': False}

FAR = 10 ** 6       # seconds


class Boom(Exception):
    pass


class FaultyStorage(dict):
    """persistent storage that fails WHEN THE SIMULATION IS BEING STOPPED (the circuit has recorded its error):
    mode 'w': __setitem__ raises (disk full, closed shelf, network storage gone); 'p': pop raises as well"""

    def __init__(self, mode):
        super().__init__()
        self.mode = mode
        self.circuit = None

    def _failing(self):
        return self.circuit is not None and self.circuit.error is not None

    def __setitem__(self, key, value):
        if self.mode in ('w', 'p') and self._failing():
            raise OSError(28, 'No space left on device')
        super().__setitem__(key, value)

    def pop(self, key, *default):
        if self.mode == 'p' and self._failing():
            raise OSError(5, 'Input/output error')
        return super().pop(key, *default)


class Rec:
    """what the probes of one run recorded"""

    def __init__(self):
        self.log = []           # (kind, block index, extra, loop ms)
        self.initres = {}       # block index -> (ms, outcome)
        self.idx = {}           # block name -> index
        self.loop = None

    def now(self):
        us = self.loop.now_us
        return us // 1000 if us % 1000 == 0 else us / 1000

    def add(self, kind, blk, extra=None):
        self.log.append((kind, self.idx.get(blk.name, -1), extra, self.now()))


REC = Rec()


def _flags(blk):
    return getattr(blk, 'x_p', {}).get('flags', '')


class ProbeMixin:
    """start/stop recording and faults, in front of the library's methods"""

    def start(self):
        REC.add('start', self)
        if 'S' in _flags(self) and not isinstance(self, PSCore):
            raise Boom(f'{self.name}.start')
        super().start()     # the probes (PSCore) raise in their own start(), below the add-ons
        if 'L' in _flags(self):
            # a fault AFTER super().start(): the add-ons have done their part (AddonMainTask: the main task exists)
            raise Boom(f'{self.name}.start (late)')
        REC.add('started', self)

    def stop(self):
        REC.add('stop', self)
        try:
            super().stop()
        finally:
            if 'P' in _flags(self):
                raise Boom(f'{self.name}.stop')


class AsyncProbeMixin:
    async def stop_async(self):
        REC.add('sab', self)
        p = getattr(self, 'x_p', {})
        try:
            await super().stop_async()
            if isinstance(self, (PA, PAP)):
                if p.get('sdur'):
                    await asyncio.sleep(p['sdur'] / 1000)
                if 'Q' in p.get('flags', ''):
                    raise Boom(f'{self.name}.stop_async')
                if 'K' in p.get('flags', ''):
                    # ends with a CancelledError of its own: a worker is cancelled and awaited
                    worker = asyncio.create_task(asyncio.sleep(FAR))
                    await asyncio.sleep(0)
                    worker.cancel()
                    await worker
        except asyncio.CancelledError:
            try:
                for _ in range(p.get('ck', 0)):     # the cancellation takes further loop iterations
                    await asyncio.sleep(0)
            finally:
                REC.add('sae', self, 'cancelled')
            raise
        except Exception:
            REC.add('sae', self, 'err')
            raise
        REC.add('sae', self, 'ok')


class PSCore(edzed.AddonPersistence, edzed.SBlock):
    def start(self):
        if 'S' in _flags(self):
            raise Boom(f'{self.name}.start')
        super().start()

    def init_regular(self):
        f = _flags(self)
        if 'G' in f:
            raise Boom(f'{self.name}.init_regular')
        if 's' in f:
            self.set_output(0)

    def init_from_value(self, value):
        if 'V' in _flags(self):
            raise Boom(f'{self.name}.init_from_value')
        self.set_output(value)

    def _restore_state(self, state):
        if 'R' in _flags(self):
            raise Boom(f'{self.name}.restore')
        self.set_output(state)

    def _event_put(self, *, value, **_data):
        if 'H' in _flags(self):
            raise Boom(f'{self.name}.handler')
        self.set_output(value)


class PS(ProbeMixin, PSCore):
    pass


class PA(AsyncProbeMixin, ProbeMixin, edzed.AddonMainTask, PSCore):
    async def _maintask(self):
        p = self.x_p
        try:
            if p.get('mf') is not None:
                if p['mf'] > 0:
                    await asyncio.sleep(p['mf'] / 1000)
                if p.get('mret'):
                    return          # a service must not return
                raise Boom(f'{self.name}.main')
            await asyncio.sleep(FAR)
        except asyncio.CancelledError:
            if p.get('cdur'):
                try:
                    await asyncio.sleep(p['cdur'] / 1000)
                except asyncio.CancelledError:
                    REC.add('main-cancelled-twice', self)
            raise


async def _probe_init_async(self):
    p = self.x_p
    k = REC.idx[self.name]
    try:
        await asyncio.sleep(p['idur'] / 1000)
    except asyncio.CancelledError:
        # the cancellation takes `icd` ms and `ck` further loop iterations (await in a finally clause, inner task)
        try:
            if p.get('icd'):
                await asyncio.sleep(p['icd'] / 1000)
            for _ in range(p.get('ck', 0)):
                await asyncio.sleep(0)
        finally:
            REC.initres[k] = (REC.now(), 'cancelled')
        raise
    if 'A' in p['flags']:
        REC.initres[k] = (REC.now(), 'err')
        raise Boom(f'{self.name}.init_async')
    REC.initres[k] = (REC.now(), 'ok')
    self.set_output(1)


class PAI(PA):
    init_async = _probe_init_async


class PAInit(ProbeMixin, edzed.AddonAsync, PSCore):
    """AddonAsync block with init_async only (like InitAsync / AddonAsyncInit blocks): no stop_async"""
    init_async = _probe_init_async


class PAP(AsyncProbeMixin, ProbeMixin, edzed.AddonAsync, PSCore):
    """AddonAsync block with stop_async, without a task; stop_timeout=0 disables the asynchronous clean-up"""


class PInput(ProbeMixin, edzed.Input):
    pass


class PC(ProbeMixin, edzed.FuncBlock):
    pass


class PTimer(ProbeMixin, edzed.Timer):
    pass


class PRTimer(ProbeMixin, edzed.FSM):
    """persistent timed FSM whose saved state ('on') is timed and not expired; flag X: calc_output fails on the
    restored state -- it raises ('rmode' = 'raise') or returns UNDEF ('undef') at its first call, which is the
    one made by _restore_state"""
    STATES = ['off', 'on']
    TIMERS = {'on': (FAR, 'stop')}
    EVENTS = [('start', None, 'on'), ('stop', None, 'off')]

    def calc_output(self):
        p = self.x_p
        if not p.get('_first_call_done'):
            p['_first_call_done'] = True
            if 'X' in p.get('flags', ''):
                if p.get('rmode') == 'undef':
                    return edzed.UNDEF
                raise Boom(f'{self.name}.calc_output during the restore')
        return self._state == 'on'


class POutF(ProbeMixin, edzed.OutputFunc):
    pass


class POutA(AsyncProbeMixin, ProbeMixin, edzed.OutputAsync):
    pass


def _ctrl_start(self):
    REC.add('start', self)
    edzed.SBlock.start(self)
    REC.add('started', self)


def _ctrl_stop(self):
    REC.add('stop', self)
    edzed.SBlock.stop(self)


# process-local: the automatically created '_ctrl' block records its start/stop like the probes
edzed.ControlBlock.start = _ctrl_start
edzed.ControlBlock.stop = _ctrl_stop

_PAD = []       # keeps dummy allocations alive: varies the addresses (set order) of later blocks


# ------------------------------------------------------------------ scenario -> circuit

def bname(i, b):
    return '_ctrl' if b['kind'] == 'ctrl' else f"{b['kind'][0]}{i}"


def build(scn, notes):
    blocks = scn['blocks']
    names = [bname(i, b) for i, b in enumerate(blocks)]
    REC.idx = {n: i for i, n in enumerate(names)}
    objs = []
    storage = FaultyStorage(scn.get('sfault') or 'n')
    for i, b in enumerate(blocks):
        kind, name, flags = b['kind'], names[i], b.get('flags', '')
        p = dict(b)
        if kind == 'sync':
            kw = {}
            if 'd' in flags:
                kw['initdef'] = 3
            blk = PS(name, x_p=p, persistent=('r' in flags or 'p' in flags), **kw)
            if 'r' in flags:
                storage[str(blk)] = 7
        elif kind == 'async':
            kw = {}
            if 'd' in flags:
                kw['initdef'] = 3
            cls = PA
            if 'a' in flags:
                cls = PAI
                kw['init_timeout'] = b['ito'] / 1000
            blk = cls(name, x_p=p, persistent=('r' in flags or 'p' in flags), stop_timeout=b['sto'] / 1000, **kw)
            if 'r' in flags:
                storage[str(blk)] = 7
        elif kind == 'cblock':
            if 'C' in flags:
                def func(x, _n=name):
                    raise Boom(f'{_n}.calc')
            else:
                def func(x):
                    return x
            blk = PC(name, func=func, x_p=p).connect(1)
        elif kind == 'timer':
            kw = {'initdef': 'on'} if 'm' in flags else {}
            blk = PTimer(name, t_on=FAR, x_p=p, **kw)
        elif kind == 'rtimer':
            kw = {'initdef': 'on'} if 'm' in flags else ({'initdef': 'off'} if 'f' in flags else {})
            blk = PRTimer(name, persistent=True, x_p=p, **kw)
            storage[str(blk)] = ('on', time.time() + FAR, {})       # a timed state, far from its expiration
        elif kind == 'outf':
            def func(value, _i=i, _n=name):
                REC.log.append(('out', _i, value == 'STOP', REC.now()))
                return f'result of {_n}'        # on_success data: never mistaken for the receiver's stop_data
            kw = {}
            if 't' in flags:
                kw['stop_data'] = {'value': 'STOP'}
            if b.get('ons') is not None:
                # to a timer: 'start'; to another OutputFunc: 'put' (its function is called with the result)
                kw['on_success'] = edzed.Event(
                    names[b['ons']], 'put' if blocks[b['ons']]['kind'] == 'outf' else 'start')
            blk = POutF(name, func=func, on_error=None, x_p=p, **kw)
        elif kind == 'outa':
            async def coro(value, _i=i, _d=b.get('sdur', 0)):
                REC.log.append(('out', _i, value == 'STOP', REC.now()))
                if _d:
                    await asyncio.sleep(_d / 1000)
            kw = {}
            if 't' in flags:
                kw['stop_data'] = {'value': 'STOP'}
            blk = POutA(name, coro=coro, mode='wait', on_error=None, stop_timeout=b['sto'] / 1000, x_p=p, **kw)
        elif kind == 'ainit':
            kw = {'initdef': 3} if 'd' in flags else {}
            blk = PAInit(name, x_p=p, persistent=('r' in flags or 'p' in flags), init_timeout=b['ito'] / 1000, **kw)
            if 'r' in flags:
                storage[str(blk)] = 7
        elif kind == 'aplain':
            kw = {'initdef': 3} if 'd' in flags else {}
            blk = PAP(name, x_p=p, persistent=('r' in flags or 'p' in flags), stop_timeout=b['sto'] / 1000, **kw)
            if 'r' in flags:
                storage[str(blk)] = 7
        elif kind == 'inp':
            blk = PInput(name, initdef=1, x_p=p)
        elif kind == 'valid':
            # x != 0; a False output sends 'put' to the trigger block, whose on_success is the control event
            trig_name = next(names[j] for j, bb in enumerate(blocks) if bb['kind'] == 'trig')
            inp_name = next(names[j] for j, bb in enumerate(blocks) if bb['kind'] == 'inp')
            blk = PC(name, func=lambda x: x != 0, x_p=p,
                     on_output=edzed.Event(trig_name, 'put', efilter=lambda data: not data['value'])
                     ).connect(inp_name)
        elif kind == 'ratio':
            inp_name = next(names[j] for j, bb in enumerate(blocks) if bb['kind'] == 'inp')
            valid_name = next(names[j] for j, bb in enumerate(blocks) if bb['kind'] == 'valid')
            if scn['cause'].get('raise_after'):
                def func(x, _ok):
                    return 1 / x            # ZeroDivisionError right after the control event
            else:
                def func(x, _ok):
                    return 1 / x if x else 0
            blk = PC(name, func=func, x_p=p).connect(inp_name, valid_name)
        elif kind == 'trig':
            ck = scn['cause']['kind']
            if ck in ('ctrlShutdown', 'innerShutdown'):
                try:
                    ev = edzed.Event.shutdown()
                except AttributeError:
                    notes['event_shutdown_missing'] = True
                    ev = edzed.Event('_ctrl', 'shutdown')
            else:
                ev = edzed.Event.abort()
            blk = POutF(name, func=lambda value: value, on_success=ev, on_error=None, x_p=p)
        elif kind == 'ctrl':
            blk = None      # created by the simulator when it resolves the '_ctrl' reference
        else:
            raise ValueError(kind)
        objs.append(blk)
    # a storage is set up as soon as one block is persistent; it may be empty (first run)
    if any(f in b.get('flags', '') for b in blocks for f in 'rp') or any(b['kind'] == 'rtimer' for b in blocks):
        edzed.get_circuit().set_persistent_data(storage)
    if not scn['cause'].get('before'):
        storage.circuit = edzed.get_circuit()       # armed from the moment the circuit records its error
    notes['storage'] = storage
    return names, objs


MODEL_KIND = {'rtimer': 'timer', 'trig': 'sync', 'inp': 'sync', 'valid': 'cblock', 'ratio': 'cblock'}


def blk_line(b):
    kind = MODEL_KIND.get(b['kind'], b['kind'])
    flags = b.get('flags', '')
    if b['kind'] in ('timer', 'outf', 'outa', 'ctrl', 'cblock', 'trig', 'valid', 'ratio'):
        flags += 's'
    if b['kind'] == 'inp':
        flags += 'd'
    if b['kind'] == 'rtimer':
        # persistent, entry in the storage, saved state timed; 'f' (initdef 'off') is the untimed default spelled out
        flags = flags.replace('f', '') + 'srpT'
    if b['kind'] == 'ainit':
        flags += 'a'
    if 'Q' in flags:
        flags = flags.replace('K', '')      # the probe's stop_async raises (Q) before it could end with a CancelledError (K)

    def opt(v):
        return '-' if v is None else str(v)
    return (f"lifecycle blk {kind} {''.join(sorted(set(flags))) or '-'} {opt(b.get('mf'))} {b.get('idur', 0)} "
            f"{b.get('ito', 0)} {b.get('cdur', 0)} {b.get('sdur', 0)} {b.get('sto', 1)} {opt(b.get('ons'))} "
            f"{b.get('icd', 0)}")


def is_async_stop(b):
    return b['kind'] in ('async', 'outa', 'aplain') and b.get('sto', 1) > 0


# ------------------------------------------------------------------ one run on the real simulator

def run_once(scn, pad=0):
    global REC
    REC = Rec()
    rec = REC
    notes = {}
    cause = scn['cause']
    second = cause.get('second')
    runner = scn.get('runner', 'task')
    edzed.reset_circuit()
    if pad:
        _PAD.append([PS.__new__(PS) for _ in range(pad)])
    circuit = edzed.get_circuit()
    names, objs = build(scn, notes)
    out = {'notes': notes}

    def request(kind):
        """the termination request of the scenario, issued from a task that is not the simulation task"""
        if kind == 'abort':
            circuit.abort(Boom('abort'))
        elif kind in ('ctrlShutdown', 'ctrlAbort'):
            trig = next(o for o, b in zip(objs, scn['blocks']) if b['kind'] == 'trig')
            try:
                edzed.ExtEvent(trig).send(1)
            except edzed.EdzedInvalidState:
                notes['request_refused'] = True
        elif kind in ('innerShutdown', 'innerAbort'):
            # the value 0 makes 'valid' send the control event from inside the simulator task
            inp = next(o for o, b in zip(objs, scn['blocks']) if b['kind'] == 'inp')
            try:
                edzed.ExtEvent(inp).send(0)
            except edzed.EdzedInvalidState:
                notes['request_refused'] = True
        elif kind == 'handlerErr':
            try:
                edzed.ExtEvent(objs[cause['target']]).send(5)
            except edzed.EdzedInvalidState:
                notes['request_refused'] = True
            except Exception:
                pass
        elif kind == 'sigterm':
            os.kill(os.getpid(), signal.SIGTERM)
        else:
            raise ValueError(kind)

    async def main(loop):
        rec.loop = loop
        helpers = []
        if cause.get('before'):
            circuit.abort(Boom('before') if cause['kind'] in ERROR_KINDS else asyncio.CancelledError('before'))

        def helper_present():
            """is a helper task of wait_init() (`self._init_done.wait()`) alive -- whoever created it"""
            return any(not t.done() and getattr(t.get_coro(), '__qualname__', '') == 'Event.wait'
                       for t in asyncio.all_tasks())

        async def putter(as_support=False):
            try:
                await circuit.wait_init()
            except Exception as err:
                notes['wait_init'] = type(err).__name__
                if as_support:
                    await asyncio.sleep(FAR)    # a supporting coroutine must not return
                return
            notes['wait_init'] = 'returned'
            for o, b in zip(objs, scn['blocks']):
                if b['kind'] == 'outf':
                    try:
                        edzed.ExtEvent(o).send('v')
                    except Exception as err:
                        notes.setdefault('put_refused', type(err).__name__)
            if as_support:
                await asyncio.sleep(FAR)

        async def canceller(wtask):
            """cancel the task that awaits wait_init() from outside, while the circuit keeps running"""
            await asyncio.sleep(scn['wcancel'] / 1000)
            probe = {'t': scn['wcancel'], 'before': helper_present(), 'waiting': not wtask.done()}
            wtask.cancel()
            for _ in range(3):
                await asyncio.sleep(0)
            probe['after'] = helper_present()
            probe['error_after'] = repr(circuit.error)
            notes['probe'] = probe

        def start_waiter():
            w = scn.get('waiter') or 'task'
            if not scn.get('wait_init') or w == 'support':
                return
            if w == 'cancel':
                wtask = asyncio.create_task(circuit.wait_init())
                wtask.add_done_callback(lambda t: t.cancelled() or t.exception())
                helpers.append(wtask)
                helpers.append(asyncio.create_task(canceller(wtask)))
            else:
                helpers.append(asyncio.create_task(putter()))

        async def driver_task():
            """requests for the run_forever runner"""
            t = cause['time']
            if t > 0:
                await asyncio.sleep(t / 1000)
            kind = cause['kind']
            sh = None
            if not cause.get('before') and t > 0:
                if kind == 'shutdown':
                    sh = asyncio.create_task(circuit.shutdown())
                    helpers.append(sh)
                else:
                    request(kind)
            if second and not cause.get('before') and t > 0:
                await asyncio.sleep(second['dt'] / 1000)
                notes['second_during_cleanup'] = circuit._simtask is not None and not circuit._simtask.done()
                if second['kind'] == 'callerCancel':
                    # the task that awaits shutdown() is cancelled while it waits
                    if sh is None:
                        sh = asyncio.create_task(circuit.shutdown())
                        helpers.append(sh)
                        await asyncio.sleep(0)
                    sh.cancel()
                    sh.add_done_callback(lambda t: t.cancelled() or t.exception())
                elif second['kind'] == 'shutdown':
                    helpers.append(asyncio.create_task(circuit.shutdown()))
                else:
                    request(second['kind'])
            if cause.get('late'):
                await asyncio.sleep(0.0005)
                notes['late_during_cleanup'] = circuit._simtask is not None and not circuit._simtask.done()
                circuit.abort(Boom('late'))
                try:
                    await circuit.shutdown()
                except Exception:
                    pass

        async def support2():
            """a further supporting coroutine of edzed.run(): the SECOND termination cause, during the clean-up"""
            await asyncio.sleep((cause['time'] + second['dt']) / 1000)
            notes['second_during_cleanup'] = circuit._simtask is not None and not circuit._simtask.done()
            k2 = second['kind']
            if k2 == 'supportEnd':
                return
            if k2 == 'supportFail':
                raise Boom('support2')
            if k2 == 'shutdown':
                await circuit.shutdown()
            else:
                request(k2)
            await asyncio.sleep(FAR)

        async def idle(k):
            """a supporting coroutine that needs k further loop iterations to finish once it is cancelled"""
            try:
                await asyncio.sleep(FAR)
            finally:
                for _ in range(k):
                    await asyncio.sleep(0)

        async def support():
            """supporting coroutine of edzed.run()"""
            t = cause['time']
            await asyncio.sleep(t / 1000)
            kind = cause['kind']
            if kind == 'supportEnd':
                return
            if kind == 'supportFail':
                raise Boom('support')
            if kind == 'shutdown' and cause.get('awaited'):
                # the supporting coroutine itself waits in shutdown(): run() cancels it there when another
                # supporting coroutine ends during the clean-up
                await circuit.shutdown()
            elif kind == 'shutdown':
                helpers.append(asyncio.create_task(circuit.shutdown()))
            else:
                request(kind)
            if cause.get('late'):
                await asyncio.sleep(0.0005)
                notes['late_during_cleanup'] = circuit._simtask is not None and not circuit._simtask.done()
                circuit.abort(Boom('late'))
            if second and second['kind'] in ('abort', 'sigterm') and not cause.get('awaited'):
                await asyncio.sleep(second['dt'] / 1000)
                notes['second_during_cleanup'] = circuit._simtask is not None and not circuit._simtask.done()
                request(second['kind'])
            await asyncio.sleep(FAR)

        def snapshot():
            """edzed's tasks and timers that are pending at this very moment"""
            cur = asyncio.current_task()
            now = [task_label(t, rec) for t in asyncio.all_tasks() if t is not cur and not t.done()]
            now = [x for x in now if x.startswith(('init:', 'main:', 'ctrl:', 'stopa:', 'support:'))]
            now += [lab for lab in (handle_label(h, rec) for h in loop.pending_handles()) if lab.startswith('timer:')]
            return sorted(now)

        async def sim_wrapper():
            try:
                await circuit.run_forever()
            finally:
                out['left_now'] = snapshot()    # the moment the simulation task finishes

        async def run_wrapper(*coros):
            try:
                await edzed.run(*coros)
            finally:
                out['left_now'] = snapshot()    # the moment run() returns / raises

        def support_coros(*mine):
            sups = scn.get('sups') or []
            lst = [idle(x['ck']) for x in sups if x['pos'] == 'before'] + list(mine)
            if second and (second['kind'] in ('supportEnd', 'supportFail', 'shutdown') or cause.get('awaited')):
                lst.append(support2())
            return lst + [idle(x['ck']) for x in sups if x['pos'] == 'after']

        run_error = None
        if runner == 'task':
            simtask = asyncio.create_task(sim_wrapper())
            start_waiter()
            await asyncio.sleep(0)      # the simulation task has started its blocks and yields
            if cause['time'] == 0 and not cause.get('before'):
                # instant 0: the request is made right now, before the simulation task resumes
                if cause['kind'] == 'shutdown':
                    circuit.abort(asyncio.CancelledError('shutdown'))   # first statement of shutdown()
                    helpers.append(asyncio.create_task(circuit.shutdown()))
                else:
                    request(cause['kind'])
            drv = asyncio.create_task(driver_task())
            helpers.append(drv)
            await asyncio.wait([simtask])
            end_ms = rec.now()
            try:
                simtask.result()
            except BaseException as err:
                run_error = err
        else:
            old_handler = signal.getsignal(signal.SIGTERM)
            signal.signal(signal.SIGTERM, signal.SIG_IGN)   # what run() restores afterwards
            if scn.get('wait_init') and scn.get('waiter') == 'support':
                # the caller of wait_init() is a supporting coroutine: run() cancels it when the first task ends
                runtask = asyncio.create_task(run_wrapper(*support_coros(support(), putter(as_support=True))))
            else:
                runtask = asyncio.create_task(run_wrapper(*support_coros(support())))
            start_waiter()
            try:
                await asyncio.wait([runtask])
            finally:
                signal.signal(signal.SIGTERM, old_handler)
            end_ms = rec.now()
            try:
                runtask.result()
            except BaseException as err:
                run_error = err
            simtask = circuit._simtask
        out['end_ms'] = end_ms
        out['run_error'] = type(run_error).__name__ if run_error is not None else None
        # run_forever raises the error the circuit has recorded (the very object)
        # (a CancelledError reaches the awaiting task as a fresh CancelledError: compare the kind then)
        out['raised_recorded'] = bool(
            runner != 'task' or scn['cause'].get('before') or run_error is circuit.error
            or (isinstance(circuit.error, asyncio.CancelledError) and isinstance(run_error, asyncio.CancelledError)))
        out['simtask_done'] = simtask is not None and simtask.done()
        # the harness' own helpers are finished or cancelled; then a few yields for the unwinding
        await asyncio.sleep(0)
        await asyncio.sleep(0)
        for h in helpers:
            if not h.done():
                h.cancel()
        for _ in range(4):
            await asyncio.sleep(0)
        mine = set(helpers) | {asyncio.current_task()}
        left = []
        for t in asyncio.all_tasks():
            if t in mine or t.done():
                continue
            left.append(task_label(t, rec))
        for h in loop.pending_handles():
            lab = handle_label(h, rec)
            if lab != 'handle:_set_result_unless_cancelled':    # the sleep of a task listed above
                left.append(lab)
        out['initres'] = dict(rec.initres)
        out['log'] = list(rec.log)
        out['left'] = sorted(left)
        # restart / modification afterwards
        try:
            await circuit.run_forever()
            out['restart'] = 'ok'
        except edzed.EdzedInvalidState:
            out['restart'] = 'InvalidState'
        except BaseException as err:
            out['restart'] = type(err).__name__
        try:
            edzed.Input('added_later', initdef=0)
            out['modify'] = 'ok'
        except edzed.EdzedInvalidState:
            out['modify'] = 'InvalidState'
        except BaseException as err:
            out['modify'] = type(err).__name__
        out['error'] = circuit.error
        return out

    vtime.run(main)
    out['names'] = names
    blocks = list(circuit.getblocks())
    keys = {str(b): i for i, b in enumerate(objs) if b is not None}
    out['storage'] = sorted(str(keys[k]) for k in notes.pop('storage') if k in keys)
    out['outputs'] = {b.name: ('UNDEF' if b.output is edzed.UNDEF else repr(b.output)) for b in blocks}
    out['async_names'] = sorted(
        b.name for b in blocks
        if isinstance(b, edzed.AddonAsync) and b.has_method('stop_async') and b.stop_timeout > 0.0)
    return out


ERROR_KINDS = ('abort', 'ctrlAbort', 'handlerErr', 'innerAbort')


def task_label(t, rec):
    name = t.get_name()
    for prefix, lab in (("edzed: init_async for block ", 'init'), ("edzed: main task for block ", 'main'),
                        ("edzed: control task for block ", 'ctrl'), ("edzed: stop_async for block ", 'stopa'),
                        ("edzed: supporting task #", 'support')):
        if name.startswith(prefix):
            bn = name[len(prefix):].strip("'")
            return f'{lab}:{rec.idx.get(bn, bn)}'
    coro = t.get_coro()
    qn = getattr(coro, '__qualname__', '')
    if qn == 'Event.wait':
        return 'helper'
    if name.startswith('edzed: simulation task') or qn.endswith('run_forever'):
        return 'simtask'
    return f'other:{qn or name}'


def handle_label(h, rec):
    cb = getattr(h, '_callback', None)
    owner = getattr(cb, '__self__', None)
    if isinstance(owner, edzed.Block):
        return f'timer:{rec.idx.get(owner.name, owner.name)}'
    return f'handle:{getattr(cb, "__qualname__", cb)}'


# ------------------------------------------------------------------ run_impl

def order_sensitive(scn):
    """an output block whose stop_data event goes to a timer or to another output block of the same (synchronous) set"""
    return any(b['kind'] == 'outf' and 't' in b.get('flags', '') and b.get('ons') is not None
               for b in scn['blocks'])


def waiter_token(scn):
    if not scn.get('wait_init'):
        return '-'
    w = scn.get('waiter') or 'task'
    return {'task': 't', 'support': 's'}.get(w) or f"c{scn['wcancel']}"


def second_token(scn):
    sec = scn['cause'].get('second')
    return f"{sec['kind']}:{sec['dt']}" if sec else '-'


def encode_run(scn, r):
    cause = scn['cause']
    lines = [f"lifecycle reset {cause['kind']} {int(bool(cause.get('before')))} {cause['time']} "
             f"{int(bool(cause.get('late')))} {int(bool(scn.get('wait_init')))} "
             f"{int(bool(cause.get('raise_after')))} {scn.get('sfault') or 'n'} "
             f"{cause['target'] if cause.get('target') is not None else '-'} {waiter_token(scn)} {second_token(scn)}"]
    trace = ['ok']
    for i, b in enumerate(scn['blocks']):
        lines.append(blk_line(b))
        trace.append(f'ok {i}')
    stops = [k for kind, k, _x, _t in r['log'] if kind == 'stop']
    amask = [is_async_stop(b) for b in scn['blocks']]
    oa = [k for k in stops if 0 <= k < len(amask) and amask[k]]
    os_ = [k for k in stops if not (0 <= k < len(amask) and amask[k])]
    lines.append(f"lifecycle run {','.join(map(str, oa)) or '-'} {','.join(map(str, os_)) or '-'}")
    trace.append('ok')
    evs = []
    for kind, k, x, _t in r['log']:
        if kind in ('start', 'started', 'stop', 'sab'):
            evs.append(f'{kind}:{k}')
        elif kind == 'sae':
            evs.append(f'sae:{k}:{x}')
        elif kind == 'out':
            evs.append(f'out:{k}:{int(x)}')
        else:
            evs.append(f'{kind}:{k}')
    lines.append('lifecycle trace')
    trace.append(','.join(evs) or '-')
    lines.append('lifecycle initres')
    trace.append(','.join(sorted(f'{k}:{t}:{o}' for k, (t, o) in r['initres'].items())) or '-')
    lines.append('lifecycle storage')
    trace.append(','.join(r['storage']) or '-')
    lines.append('lifecycle left')
    trace.append(','.join(r['left']) or '-')
    probe = r['notes'].get('probe')
    if probe:
        # the helper task of wait_init() just before and right after its caller was cancelled from outside
        lines.append(f"lifecycle helperat {probe['t'] - 1}")
        trace.append('alive' if probe['before'] else 'gone')
        lines.append(f"lifecycle helperat {probe['t']}")
        trace.append('alive' if probe['after'] else 'gone')
    lines.append('lifecycle after')
    trace.append(f"restart={r['restart']} modify={r['modify']}")
    lines.append('lifecycle end')
    err = r['error']
    errs = 'none' if err is None else ('cancelled' if isinstance(err, asyncio.CancelledError) else 'failure')
    trace.append(f"end={r['end_ms']} err={errs}")
    return lines, trace, oa, os_


def run_impl(scn):
    runs = []
    lines, trace, tags = [], [], []
    seen_orders = set()
    sensitive = order_sensitive(scn)
    attempts = 12 if sensitive else 1
    for attempt in range(attempts):
        r = run_once(scn, pad=attempt * 3)
        ln, tr, oa, os_ = encode_run(scn, r)
        key = tuple(os_)
        if attempt > 0 and key in seen_orders:
            continue
        seen_orders.add(key)
        runs.append(r)
        lines += ln
        trace += tr
        if sensitive and len(seen_orders) >= 2:
            break
    del _PAD[:]
    cause = scn['cause']
    tags.append('cause=' + ('before-' if cause.get('before') else '') + cause['kind']
                + ('+exception' if cause.get('raise_after') else ''))
    tags.append('runner=' + scn.get('runner', 'task'))
    if sensitive:
        tags.append('stop-order-both-seen' if len(seen_orders) >= 2 else 'stop-order-one-only')
    for r in runs[:1]:
        if r['notes'].get('late_during_cleanup'):
            tags.append('late-request-during-cleanup')
        tags.append('left=' + ('none' if not r['left'] else 'some'))
    started = any(kind == 'started' for kind, *_ in runs[0]['log'])
    faults = sorted(set(''.join(b.get('flags', '') for b in scn['blocks'])) & set('SRAGVCHPQLK'))
    tags.append('faults=' + (''.join(faults) or '-'))
    tags.append('storage-fault=' + (scn.get('sfault') or '-'))
    tags.append('waiter=' + (waiter_token(scn)[0]))
    sec = cause.get('second')
    if sec:
        during = any(r['notes'].get('second_during_cleanup') for r in runs)
        tags.append(f"second={sec['kind']}{'+awaited-shutdown' if cause.get('awaited') else ''}"
                    f"{'' if during else ' (after the clean-up)'}")
    if any(b['kind'] == 'outf' and b.get('ons') is not None and scn['blocks'][b['ons']]['kind'] == 'outf'
           for b in scn['blocks']):
        tags.append('outf-chain')
    if any(b.get('ck') or b.get('icd') for b in scn['blocks']):
        tags.append('slow-cancellation')
    if scn.get('sups'):
        tags.append('slow-supporting-coroutines')
    for r in runs[:1]:
        pr = r['notes'].get('probe')
        if pr:
            tags.append('cancelled-in-wait_init' if pr['waiting'] else 'cancelled-after-wait_init')
    return {'lines': lines, 'trace': trace, 'tags': tags, 'nontrivial': started,
            'runs': [{k: v for k, v in r.items() if k != 'error'} | {'error': repr(r['error'])} for r in runs]}


# ------------------------------------------------------------------ oracle (from the property text)

PRIORITY = ['stop_exactly_started', 'cleanup_error_isolated', 'async_before_sync', 'stop_async_awaited_bounded',
            'simulation_finished', 'raises_recorded_error', 'wait_init_helper_outlives_call', 'no_restart_no_modify',
            'no_live_task_when_finished', 'no_live_task_at_end', 'no_pending_timer',
            'no_live_init_task', 'stop_data_last', 'event_shutdown_documented', 'no_live_helper_task']
KNOWN_SHAPES = ('outputasync_not_initialized', 'stop_async_own_cancellederror', 'main_task_of_late_start_fault',
                'main_task_stop_timeout_zero',
                'outputfunc_event_after_stop')


def oracle(scn, res):
    """One violation per scenario -- the first in PRIORITY order (shapes of the known findings last) -- so
    that the runner's shrinking, which follows the first violation, keeps the reported clause."""
    out = []
    for r in res['runs']:
        out += oracle_run(scn, r)

    def rank(v):
        known = (v.get('sig') or {}).get('shape') in KNOWN_SHAPES
        return (known, PRIORITY.index(v['clause']) if v['clause'] in PRIORITY else len(PRIORITY))
    out.sort(key=rank)
    return out[:1]


def oracle_run(scn, r):
    out = []
    log = r['log']
    names = r['names']

    def nm(k):
        return names[k] if 0 <= k < len(names) else f'#{k}'
    started = [k for kind, k, _x, _t in log if kind == 'started']
    stops = [k for kind, k, _x, _t in log if kind == 'stop']
    faults = ''.join(b.get('flags', '') for b in scn['blocks'])
    cleanup_faults = 'P' in faults or 'Q' in faults or 'K' in faults
    # known finding: a stop_async that ends with a CancelledError of its own is taken for a cancellation of the simulator
    own_cancel = [k for k, b in enumerate(scn['blocks']) if 'K' in b.get('flags', '') and is_async_stop(b)
                  and k in started and ('sae', k, 'cancelled') in [(kind, kk, x) for kind, kk, x, _t in log]]
    sync_started = {k for k in started if not (0 <= k < len(scn['blocks']) and is_async_stop(scn['blocks'][k]))}

    def own_cancel_shape(ok):
        return {'shape': 'stop_async_own_cancellederror' if own_cancel and ok else 'other'}
    probe = r['notes'].get('probe')
    if probe and probe['after']:
        out.append({'clause': 'wait_init_helper_outlives_call',
                    'what': f"the task awaiting wait_init() was cancelled at {probe['t']} ms (it was "
                            f"{'waiting' if probe['waiting'] else 'done'}); the helper task `_init_done.wait()` that "
                            'wait_init() created is still pending after the call has ended'})
    if not r.get('raised_recorded', True):
        out.append({'clause': 'raises_recorded_error',
                    'what': f"run_forever() raised {r['run_error']}, the recorded error is {r.get('error')}",
                    'sig': own_cancel_shape(r['run_error'] == 'CancelledError')})
    if len(set(started)) != len(started):
        out.append({'clause': 'stop_exactly_started', 'what': f'a block was started twice: {started}'})
    if sorted(stops) != sorted(started):
        clause = 'cleanup_error_isolated' if cleanup_faults and set(stops) < set(started) else 'stop_exactly_started'
        missing = set(started) - set(stops)
        out.append({'clause': clause,
                    'what': f'stop() calls {sorted(map(nm, stops))} != blocks whose start() returned '
                            f'{sorted(map(nm, started))}',
                    'sig': own_cancel_shape(clause == 'cleanup_error_isolated' and missing <= sync_started
                                            and len(stops) == len(set(stops)))})
    if r['notes'].get('event_shutdown_missing'):
        out.append({'clause': 'event_shutdown_documented',
                    'what': 'Event.shutdown() (docs/events.rst, docs/sblocks1.rst) does not exist'})
    if not r['simtask_done'] and not scn['cause'].get('before'):
        out.append({'clause': 'simulation_finished', 'what': 'the simulation task is not done'})
    # asynchronous clean-up before the remaining blocks
    async_idx = {k for k in range(len(names)) if names[k] in r['async_names']}
    pos_async = [i for i, (kind, k, _x, _t) in enumerate(log) if kind in ('stop', 'sab', 'sae') and k in async_idx]
    pos_sync = [i for i, (kind, k, _x, _t) in enumerate(log) if kind == 'stop' and k not in async_idx]
    if pos_async and pos_sync and max(pos_async) > min(pos_sync):
        out.append({'clause': 'async_before_sync',
                    'what': 'a block without asynchronous clean-up was stopped before the asynchronous clean-up '
                            f'had finished: {[(kind, nm(k)) for kind, k, _x, _t in log if kind in ("stop", "sab", "sae")]}'})
    # stop_async awaited, bounded
    t_clean = min((t for kind, _k, _x, t in log if kind == 'stop'), default=None)
    max_to = max((b.get('sto', 0) for b in scn['blocks'] if is_async_stop(b)), default=0)
    for k in sorted(async_idx):
        if k not in started:
            continue
        seq = [(kind, x, t) for kind, kk, x, t in log if kk == k and kind in ('stop', 'sab', 'sae')]
        kinds = [s[0] for s in seq]
        if kinds != ['stop', 'sab', 'sae']:
            out.append({'clause': 'stop_async_awaited_bounded',
                        'what': f'{nm(k)}: expected stop, stop_async begin, stop_async end; got {kinds}',
                        'sig': {'shape': 'other'}})
            continue
        b = scn['blocks'][k]
        own_len = (b.get('cdur', 0) if b['kind'] == 'async' else 0) + b.get('sdur', 0)
        if (seq[2][1] == 'cancelled' and b['kind'] in ('async', 'aplain') and seq[2][2] - t_clean < b.get('sto', 0)
                and ('K' not in b.get('flags', '') or seq[2][2] - t_clean < own_len)):
            # cancelled although its stop_timeout had not expired: it was not awaited
            out.append({'clause': 'stop_async_awaited_bounded',
                        'what': f'{nm(k)}: stop_async was cancelled {seq[2][2] - t_clean} ms after the clean-up began, '
                                f"its stop_timeout is {b.get('sto')} ms",
                        'sig': own_cancel_shape(True)})
            continue
        if (b['kind'] == 'outa' and 't' in b.get('flags', '')
                and any(kind == 'out' and kk == k and x for kind, kk, x, _t in log)
                and seq[2][2] - t_clean < min(b.get('sdur', 0), b.get('sto', 0))):
            # the output coroutine working on the stop_data was cancelled before its stop_timeout
            out.append({'clause': 'stop_async_awaited_bounded',
                        'what': f'{nm(k)}: stop_async ended {seq[2][2] - t_clean} ms after the clean-up began although the '
                                f"output coroutine needs {b.get('sdur')} ms and stop_timeout is {b.get('sto')} ms",
                        'sig': own_cancel_shape(True)})
            continue
        if seq[2][2] - t_clean > max_to:
            out.append({'clause': 'stop_async_awaited_bounded',
                        'what': f'{nm(k)}: stop_async ended {seq[2][2] - t_clean} ms after the clean-up began, '
                                f'longest stop_timeout is {max_to} ms'})
    for kind, k, _x, t in log:
        if kind == 'main-cancelled-twice' and t_clean is not None and t - t_clean < scn['blocks'][k].get('sto', 0):
            # the stop_async that was awaiting the cancelled main task was itself cancelled before its stop_timeout
            out.append({'clause': 'stop_async_awaited_bounded',
                        'what': f'{nm(k)}: stop_async was cancelled {t - t_clean} ms after the clean-up began while it awaited '
                                f"its main task; stop_timeout is {scn['blocks'][k].get('sto')} ms",
                        'sig': own_cancel_shape(True)})
    if t_clean is not None and r['end_ms'] - t_clean > max_to:
        out.append({'clause': 'stop_async_awaited_bounded',
                    'what': f'clean-up took {r["end_ms"] - t_clean} ms, longest stop_timeout is {max_to} ms'})
    # stop_data is the last action of an output block
    for k, b in enumerate(scn['blocks']):
        if b['kind'] in ('outf', 'outa') and 't' in b.get('flags', '') and k in started:
            outs = [x for kind, kk, x, _t in log if kind == 'out' and kk == k]
            if not outs or not outs[-1] or sum(1 for x in outs if x) != 1:
                uninit = b['kind'] == 'outa' and not outs and r['outputs'].get(nm(k)) == 'UNDEF'
                # known finding: the on_success event of ANOTHER OutputFunc's stop_data arrives after this block's stop()
                senders = [j for j, bb in enumerate(scn['blocks']) if bb['kind'] == 'outf' and bb.get('ons') == k
                           and 't' in bb.get('flags', '') and j in started]
                pos_stop = {kk: i for i, (kind, kk, _x, _t) in enumerate(log) if kind == 'stop'}
                late = (b['kind'] == 'outf' and outs and sum(1 for x in outs if x) == 1 and outs[-1] is False
                        and len(outs) - 1 - outs.index(True) <= sum(1 for j in senders if pos_stop.get(j, -1) > pos_stop.get(k, -1))
                        and any(pos_stop.get(j, -1) > pos_stop.get(k, -1) for j in senders))
                shape = 'outputasync_not_initialized' if uninit else ('outputfunc_event_after_stop' if late else 'initialized')
                out.append({'clause': 'stop_data_last',
                            'what': f'{nm(k)}: calls of the output function (True = stop_data): {outs}'
                                    + (' (the block was never initialised)' if uninit else '')
                                    + (f' (stopped before {[nm(j) for j in senders]}, whose stop_data result is sent to it)' if late else ''),
                            'sig': {'shape': shape}})
    # nothing is pending at the moment run() returns / the simulation task finishes
    now_left = r.get('left_now') or []
    if now_left:
        late_start = [k for k, b in enumerate(scn['blocks']) if 'L' in b.get('flags', '') and b['kind'] == 'async'
                      and k not in started and ('start', k) in [(kind, kk) for kind, kk, _x, _t in log]]
        f6 = bool(late_start) and f'main:{late_start[0]}' in now_left
        # known finding: the asynchronous clean-up of a main-task block is disabled (stop_timeout 0): nobody cancels the task
        sto0 = {f'main:{k}' for k, b in enumerate(scn['blocks']) if b['kind'] == 'async' and b.get('sto') == 0 and k in started}
        f7 = bool(sto0) and bool(set(now_left) & sto0)
        if not set(now_left) <= sto0 | ({f'main:{late_start[0]}'} if late_start else set()):
            f6 = f7 = False     # something else is pending as well
        out.append({'clause': 'no_live_task_when_finished',
                    'what': f"pending at the moment {'run() returned' if scn.get('runner') == 'run' else 'the simulation task finished'}: {now_left}"
                            + (' -- the main task of a block whose start() raised after AddonMainTask.start()' if f6 else '')
                            + (' -- main task of a block with stop_timeout=0 (asynchronous clean-up disabled)' if f7 else ''),
                    'sig': {'tasks': sorted({x.split(':')[0] for x in now_left}),
                            'shape': 'main_task_of_late_start_fault' if f6 else
                                     ('main_task_stop_timeout_zero' if f7 else 'other')}})
    # nothing outlives the simulation
    tasks = [x for x in r['left'] if not x.startswith(('timer:', 'handle:'))]
    if now_left:
        tasks = [x for x in tasks if x not in now_left]     # reported above
    handles = [x for x in r['left'] if x.startswith(('timer:', 'handle:'))]
    for clause, sel in (('no_live_init_task', [x for x in tasks if x.startswith('init:')]),
                        ('no_live_helper_task', [x for x in tasks if x == 'helper']),
                        ('no_live_task_at_end', [x for x in tasks if not x.startswith('init:') and x != 'helper'])):
        if sel:
            out.append({'clause': clause, 'what': f'still pending after the simulation finished: {sel}',
                        'sig': {'tasks': sorted({x.split(':')[0] for x in sel})}})
    if handles:
        never_started = all(x.startswith('timer:') and x[6:].isdigit() and int(x[6:]) not in started for x in handles)
        out.append({'clause': 'no_pending_timer',
                    'what': f'timer handles still scheduled after the simulation finished: {handles}',
                    'sig': {'shape': 'event_to_never_started_fsm' if never_started else 'timer_after_stop'}})
        restored = [k for k, b in enumerate(scn['blocks']) if b['kind'] == 'rtimer' and f'timer:{k}' in handles]
        if restored:
            out[-1]['what'] += (' -- a timer armed by _restore_state although the restore failed (calc_output '
                                'fault), orphaned when the block was initialised into a timed state afterwards')
            out[-1]['sig']['shape'] = 'timer_of_failed_restore'
    if r['restart'] != 'InvalidState' or r['modify'] != 'InvalidState':
        out.append({'clause': 'no_restart_no_modify',
                    'what': f"run_forever() again -> {r['restart']}, new block -> {r['modify']}"})
    own = [v for v in out if (v.get('sig') or {}).get('shape') == 'stop_async_own_cancellederror']
    if own:
        # the clean-up was cut short by the known finding: what else is wrong in this run (blocks not stopped ->
        # their timers, stop_data, stop_async tasks) is its consequence
        return own
    if own_cancel:
        # a stop_async of this run did end with its own CancelledError: `_run_tasks("stop")` was left there; which
        # of the other stop_async tasks were cancelled, awaited or left behind depends on the order of the set
        consequence = ('stop_async_awaited_bounded', 'no_live_task_when_finished', 'no_live_task_at_end',
                       'no_pending_timer', 'stop_data_last', 'cleanup_error_isolated')
        for v in out:
            if v['clause'] in consequence and not (v['clause'] == 'cleanup_error_isolated'
                                                   and not set(started) - set(stops) <= sync_started):
                v['sig'] = {**(v.get('sig') or {}), 'shape': 'stop_async_own_cancellederror'}
    return out


# ------------------------------------------------------------------ generator

def mk(kind, flags='', **kw):
    b = {'kind': kind, 'flags': flags}
    b.update(kw)
    return b


def finish(blocks, cause, rng=None, runner=None, wait_init=None, sfault=None, waiter=None, wcancel=None, sups=None):
    """fill in distinct durations, the trigger/control blocks and the wait_init flag"""
    blocks = [dict(b) for b in blocks]
    for b in blocks:
        if b.get('icd') and not b.get('idur', 0) < b.get('ito', 0):
            b['icd'] = 0        # a slow cancellation only where init_async does not run into its time-out
        if b['kind'] == 'async' and b.get('sto') == 0 and b.get('mf') is not None:
            b['mf'] = None      # a main task that nobody cancels does not end by itself either
    for i, b in enumerate(blocks):
        if b['kind'] == 'async':
            b.setdefault('idur', 10 * (i + 1))
            b.setdefault('ito', 10 * (i + 4) + 3)
            b.setdefault('cdur', 0)
            b.setdefault('sdur', 10 * (i + 1))
            b.setdefault('sto', 100 + 10 * i + 3)
        elif b['kind'] in ('outa', 'aplain'):
            b.setdefault('sdur', 10 * (i + 1))
            b.setdefault('sto', 100 + 10 * i + 3)
        elif b['kind'] == 'ainit':
            b.setdefault('idur', 10 * (i + 1))
            b.setdefault('ito', 10 * (i + 4) + 3)
    if cause['kind'] in ('innerShutdown', 'innerAbort'):
        # inp -> valid (x != 0) --on_output(False)--> trig --on_success--> _ctrl;  inp, valid -> ratio (1/x)
        blocks += [mk('inp'), mk('valid'), mk('ratio'), mk('trig'), mk('ctrl')]
    if cause['kind'] in ('ctrlShutdown', 'ctrlAbort'):
        if not any(b['kind'] == 'trig' for b in blocks):
            pos = rng.randrange(len(blocks) + 1) if rng else 0
            # references by index (ons, target) move with the insertion
            for b in blocks:
                if b.get('ons') is not None and b['ons'] >= pos:
                    b['ons'] += 1
            blocks.insert(pos, mk('trig'))
        blocks.append(mk('ctrl'))
    scn = {'blocks': blocks, 'cause': dict(cause)}
    if sups:
        scn['sups'] = sups
    if runner is None:
        runner = 'run' if cause['kind'] in ('supportEnd', 'supportFail', 'sigterm') else 'task'
    scn['runner'] = runner
    has_outf = any(b['kind'] == 'outf' for b in blocks)
    scn['wait_init'] = bool(has_outf or wait_init) and not cause.get('before')
    if scn['wait_init'] and waiter in ('support', 'cancel'):
        # who awaits wait_init(): a supporting coroutine of run() / a task that is cancelled from outside
        if waiter == 'support' and runner == 'run':
            scn['waiter'] = 'support'
        elif waiter == 'cancel' and not has_outf:
            scn['waiter'] = 'cancel'
            scn['wcancel'] = wcancel
    sec = scn['cause'].get('second')
    if sec:
        ck, run = scn['cause']['kind'], scn['runner'] == 'run'
        ok = (not scn['cause'].get('before') and scn['cause']['time'] > 0
              and (sec['kind'] != 'callerCancel' or (ck == 'shutdown' and not run))
              and (sec['kind'] not in ('supportEnd', 'supportFail', 'sigterm') or run)
              and not (sec['kind'] in ('ctrlShutdown', 'ctrlAbort', 'handlerErr', 'innerShutdown', 'innerAbort')))
        if not ok:
            del scn['cause']['second']
    if scn['cause'].get('awaited') and not (scn['cause']['kind'] == 'shutdown' and scn['runner'] == 'run'
                                            and scn['cause'].get('second')):
        del scn['cause']['awaited']
    if scn.get('sups') and scn['runner'] != 'run':
        del scn['sups']
    if sfault and (any(f in b.get('flags', '') for b in blocks for f in 'rp')
                   or any(b['kind'] == 'rtimer' for b in blocks)):
        scn['sfault'] = sfault      # only with a storage, i.e. with a persistent block
    return scn


CAUSES_TASK = ['shutdown', 'abort', 'ctrlShutdown', 'ctrlAbort', 'handlerErr', 'innerShutdown', 'innerAbort']
CAUSES_RUN = ['supportEnd', 'supportFail', 'sigterm', 'shutdown', 'abort', 'innerShutdown', 'innerAbort']


def base_circuit():
    """async-init block, second async-init block, sync probe, CBlock"""
    return [mk('async', 'a', idur=20, ito=173, sdur=10, sto=103),
            mk('async', 'as', idur=140, ito=163, sdur=30, sto=83),
            mk('sync', 's'),
            mk('cblock')]


def grid(tier):
    """single fault x cause x instant on the fixed circuit"""
    faults = [(None, '')] + [(k, f) for k in range(4) for f in 'SAGVPQRH'] + [(3, 'C')]
    instants = [0, 15, 35, 205]         # after start / during async init (two places) / running
    for (k, f), ck, t in itertools.product(faults, CAUSES_TASK + ['supportEnd', 'supportFail', 'sigterm'], instants):
        blocks = base_circuit()
        if k is not None:
            if f in 'AQ' and blocks[k]['kind'] != 'async':
                continue
            if f in 'GVRH' and blocks[k]['kind'] not in ('sync', 'async'):
                continue
            if f == 'C' and blocks[k]['kind'] != 'cblock':
                continue
            fl = blocks[k]['flags'] + f
            if f == 'V':
                fl = fl.replace('s', '') + 'd'
            if f == 'R':
                fl += 'r'
            blocks[k]['flags'] = fl
        cause = {'kind': ck, 'time': t}
        if ck == 'handlerErr':
            tgt = [i for i, b in enumerate(blocks) if 'H' in b['flags']]
            if not tgt or t < 200:
                continue
            cause['target'] = tgt[0]
        elif f == 'H':
            continue
        if ck in ('supportEnd', 'supportFail', 'sigterm') and t == 0:
            continue
        if ck in ('ctrlShutdown', 'ctrlAbort') and t == 0:
            continue        # the trigger block is not initialised yet: an event would initialise it early
        if ck in ('innerShutdown', 'innerAbort'):
            if t < 200:
                continue    # CBlocks are evaluated by the running simulator only
            for ra in (False, True):
                yield finish(blocks, {**cause, 'raise_after': ra})
            continue
        yield finish(blocks, cause)


def main_fault_grid():
    for mf, ct, mret in itertools.product([0, 7, 27, 107, 307], [15, 205], [False, True]):
        blocks = base_circuit()
        blocks[1]['mf'] = mf
        blocks[1]['mret'] = mret
        for late in (False, True):
            yield finish(blocks, {'kind': 'shutdown', 'time': ct, 'late': late})
    for before_kind in ('shutdown', 'abort'):
        yield finish(base_circuit(), {'kind': before_kind, 'time': 5, 'before': True})


def defect_scenarios():
    # 5: shutdown during async init with >= 2 async-init blocks
    yield finish(base_circuit(), {'kind': 'shutdown', 'time': 15})
    # 6: Event.shutdown()
    yield finish([mk('sync', 's')], {'kind': 'ctrlShutdown', 'time': 205})
    # 7: stop_data -> on_success -> Timer 'start' after the timer was stopped (either order of the set)
    yield finish([mk('timer'), mk('outf', 't', ons=0)], {'kind': 'shutdown', 'time': 205})
    yield finish([mk('outf', 't', ons=1), mk('timer', 'm'), mk('async', 's')], {'kind': 'abort', 'time': 205})
    # 14: wait_init() while the simulation ends during the initialisation
    yield finish(base_circuit(), {'kind': 'abort', 'time': 15}, wait_init=True)
    yield finish([mk('sync', 'sG')], {'kind': 'shutdown', 'time': 205}, wait_init=True)
    # a main task that needs time to finish after its cancellation, no other asynchronous clean-up
    yield finish([mk('async', 's', cdur=4, sdur=0, sto=53), mk('sync', 's')], {'kind': 'shutdown', 'time': 205})
    # a persistent block that is started but still uninitialised when the simulation is terminated, with and
    # without an old entry in the storage: init_regular fault of an earlier / later block, never initialised
    # block, abort during the asynchronous initialisation, start() fault after it
    # calc_output fails (raises / returns UNDEF) during the restore of a persistent timed FSM whose saved state is timed
    # and unexpired, then the block is initialised from initdef: timed / untimed / absent -- every cause
    for rmode in ('raise', 'undef', None):
        for idf in ('m', 'f', ''):
            rt = mk('rtimer', ('X' if rmode else '') + idf, **({'rmode': rmode} if rmode else {}))
            for ck, t, run in (('shutdown', 205, None), ('abort', 205, None), ('supportEnd', 205, 'run'),
                               ('supportFail', 205, 'run'), ('sigterm', 205, 'run'), ('ctrlShutdown', 805, None),
                               ('ctrlAbort', 805, None), ('innerShutdown', 805, None), ('shutdown', 15, None)):
                yield finish([mk('sync', 's'), dict(rt), mk('async', 'sa', idur=40, ito=63)], {'kind': ck, 'time': t},
                             runner=run)
            yield finish([dict(rt), mk('sync', 'sG')], {'kind': 'shutdown', 'time': 205})
            yield finish([dict(rt), mk('cblock', 'C')], {'kind': 'shutdown', 'time': 205})
            yield finish([dict(rt), mk('async', 's', mf=57)], {'kind': 'shutdown', 'time': 205})
            yield finish([dict(rt), mk('sync', 'sS')], {'kind': 'shutdown', 'time': 205})
    # somebody is waiting in wait_init() when the simulation is terminated / is cancelled there from outside:
    # every cause, before and after the initialisation is complete (base circuit: async init until 140)
    for ck in ('supportEnd', 'supportFail', 'sigterm', 'shutdown', 'abort'):
        for t in (15, 35, 205):
            yield finish(base_circuit(), {'kind': ck, 'time': t}, runner='run', wait_init=True, waiter='support')
            for wc in (9, 29, 159, 259):
                yield finish(base_circuit(), {'kind': ck, 'time': t}, runner='run', wait_init=True,
                             waiter='cancel', wcancel=wc)
    for ck in ('shutdown', 'abort', 'ctrlShutdown', 'ctrlAbort', 'innerShutdown'):
        for t in (15, 205, 805):
            if ck.startswith(('ctrl', 'inner')) and t < 800:
                continue
            for wc in (9, 29, 159, 609):
                yield finish(base_circuit(), {'kind': ck, 'time': t}, wait_init=True, waiter='cancel', wcancel=wc)
    yield finish([mk('sync', 'sG'), mk('async', 's')], {'kind': 'shutdown', 'time': 205}, runner='run', wait_init=True,
                 waiter='support')
    # the storage fails when the simulation is being stopped: the save step must not prevent the clean-up
    for sf in ('w', 'p'):
        for ck in ('shutdown', 'abort', 'supportEnd', 'sigterm'):
            yield finish([mk('sync', 'sp'), mk('async', 'sr'), mk('timer', 'm'), mk('outf', 't', ons=2), mk('outa', 't'),
                          mk('sync', 's')], {'kind': ck, 'time': 205}, sfault=sf)
        yield finish([mk('sync', 'sp'), mk('sync', 'sG'), mk('async', 'sp')], {'kind': 'shutdown', 'time': 205}, sfault=sf)
        yield finish([mk('sync', 'dp'), mk('cblock', 'C'), mk('async', 's')], {'kind': 'shutdown', 'time': 205}, sfault=sf)
        yield finish([mk('async', 'ap', idur=140, ito=163), mk('sync', 'sr')], {'kind': 'abort', 'time': 15}, sfault=sf)
        yield finish([mk('sync', 'sr'), mk('async', 's', mf=57)], {'kind': 'shutdown', 'time': 205}, sfault=sf)
    for pf in ('p', 'r', 'rR'):
        yield finish([mk('sync', 's'), mk('sync', 'sG'), mk('sync', 'd' + pf), mk('async', 's')],
                     {'kind': 'shutdown', 'time': 205})
        yield finish([mk('sync', pf if pf != 'r' else 'rR'), mk('sync', 's' + pf), mk('async', 's'), mk('sync', 'sG')],
                     {'kind': 'shutdown', 'time': 205})
        yield finish([mk('async', 'a' + pf, idur=140, ito=163), mk('sync', 'd' + pf), mk('async', 's')],
                     {'kind': 'abort', 'time': 15})
        yield finish([mk('sync', 'd' + pf), mk('async', 's'), mk('sync', 'sS')], {'kind': 'shutdown', 'time': 205})
        yield finish([mk('sync', 's' + pf), mk('async', 's' + pf)], {'kind': 'supportEnd', 'time': 205})
    # AddonAsync blocks without an (enabled) asynchronous clean-up belong to the synchronous set
    yield finish([mk('ainit', 's'), mk('aplain', 's', sto=0), mk('aplain', 's'), mk('sync', 's'),
                  mk('async', 's')], {'kind': 'shutdown', 'time': 205})
    yield finish([mk('ainit', ''), mk('aplain', 's', sto=0)], {'kind': 'supportEnd', 'time': 205})
    # control event sent from inside the simulator task (on_output of a CBlock), alone and followed by an
    # exception of the next evaluated CBlock: the pending cancellation must not reach the clean-up
    for ck, ra in (('innerShutdown', True), ('innerShutdown', False), ('innerAbort', True), ('innerAbort', False)):
        yield finish(base_circuit() + [mk('outa', 't'), mk('timer', 'm'), mk('outf', 't', ons=5)],
                     {'kind': ck, 'time': 805, 'raise_after': ra})
        yield finish([mk('sync', 's')], {'kind': ck, 'time': 805, 'raise_after': ra})
    # start() failure after an output block whose stop_data event goes to a timer that was never started
    yield finish([mk('outf', 't', ons=2), mk('sync', 'sS'), mk('timer')], {'kind': 'shutdown', 'time': 205})


def new_dimension_scenarios():
    """slow cancellations, second termination causes during the clean-up, own CancelledError, OutputFunc chains,
    late start() faults, slow supporting coroutines"""
    # (a) init_async tasks that need further loop iterations / time once cancelled; termination during the async init
    for ck, icd in ((1, 0), (2, 0), (5, 0), (0, 2), (3, 1)):
        for kind, run in (('shutdown', None), ('abort', None), ('abort', 'run'), ('sigterm', 'run'), ('supportEnd', 'run')):
            yield finish([mk('ainit', 'a', idur=1000, ito=3003), mk('ainit', 'a', idur=1010, ito=2003, ck=ck, icd=icd),
                          mk('ainit', 'a', idur=1020, ito=2013, ck=ck, icd=icd)], {'kind': kind, 'time': 55}, runner=run)
            yield finish([mk('async', 'a', idur=140, ito=163, ck=ck, icd=icd), mk('ainit', 'a', idur=150, ito=173, ck=ck),
                          mk('async', 'as', idur=20, ito=183, sdur=10, sto=103), mk('sync', 's')],
                         {'kind': kind, 'time': 35}, runner=run)
    # (b) a second termination cause during the clean-up, by every route
    circ = [mk('aplain', 's', sdur=200, sto=1003), mk('sync', 's'), mk('async', 's', sdur=100, sto=503), mk('timer', 'm')]
    for dt in (2, 52, 152):
        yield finish(circ, {'kind': 'shutdown', 'time': 205, 'second': {'kind': 'callerCancel', 'dt': dt}})
        for k2 in ('abort', 'shutdown'):
            for k1 in ('shutdown', 'abort'):
                yield finish(circ, {'kind': k1, 'time': 205, 'second': {'kind': k2, 'dt': dt}})
        for k2 in ('supportEnd', 'supportFail', 'abort', 'sigterm', 'shutdown'):
            yield finish(circ, {'kind': 'shutdown', 'time': 205, 'awaited': True, 'second': {'kind': k2, 'dt': dt}},
                         runner='run')
            for k1 in ('shutdown', 'abort', 'supportEnd', 'supportFail', 'sigterm'):
                yield finish(circ, {'kind': k1, 'time': 205, 'second': {'kind': k2, 'dt': dt}}, runner='run')
    # (c) a stop_async that ends with a CancelledError of its own
    for order in (0, 1):
        blocks = [mk('aplain', 'sK', sdur=20, sto=103 + 100 * order), mk('aplain', 's', sdur=50, sto=153), mk('sync', 's')]
        for kind, run in (('shutdown', None), ('abort', None), ('supportEnd', 'run')):
            yield finish(blocks, {'kind': kind, 'time': 205}, runner=run)
    yield finish([mk('async', 'sK', sdur=20, sto=103)], {'kind': 'shutdown', 'time': 205})
    yield finish([mk('async', 'sK', sdur=20, sto=103)], {'kind': 'abort', 'time': 205})
    # (d) OutputFunc -> OutputFunc, stop_data on both (run_impl repeats the run until both stop orders were seen)
    for kind, run in (('shutdown', None), ('abort', None), ('supportEnd', 'run')):
        yield finish([mk('outf', 't'), mk('outf', 't', ons=0)], {'kind': kind, 'time': 205}, runner=run)
        yield finish([mk('outf', 't', ons=1), mk('outf', 't'), mk('sync', 's')], {'kind': kind, 'time': 205}, runner=run)
        yield finish([mk('outf', '', ons=1), mk('outf', 't'), mk('outf', 't', ons=1)], {'kind': kind, 'time': 205}, runner=run)
    # (e) start() faults before (S) and after (L) super().start(), for blocks with AddonMainTask / AddonAsync
    for f in 'SL':
        for kind in ('async', 'ainit', 'aplain', 'sync'):
            for pos in (0, 1, 2):
                blocks = [mk('sync', 's'), mk('async', 's')]
                blocks.insert(pos, mk(kind, 's' + f + ('a' if kind == 'ainit' else '')))
                yield finish(blocks, {'kind': 'shutdown', 'time': 205})
                yield finish(blocks, {'kind': 'supportEnd', 'time': 205}, runner='run')
    # main-task block whose asynchronous clean-up is disabled by stop_timeout=0
    for kind, run in (('shutdown', None), ('abort', None), ('supportEnd', 'run'), ('sigterm', 'run')):
        yield finish([mk('async', 's', sto=0), mk('sync', 's'), mk('async', 's')], {'kind': kind, 'time': 205}, runner=run)
        yield finish([mk('async', 's', sto=0)], {'kind': kind, 'time': 205}, runner=run)
    # (g) supporting coroutines that need further loop iterations once cancelled, before and after the one that ends/fails
    for k1 in ('supportEnd', 'supportFail', 'abort', 'shutdown', 'sigterm'):
        for ck in (1, 3, 6):
            yield finish(base_circuit(), {'kind': k1, 'time': 205}, runner='run',
                         sups=[{'ck': ck, 'pos': 'before'}, {'ck': ck + 1, 'pos': 'after'}])
            yield finish([mk('sync', 'sH')], {'kind': 'handlerErr', 'time': 805, 'target': 0}, runner='run',
                         sups=[{'ck': ck, 'pos': 'before'}, {'ck': ck, 'pos': 'after'}])


def random_scenario(rng):
    n = rng.randint(1, 5)
    blocks = []
    mf_pool = [0, 7, 27, 57, 127, 257]
    zero_sdur_used = False
    for i in range(n):
        kind = rng.choice(['sync', 'sync', 'async', 'async', 'async', 'cblock', 'timer', 'outf', 'outa',
                           'ainit', 'aplain', 'rtimer'])
        fl = ''
        b = mk(kind)
        if kind in ('sync', 'async', 'ainit', 'aplain'):
            r = rng.random()
            fl = 's' if r < 0.6 else ('d' if r < 0.8 else ('sd' if r < 0.9 else ''))
            x = rng.random()
            if x < 0.15:
                fl += 'r' + ('R' if rng.random() < 0.5 else '')     # persistent, the storage has an entry
            elif x < 0.40:
                fl += 'p'                                           # persistent, no entry (first run)
            for f, p in (('G', 0.06), ('V', 0.08), ('H', 0.1)):
                if rng.random() < p:
                    fl += f
        if kind == 'async':
            if rng.random() < 0.6:
                fl += 'a'
                if rng.random() < 0.15:
                    fl += 'A'
            if rng.random() < 0.15:
                fl += 'Q'
            b['idur'] = 10 * (i + 1) + 100 * rng.choice([0, 0, 1, 4])
            b['ito'] = rng.choice([23, 43, 63, 153, 553, 0])
            b['cdur'] = rng.choice([0, 0, 2, 4])
            b['sdur'] = 10 * (i + 1) + 100 * rng.randrange(0, 2)
            if not zero_sdur_used and rng.random() < 0.25:
                # no clean-up of its own: stop_async lasts as long as the main task needs to finish
                zero_sdur_used = True
                b['sdur'] = 0
                b['cdur'] = rng.choice([0, 2, 4])
            b['sto'] = rng.choice([33, 53, 83, 123, 253])
            if rng.random() < 0.05:
                b['sto'] = 0        # asynchronous clean-up disabled (docs: "Value 0.0 or negative disables the async cleanup")
            if rng.random() < 0.15:
                b['mf'] = mf_pool.pop(rng.randrange(len(mf_pool)))     # pairwise distinct
                b['mret'] = rng.random() < 0.4
        if kind == 'ainit':
            if rng.random() < 0.15:
                fl += 'A'
            b['idur'] = 10 * (i + 1) + 100 * rng.choice([0, 0, 1, 4])
            b['ito'] = rng.choice([23, 43, 63, 153, 553, 0])
        if kind == 'aplain':
            if rng.random() < 0.15:
                fl += 'Q'
            b['sdur'] = 10 * (i + 1) + 100 * rng.randrange(0, 2)
            b['sto'] = rng.choice([0, 0, 33, 53, 83, 123, 253])     # 0: asynchronous clean-up disabled
        if kind == 'cblock' and rng.random() < 0.25:
            fl += 'C'
        if kind == 'timer' and rng.random() < 0.5:
            fl += 'm'
        if kind == 'rtimer':
            # calc_output fault during the restore x initdef timed ('on') / untimed, given ('off') / absent
            if rng.random() < 0.6:
                fl += 'X'
                b['rmode'] = rng.choice(['raise', 'undef'])
            fl += rng.choice(['m', 'm', 'f', ''])
        if kind in ('outf', 'outa') and rng.random() < 0.75:
            fl += 't'
        if kind in ('async', 'aplain') and rng.random() < 0.06:
            fl += 'K'
        if kind in ('async', 'ainit', 'aplain') and rng.random() < 0.3:
            b['ck'] = rng.choice([1, 2, 3, 5])
        if kind in ('async', 'ainit') and rng.random() < 0.2:
            b['icd'] = rng.choice([1, 2])
        if kind in ('async', 'ainit', 'aplain', 'sync') and rng.random() < 0.05:
            fl += 'L'
        if kind == 'outa':
            b['sdur'] = 10 * (i + 1) + 100 * rng.randrange(0, 2)
            b['sto'] = rng.choice([33, 53, 83, 123, 253])
        if rng.random() < 0.08:
            fl += 'S'
        if rng.random() < 0.12:
            fl += 'P'
        b['flags'] = fl
        blocks.append(b)
    if sum(1 for b in blocks if is_async_stop(b) or b['kind'] == 'outa') > 1:
        # random circuits: a stop_async with its own CancelledError (known finding) only where it is the only
        # asynchronous clean-up -- which of the OTHER stop_async tasks get cancelled depends on the order of the set
        # (the fixed scenarios of new_dimension_scenarios cover two of them, both time-out orders)
        for b in blocks:
            b['flags'] = b['flags'].replace('K', '')
    timers = [i for i, b in enumerate(blocks) if b['kind'] == 'timer']
    outfs = [i for i, b in enumerate(blocks) if b['kind'] == 'outf']
    chain_targets = set()
    for i, b in enumerate(blocks):
        if b['kind'] == 'outf' and len(outfs) > 1 and i not in chain_targets and rng.random() < 0.4:
            # OutputFunc -> OutputFunc; the target has no on_success of its own
            tgt = rng.choice([j for j in outfs if j != i])
            if blocks[tgt].get('ons') is None:
                b['ons'] = tgt
                chain_targets.add(tgt)
                continue
        if b['kind'] == 'outf' and i not in chain_targets and timers and rng.random() < 0.7:
            b['ons'] = rng.choice(timers)
    runner = rng.choice(['task', 'task', 'run'])
    ck = rng.choice(CAUSES_TASK if runner == 'task' else CAUSES_RUN)
    t = rng.choice([0, 5, 15, 25, 45, 65, 105, 155, 205, 305, 605])
    cause = {'kind': ck, 'time': t, 'late': rng.random() < 0.25}
    if rng.random() < 0.3:
        cause['second'] = {'kind': rng.choice(['callerCancel', 'callerCancel', 'supportEnd', 'supportFail', 'abort',
                                               'sigterm', 'shutdown']),
                           'dt': rng.choice([2, 12, 22, 52, 112])}
        cause['awaited'] = rng.random() < 0.5
    if ck == 'handlerErr':
        tgt = [i for i, b in enumerate(blocks) if 'H' in b['flags']]
        if not tgt:
            cause['kind'] = 'abort'
        else:
            cause['target'] = rng.choice(tgt)
            cause['time'] = 805        # the circuit is running: after the longest asynchronous initialisation
    if cause['kind'] in ('ctrlShutdown', 'ctrlAbort', 'innerShutdown', 'innerAbort'):
        cause['time'] = max(cause['time'], 805)
    if cause['kind'] in ('innerShutdown', 'innerAbort'):
        cause['raise_after'] = rng.random() < 0.6
    if runner == 'run' and cause['time'] == 0:
        cause['time'] = 5
    if rng.random() < 0.04:
        cause['before'] = True
        cause['kind'] = rng.choice(['shutdown', 'abort'])
        runner = 'task'
    return finish(blocks, cause, rng=rng, runner=runner, wait_init=rng.random() < 0.55,
                  sfault=rng.choice([None, None, None, 'w', 'p']),
                  waiter=rng.choice([None, 'support', 'support', 'cancel', 'cancel']),
                  wcancel=rng.choice([9, 19, 29, 49, 69, 109, 159, 209, 409, 609, 809]),
                  sups=(None if rng.random() < 0.7 else
                        [{'ck': rng.choice([1, 2, 4, 7]), 'pos': rng.choice(['before', 'after'])}
                         for _ in range(rng.randint(1, 3))]))


def scenarios(rng, tier):
    yield from defect_scenarios()
    yield from new_dimension_scenarios()
    yield from main_fault_grid()
    yield from grid(tier)
    for _ in range(6000 if tier == 'quick' else 400000):
        yield random_scenario(rng)


def shrink(scn):
    """drop a block (references by index are adjusted), drop fault flags, drop the late request"""
    blocks = scn['blocks']
    for i in reversed(range(len(blocks))):
        if blocks[i]['kind'] in ('trig', 'ctrl', 'inp', 'valid', 'ratio') or len(blocks) == 1:
            continue
        if scn['cause'].get('target') == i:
            continue
        if any(b.get('ons') == i for b in blocks):
            continue
        nb = []
        for j, b in enumerate(blocks):
            if j == i:
                continue
            b = dict(b)
            if b.get('ons') is not None and b['ons'] > i:
                b['ons'] -= 1
            nb.append(b)
        cause = dict(scn['cause'])
        if cause.get('target') is not None and cause['target'] > i:
            cause['target'] -= 1
        yield {**scn, 'blocks': nb, 'cause': cause}
    for i, b in enumerate(blocks):
        for f in b.get('flags', ''):
            if f in 'SRAGVCPQLK':
                nb = [dict(x) for x in blocks]
                nb[i]['flags'] = b['flags'].replace(f, '')
                yield {**scn, 'blocks': nb}
        if b.get('mf') is not None:
            nb = [dict(x) for x in blocks]
            nb[i]['mf'] = None
            yield {**scn, 'blocks': nb}
    if scn['cause'].get('late'):
        yield {**scn, 'cause': {**scn['cause'], 'late': False}}
    if scn['cause'].get('second'):
        yield {**scn, 'cause': {k: v for k, v in scn['cause'].items() if k not in ('second', 'awaited')}}
    if scn.get('sups'):
        yield {k: v for k, v in scn.items() if k != 'sups'}
    for i, b in enumerate(blocks):
        for key in ('ck', 'icd'):
            if b.get(key):
                nb = [dict(x) for x in blocks]
                nb[i][key] = 0
                yield {**scn, 'blocks': nb}
    if scn.get('sfault'):
        yield {k: v for k, v in scn.items() if k != 'sfault'}
    if scn.get('wait_init') and not any(b['kind'] == 'outf' for b in blocks):
        yield {k: v for k, v in scn.items() if k not in ('waiter', 'wcancel')} | {'wait_init': False}
    if scn.get('runner') == 'run' and scn['cause']['kind'] in ('shutdown', 'abort'):
        yield {k: v for k, v in scn.items() if k not in ('waiter', 'wcancel')} | {'runner': 'task'}
