"""C17 -- Input / InputExp value validation: correspondence with lean/EdzedModel/Validate.lean + oracle.

Scenario values are strings in the wire encoding of harness/enc.py (JSON would turn a tuple into
a list); `dec` turns them into fresh Python objects.  Validators are scripts: lookup tables keyed
by the exact value (type included), results in the same encoding, `!` = the schema raises.
"""
from fractions import Fraction
import functools
import itertools

import edzed

from ..enc import enc
from ..simrun import Sim
from .. import vtime
from ..runner import shrink_ops

ID = 'C17'
RULE = ("a real Input (optionally persistent) or InputExp in a running circuit on the virtual-time loop; "
        "validators are lookup-table scripts (keyed by the exact value incl. its type) that log their calls; a "
        "schema script raises one of six exception classes chosen per value by the scenario (ValueError, "
        "TypeError, KeyError, ZeroDivisionError, AttributeError, an own Exception subclass); `allowed` is handed "
        "over as list / tuple / set / frozenset / dict / dict keys view / generator and the caller mutates ITS "
        "object afterwards (clear / add / remove between constructor and start and between events). "
        "Enumerated completely: 27 validator configurations (3 choices each for allowed/check/schema incl. "
        "absent, i.e. all 8 presence combinations several times) x all put sequences of length 4 (quick) / 5 "
        "(thorough) over {1, True, 1.0, 2, [1], (1,)}, and for the 8 presence combinations all sequences of "
        "length 6 over 5 of these values (thorough); the whole matrix configuration x initdef x restored "
        "value (Input) and configuration x initdef x expired (InputExp) over that domain plus UNDEF/absent/"
        "None; InputExp sequences of length 4 (quick: 8 configurations; thorough: all 27, and length 5 for "
        "the 8) over 4 puts and waits of 4 s / 7 s with duration 10 s; 6 exception classes x allowed "
        "present/absent x (raising initdef / expired / restored value, all put sequences of length 3 over 4 "
        "values, InputExp sequences of length 3); 18 configurations with `allowed` x 7 collection kinds x 5 "
        "caller-mutation patterns x Input / InputExp / restored start; all 6 orders x 8 type patterns x 3 "
        "validator variants of three blocks built from ONE scratch set that is cleared and refilled for each "
        "block; 27 configurations x 22 saved states of a persistent InputExp (state valid with a running / no / "
        "overdue timer x 6 saved values, missing value, state expired with and without stale value or timestamp) "
        "x with/without initdef x duration 10 s / infinite, followed by puts and waits. Random: 20 000 (quick) / 150 000 configurations (allowed subsets in a random collection kind "
        "with random caller mutations in 40 % of them, check/schema tables with falsy/truthy results of many "
        "types, schemas raising random classes, UNDEF results, unhashable members of `allowed`) with sequences "
        "up to length 12 over a 22-value domain, and 600 / 6 000 random groups of 2-4 blocks sharing one "
        "scratch set. A case is distinct by its (input lines, trace) hash and non-trivial if at least one "
        "validator is present and at least one event was sent")
ASSUMPTIONS = [
    "values are UNDEF, None, bool/int/float numbers, strings and flat tuples/lists of such atoms; no NaN, no "
    "objects with a user-defined __eq__/__hash__",
    "check functions return a value and do not raise; a schema either returns a value or raises an instance of "
    "(a subclass of) Exception -- BaseException subclasses (KeyboardInterrupt, SystemExit, CancelledError) are "
    "not validation results and are out of scope",
    "a schema returning UNDEF (set_output refuses it: the handler fails) is modelled for put events only and "
    "generated rarely; it is not generated for initdef/expired/restored values",
    "InputExp: no stimulus falls on the very instant of the expiration (waits of 4 s and 7 s never add up to "
    "the duration of 10 s); same-instant order is C04's subject; blocks sharing a scratch set get no waits",
    "a persistent InputExp is restarted with the storage entry (state, expiration timestamp, sdata) that "
    "FSM.get_state() writes; the wall clock is the virtual one (harness/vtime.py); remaining times of 5, 6 and "
    "9 s never coincide with sums of the waits",
    "whatever exception the code under test raises (constructor, start-up, event) is recorded as the outcome "
    "of that step and compared / judged; it never terminates the check",
]
EXHAUSTIVE = {'quick': False, 'thorough': True}

UNDEF = edzed.UNDEF
KEY = "<Input 'inp'>"


# ---------------------------------------------------------------- value codec

@functools.lru_cache(maxsize=4096)
def _dec_atom(s):      # atoms are immutable, a cache is safe
    if s == 'n':
        return None
    if s == 'b0':
        return False
    if s == 'b1':
        return True
    if s[0] == 'i':
        return int(s[1:])
    if s[0] == 'f':
        return float(Fraction(s[1:]))
    if s[0] == 's':
        return bytes.fromhex(s[1:]).decode('utf-8')
    raise ValueError(s)


def dec(s):
    if s == 'u':
        return UNDEF
    if s[0] in 'tl' and s[1:2] == '[':
        body = s[2:-1]
        items = [_dec_atom(x) for x in body.split(',')] if body else []
        return tuple(items) if s[0] == 't' else items
    return _dec_atom(s)


def _script_str(tag, spec):
    if spec is None:
        return '-'
    return '|'.join([tag, spec['d']] + [f'{k}={v}' for k, v in spec['t']])


def _allowed_str(allowed):
    return '-' if allowed is None else '|'.join(['A'] + list(allowed))


class _CtorFailed(Exception):
    pass


# ---------------------------------------------------------------- generator

D6 = ['i1', 'b1', 'f1/1', 'i2', 'l[i1]', 't[i1]']
D5 = ['i1', 'b1', 'i2', 'l[i1]', 't[i1]']
ALLOWED_OPTS = [None, ['i1', 'i2'], ['b1', 't[i1]']]
CHECK_OPTS = [
    None,
    # accepts exactly int 1 (not True / 1.0), 2, the tuple and the list; truthy results of several types
    {'d': 'b0', 't': [['i1', 'b1'], ['i2', 'i1'], ['t[i1]', 's78'], ['l[i1]', 'l[i0]']]},
    # accepts everything but True, 2 and 1.0, with falsy results of several types
    {'d': 'b1', 't': [['b1', 'b0'], ['i2', 'n'], ['f1/1', 's']]},
]
SCHEMA_OPTS = [
    None,
    # converts into values that other validators would treat differently; raises by default
    {'d': '!K', 't': [['i1', 's61'], ['b1', 'i2'], ['i2', 'i1'], ['l[i1]', 't[i1]'], ['t[i1]', 'l[i1]'],
                      ['f1/1', '!A']]},
    # identity on most values, 1.0 -> 1, raises for the list and for 2
    {'d': 'n', 't': [['i1', 'i1'], ['b1', 'b1'], ['f1/1', 'i1'], ['t[i1]', 't[i1]'], ['l[i1]', '!Z'], ['i2', '!C']]},
]
CONFIGS = [{'allowed': a, 'check': c, 'schema': s}
           for a in ALLOWED_OPTS for c in CHECK_OPTS for s in SCHEMA_OPTS]
PRESENCE = [{'allowed': a, 'check': c, 'schema': s}
            for a in (None, ALLOWED_OPTS[1]) for c in (None, CHECK_OPTS[1]) for s in (None, SCHEMA_OPTS[1])]

BIG = ['i0', 'i1', 'i2', 'i3', 'b0', 'b1', 'f0/1', 'f1/1', 'f2/1', 'f1/2', 'n', 's', 's61', 's62',
       't[]', 't[i1]', 't[b1]', 't[i1,i2]', 'l[]', 'l[i1]', 'l[f1/1]', 'l[i1,i2]']
HASHABLE_BIG = [v for v in BIG if v[0] != 'l']
CHECK_RESULTS = ['b0', 'b1', 'i0', 'i1', 'n', 's', 's61', 'l[]', 'l[i0]', 't[]', 't[i0]', 'f0/1', 'f1/2', 'u']


def _spec_accept(cfg, v):
    """(accepted, converted) -- used by the GENERATOR only, to pick a usable initdef"""
    return _accept(cfg, v)[:2]


def _valid_initdef(cfg, pool):
    for v in pool:
        ok, w = _spec_accept(cfg, v)
        if ok and w != 'u':
            return v
    return None


def _in(cfg, initdef, restored, ops):
    return {'kind': 'in', **cfg, 'initdef': initdef, 'restored': restored, 'ops': ops}


def _exp(cfg, initdef, expired, ops):
    return {'kind': 'exp', **cfg, 'initdef': initdef, 'expired': expired, 'duration': 10, 'ops': ops}


def _random_cfg(rng):
    cfg = {'allowed': None, 'check': None, 'schema': None}
    pres = rng.randrange(8)
    if pres & 1:
        k = rng.choice([0, 1, 2, 3, 5, 8])
        pool = BIG if rng.random() < 0.04 else HASHABLE_BIG
        cfg['allowed'] = rng.sample(pool, min(k, len(pool)))
    if pres & 2:
        d = rng.choice(['b0', 'b1', rng.choice(CHECK_RESULTS)])
        keys = rng.sample(BIG, rng.randint(0, 10))
        cfg['check'] = {'d': d, 't': [[k, rng.choice(CHECK_RESULTS)] for k in keys]}
    if pres & 4:
        def sres():
            r = rng.random()
            if r < 0.25:
                return rng.choice(RAISES)
            if r < 0.27:
                return 'u'
            return rng.choice(BIG)
        keys = rng.sample(BIG, rng.randint(0, 12))
        cfg['schema'] = {'d': sres(), 't': [[k, (k if rng.random() < 0.3 else sres())] for k in keys]}
    return cfg


def _init_safe(cfg, v):
    """a schema result UNDEF is kept away from initdef / expired / restored values"""
    ok, w = _spec_accept(cfg, v)
    return not (ok and w == 'u')


def scenarios(rng, tier):
    quick = tier == 'quick'
    # --- the defect-9 shape first: unhashable put / restored value with `allowed`
    yield _in(CONFIGS[9], 'i1', None, [['put', 'l[i1]'], ['put', 'i2']])
    yield _in(PRESENCE[4], 'i2', 'l[i1]', [['put', 'i1']])
    yield _exp(PRESENCE[4], 'i2', 'i1', [['put', 'l[i1]'], ['wait', 4], ['put', 'i1']])
    # --- a saved InputExp state whose value the validators refuse
    yield {**_exp(PRESENCE[4], 'i2', 'i1', [['wait', 4], ['put', 'i1']]), 'saved': ['valid', 5, 'i3']}
    # --- init matrix (Input): configuration x initdef x restored
    for cfg in CONFIGS:
        for initdef in ['u'] + D6:
            for restored in [None] + D6:
                yield _in(cfg, initdef, restored, [['put', 'b1'], ['put', 'i2']])
    # --- constructor matrix (InputExp): configuration x initdef x expired
    for cfg in CONFIGS:
        for initdef in ['u'] + D6:
            for expired in ['n'] + D6:
                yield _exp(cfg, initdef, expired, [['put', 'i1'], ['wait', 11], ['put', 'b1']])
    # --- a raising schema refuses whatever the class of the exception: constructor, restored value, puts
    for x in RAISES:
        for allowed in (None, ['i1', 'i2']):
            cfg = {'allowed': allowed, 'check': None, 'schema': {'d': x, 't': [['i1', 's61'], ['b1', 'b1']]}}
            yield _in(cfg, 'i2', None, [])
            yield _exp(cfg, 'i2', 'i1', [])
            yield _exp(cfg, 'i1', 'i2', [])
            yield _exp(cfg, 'u', 'i2', [])
            for seq in itertools.product(['i1', 'i2', 'b1', 'l[i1]'], repeat=3):
                for restored in (None, 'i2'):
                    yield _in(cfg, 'i1', restored, [['put', v] for v in seq])
            for seq in itertools.product([['put', 'i1'], ['put', 'i2'], ['put', 'b1'], ['wait', 4]], repeat=3):
                yield _exp(cfg, rng.choice(['u', 'i1']), 'i1', [list(o) for o in seq])
    # --- `allowed` is a snapshot: every kind of collection, the caller mutates ITS object afterwards
    for cfg in CONFIGS:
        if cfg['allowed'] is None:
            continue
        a, b, n = cfg['allowed'][0], cfg['allowed'][1], 'i3'
        patterns = [
            ([['clear']], [['put', a], ['put', b], ['put', n]]),
            ([], [['put', a], ['mut', 'clear', None], ['put', b], ['put', a], ['put', n]]),
            ([], [['mut', 'add', n], ['put', n], ['mut', 'remove', a], ['put', a], ['put', b]]),
            ([['add', n], ['remove', b]], [['put', n], ['put', b], ['put', a]]),
            ([], [['put', b], ['mut', 'remove', b], ['put', b], ['mut', 'add', b], ['put', b],
                  ['mut', 'clear', None], ['put', a]]),
        ]
        init = _valid_initdef(cfg, D6)
        for akind in AKINDS:
            for premut, ops in patterns:
                if init is not None:
                    yield {**_in(cfg, init, None, [list(o) for o in ops]), 'akind': akind, 'premut': premut}
                    yield {**_exp(cfg, rng.choice(['u', init]), init, [list(o) for o in ops]),
                           'akind': akind, 'premut': premut}
                yield {**_in(cfg, 'u', a, [list(o) for o in ops]), 'akind': akind, 'premut': premut}
    # --- one scratch set, cleared and refilled, for several blocks
    lists = [['i1', 'i2'], ['s61', 's62'], ['i2', 'i3', 't[i1]']]
    allvals = ['i1', 'i2', 'i3', 's61', 's62', 't[i1]', 'b1']
    for perm in itertools.permutations(range(3)):
        for kinds in itertools.product(['in', 'exp'], repeat=3):
            for check, schema in ((None, None), (CHECK_OPTS[2], None),
                                  (None, {'d': '!C', 't': [[v, v] for v in allvals if v != 'i2'] + [['i2', 'i1']]})):
                blocks = []
                for idx, k in zip(perm, kinds):
                    cfg = {'allowed': lists[idx], 'check': check, 'schema': schema}
                    init = _valid_initdef(cfg, lists[idx])
                    ops = [['put', v] for v in allvals + allvals[::-1]]
                    blocks.append({**(_in(cfg, init, None, ops) if k == 'in' else _exp(cfg, init, init, ops)),
                                   'akind': 'set', 'duration': 30})
                yield {'kind': 'multi', 'blocks': blocks}
    # --- put sequences (Input)
    seqcfgs = []
    for cfg in CONFIGS:
        init = _valid_initdef(cfg, D6)
        if init is not None:
            seqcfgs.append((cfg, init))
    n = 4 if quick else 5
    for cfg, init in seqcfgs:
        for seq in itertools.product(D6, repeat=n):
            yield _in(cfg, init, None, [['put', v] for v in seq])
    if not quick:
        for cfg in PRESENCE:
            init = _valid_initdef(cfg, D5)
            for seq in itertools.product(D5, repeat=6):
                yield _in(cfg, init, None, [['put', v] for v in seq])
    # --- a persistent InputExp is started from a saved state: the saved value passes through the validation
    tail = [['wait', 4], ['put', 'b1'], ['wait', 7], ['put', 'i2'], ['wait', 7], ['wait', 4]]
    for cfg in CONFIGS:
        init = _valid_initdef(cfg, D6 + ['n'])
        if init is None:
            continue
        expired = init if not _spec_accept(cfg, 'n')[0] else 'n'
        saves = [['valid', rel, v] for rel in (5, None, -5) for v in D6]
        saves += [['valid', 6, None], ['expired', None, None], ['expired', None, 'i2'], ['expired', 9, 'i1']]
        for saved in saves:
            for initdef in ('u', init):
                for dur in (10, 'inf'):
                    yield {**_exp(cfg, initdef, expired, [list(o) for o in tail]), 'saved': saved, 'duration': dur}
    # --- InputExp sequences: puts and waits (duration 10)
    alpha = [['put', 'i1'], ['put', 'b1'], ['put', 'i2'], ['put', 'l[i1]'], ['wait', 4], ['wait', 7]]
    for cfgs, n in ((PRESENCE, 4),) if quick else ((CONFIGS, 4), (PRESENCE, 5)):
        for cfg in cfgs:
            init = _valid_initdef(cfg, D6 + ['n'])
            if init is None:
                continue
            expired = init if rng.random() < 0.5 or not _spec_accept(cfg, 'n')[0] else 'n'
            for seq in itertools.product(alpha, repeat=n):
                yield _exp(cfg, rng.choice(['u', init]), expired, [list(o) for o in seq])
    # --- random configurations and sequences
    for _ in range(20000 if quick else 150000):
        cfg = _random_cfg(rng)
        pool = rng.choice([BIG, BIG, D6 + ['n', 'i0', 's61']])
        acc = {v: _spec_accept(cfg, v) for v in pool}
        good = [v for v in pool if acc[v][0] and acc[v][1] != 'u']
        safe = [v for v in pool if not (acc[v][0] and acc[v][1] == 'u')]

        def pick():
            if good and rng.random() < 0.5:
                return rng.choice(good)
            return rng.choice(pool)

        def pick_init(allow_undef):
            r = rng.random()
            if allow_undef and r < 0.15:
                return 'u'
            if good and r < 0.85:
                return rng.choice(good)
            return rng.choice(safe) if safe else 'u'
        extra = {}
        mutating = False
        if cfg['allowed'] is not None:
            hashable = all(a[0] != 'l' for a in cfg['allowed'])
            extra['akind'] = rng.choice(AKINDS if hashable else ['list', 'tuple', 'gen'])
            mutating = rng.random() < 0.4

            def mut():
                r = rng.random()
                if r < 0.25:
                    return ['clear']
                return ['add' if r < 0.65 else 'remove', rng.choice(HASHABLE_BIG)]
            if mutating:
                extra['premut'] = [mut() for _ in range(rng.choice([0, 0, 1, 2]))]

        def with_muts(ops):
            if not mutating:
                return ops
            res = []
            for o in ops:
                if rng.random() < 0.3:
                    res.append(['mut'] + (mut() + [None])[:2])
                res.append(o)
            return res
        if rng.random() < 0.7:
            restored = None
            if rng.random() < 0.4:
                restored = pick_init(False)
                if restored == 'u':
                    restored = None
            ops = [['put', pick()] for _ in range(rng.randint(0, 12))]
            yield {**_in(cfg, pick_init(True), restored, with_muts(ops)), **extra}
        else:
            ops = []
            for _ in range(rng.randint(0, 12)):
                ops.append(['put', pick()] if rng.random() < 0.65 else ['wait', rng.choice([4, 7])])
            expired = pick_init(False)
            if expired == 'u':
                if not _init_safe(cfg, 'n'):
                    continue
                expired = 'n'
            if rng.random() < 0.3:
                inp = rng.choice([None, pick(), pick(), pick()])
                if inp is not None and not _init_safe(cfg, inp):
                    inp = None
                extra['saved'] = [rng.choice(['valid', 'valid', 'valid', 'expired']),
                                  rng.choice([None, 5, 6, 9, -5, 0]), inp]
                extra['duration'] = rng.choice([10, 10, 'inf'])
            yield {**_exp(cfg, pick_init(True), expired, with_muts(ops)), **extra}
    # --- random groups of blocks built from one scratch set
    for _ in range(600 if quick else 6000):
        blocks = []
        check = rng.choice([None, None, CHECK_OPTS[2]])
        for _i in range(rng.randint(2, 4)):
            lst = rng.sample(HASHABLE_BIG, rng.randint(1, 5))
            cfg = {'allowed': lst, 'check': check, 'schema': None}
            init = _valid_initdef(cfg, lst)
            if init is None:
                break
            ops = [['put', rng.choice(HASHABLE_BIG + ['l[i1]'])] for _ in range(rng.randint(1, 8))]
            blocks.append({**(_in(cfg, init, None, ops) if rng.random() < 0.6 else _exp(cfg, init, init, ops)),
                           'akind': 'set', 'duration': 30})
        if len(blocks) >= 2:
            yield {'kind': 'multi', 'blocks': blocks}


def shrink(scn):
    if scn['kind'] == 'multi':
        blocks = scn['blocks']
        if len(blocks) > 1:
            for i in range(len(blocks)):
                yield {**scn, 'blocks': blocks[:i] + blocks[i + 1:]}
        for i, b in enumerate(blocks):
            for cand in shrink(b):
                if cand.get('allowed') is not None:
                    yield {**scn, 'blocks': blocks[:i] + [cand] + blocks[i + 1:]}
        return
    yield from shrink_ops(scn)
    if scn.get('saved') is not None:
        st, rel, inp = scn['saved']
        if rel is not None and rel > 0:
            yield {**scn, 'saved': [st, None, inp]}
        if scn.get('duration') == 'inf':
            yield {**scn, 'duration': 10}
    if scn.get('premut'):
        yield from shrink_ops(scn, 'premut')
    if scn.get('restored') is not None:
        yield {**scn, 'restored': None}
    for key in ('check', 'schema'):
        if scn.get(key) is not None:
            yield {**scn, key: None}
    if scn.get('allowed') is not None:
        yield {**scn, 'allowed': None, 'premut': [], 'akind': 'list',
               'ops': [o for o in scn['ops'] if o[0] != 'mut']}
    for key in ('check', 'schema'):
        spec = scn.get(key)
        if spec and spec['t']:
            for i in range(len(spec['t'])):
                yield {**scn, key: {'d': spec['d'], 't': spec['t'][:i] + spec['t'][i + 1:]}}


# ---------------------------------------------------------------- implementation runner

class SchemaRefusal(Exception):
    """an own exception type like the ones of validation libraries"""


EXC_CLASSES = {'V': ValueError, 'T': TypeError, 'K': KeyError, 'Z': ZeroDivisionError,
               'A': AttributeError, 'C': SchemaRefusal}
RAISES = ['!' + k for k in EXC_CLASSES]
AKINDS = ['list', 'tuple', 'set', 'frozenset', 'dict', 'dictkeys', 'gen']
HASHING_AKINDS = ('set', 'frozenset', 'dict', 'dictkeys')


def _mk_validators(scn, log):
    kw = {}
    if scn['check'] is not None:
        ctab = dict((k, v) for k, v in reversed(scn['check']['t']))
        cdef = scn['check']['d']

        def check(value):
            log.append('c:' + enc(value))
            return dec(ctab.get(enc(value), cdef))
        kw['check'] = check
    if scn['schema'] is not None:
        stab = dict((k, v) for k, v in reversed(scn['schema']['t']))
        sdef = scn['schema']['d']

        def schema(value):
            log.append('s:' + enc(value))
            r = stab.get(enc(value), sdef)
            if r[0] == '!':
                raise EXC_CLASSES[r[1:] or 'K'](f'schema script raises for {value!r}')
            return dec(r)
        kw['schema'] = schema
    return kw


def _calls(log):
    s = ' calls=' + '|'.join(log)
    del log[:]
    return s


class _Collection:
    """the CALLER's collection object handed over as `allowed=` and what the caller does with it later"""

    def __init__(self, encs, akind, shared=None):
        self.akind = akind
        vals = [dec(a) for a in encs]
        if shared is not None:
            self.obj = self.arg = shared          # one scratch set reused for several blocks
        elif akind == 'set':
            self.obj = self.arg = set(vals)
        elif akind in ('dict', 'dictkeys'):
            self.obj = dict.fromkeys(vals, 0)
            self.arg = self.obj if akind == 'dict' else self.obj.keys()
        else:
            self.obj = vals                       # list, or the source of an immutable / one-shot argument
            self.arg = {'list': lambda: vals, 'tuple': lambda: tuple(vals), 'frozenset': lambda: frozenset(vals),
                        'gen': lambda: (x for x in vals)}[akind]()

    def mutate(self, what, v):
        obj = self.obj
        if what == 'clear':
            obj.clear()
            return
        value = dec(v)
        if isinstance(obj, set):
            (obj.add if what == 'add' else obj.discard)(value)
        elif isinstance(obj, dict):
            if what == 'add':
                obj.setdefault(value, 0)
            else:
                obj.pop(value, None)
        elif what == 'add':
            if value not in obj:
                obj.append(value)
        else:
            while value in obj:
                obj.remove(value)


def _mut_line(m):
    return 'validate mutate ' + (m[0] if m[0] == 'clear' else f'{m[0]} {m[1]}')


class _Block:
    """one Input / InputExp of a scenario: protocol lines, canonical trace, raw steps for the oracle"""

    def __init__(self, scn, name='inp', world=None):
        self.scn, self.name, self.world = scn, name, world
        self.kind = scn['kind']
        self.lines, self.trace, self.steps, self.log = [], [], [], []
        self.blk = None
        self.coll = None
        self.dead = False
        cfgstr = (f"{_allowed_str(scn['allowed'])} {_script_str('C', scn['check'])} "
                  f"{_script_str('S', scn['schema'])} {scn['initdef']}")
        if self.kind == 'in':
            self.lines.append(f'validate reset in {cfgstr}')
        else:
            self.lines.append(f"validate reset exp {cfgstr} {scn['expired']} {scn['duration']}")

    def construct(self, circuit, shared=None):
        """never lets an exception of the code under test escape: it is the recorded outcome"""
        scn, log = self.scn, self.log
        kw = _mk_validators(scn, log)
        if scn['allowed'] is not None:
            self.coll = _Collection(scn['allowed'], scn.get('akind', 'list'), shared)
            kw['allowed'] = self.coll.arg
        if scn['initdef'] != 'u':
            kw['initdef'] = dec(scn['initdef'])
        restored = scn.get('restored')
        try:
            if self.kind == 'in':
                if restored is not None:
                    circuit.set_persistent_data({f"<Input '{self.name}'>": dec(restored)})
                blk = edzed.Input(self.name, persistent=restored is not None, **kw)
            else:
                saved = scn.get('saved')
                if saved is not None:
                    # what FSM.get_state() left in the storage: (state, expiration timestamp | None, sdata)
                    st, rel, inp = saved
                    ts = None if rel is None else self.world.now_us() / 1e6 + rel
                    circuit.set_persistent_data(
                        {f"<InputExp '{self.name}'>": (st, ts, {} if inp is None else {'input': dec(inp)})})
                dur = float('inf') if scn['duration'] == 'inf' else scn['duration']
                blk = edzed.InputExp(self.name, duration=dur, expired=dec(scn['expired']),
                                     persistent=saved is not None, **kw)
        except Exception as err:
            self.trace.append('err ' + type(err).__name__ + _calls(log))
            self.steps.append(('ctor', type(err).__name__, None, None))
            self.dead = True
            return None
        self.blk = blk
        if self.kind == 'in':
            self.trace.append('ok' + _calls(log))
            self.steps.append(('ctor', None, None, None))
        else:
            inp = blk.sdata.get('input', UNDEF)
            self.trace.append(f"ok in={enc(blk.sdata['input']) if 'input' in blk.sdata else '-'} "
                              f"exp={enc(blk._expired)}" + _calls(log))
            self.steps.append(('ctor', None, inp, blk._expired))
        for m in scn.get('premut') or []:
            self.mutate(m)
        return blk

    def mutate(self, m, apply=True):
        """the caller changes ITS collection; `apply=False`: somebody else did it to the shared object"""
        if self.dead:
            return
        if apply and self.coll is not None:
            self.coll.mutate(m[0], m[1] if len(m) > 1 else None)
        self.lines.append(_mut_line(m))
        self.trace.append('ok')
        self.steps.append(('mut', m[0], m[1] if len(m) > 1 else None))

    def begin_init(self):
        if not self.dead:
            restored = self.scn.get('restored')
            saved = self.scn.get('saved')
            if saved is not None:
                st, rel, inp = saved
                restored = f"R|{st}|{'-' if rel is None else rel}|{'-' if inp is None else inp}"
            self.lines.append(f"validate init {'-' if restored is None else restored}")

    def init_failed(self, sim):
        if self.dead:
            return
        what = 'NotInitialized' if 'not initialized' in str(sim.final_error) else 'Abort'
        self.trace.append('err ' + what + _calls(self.log))
        self.steps.append(('init', what, None))
        self.dead = True

    def exp_obs(self):
        blk = self.blk
        val = blk.sdata.get('input', UNDEF) if blk.state == 'valid' else UNDEF
        return blk.state, blk.output, val

    def exp_str(self):
        blk = self.blk
        val = enc(blk.sdata['input']) if blk.state == 'valid' and 'input' in blk.sdata else '-'
        return f"st={blk.state} out={enc(blk.output)} val={val}"

    async def drive(self, sim):
        if self.dead:
            return
        blk, kind, log = self.blk, self.kind, self.log
        lines, trace, steps = self.lines, self.trace, self.steps
        if kind == 'in':
            trace.append('ok ' + enc(blk.output) + _calls(log))
            steps.append(('init', 'ok', blk.output))
        else:
            trace.append('ok ' + self.exp_str() + _calls(log))
            steps.append(('init', 'ok', self.exp_obs()))
        t_us = sim.loop.now_us
        for o in self.scn['ops']:
            op, arg = o[0], o[1]
            if sim.aborted():
                break
            if op == 'mut':
                self.mutate(o[1:])
                continue
            if op == 'wait':
                t_us += arg * 1_000_000
                await vtime.advance_to(sim.loop, t_us)
                lines.append(f'validate wait {arg}')
                trace.append(self.exp_str())
                steps.append(('wait', arg, self.exp_obs()))
                continue
            res, val = sim.send(blk, 'put', value=dec(arg))
            lines.append(f'validate put {arg}')
            aborted = sim.aborted()
            calls = list(log)
            if res == 'ret' and not aborted:
                try:
                    head = 'ret ' + enc(val)
                except ValueError:
                    head = 'ret ?' + type(val).__name__
            elif aborted:
                head = 'err Abort'
            else:
                head = 'err ' + type(val).__name__
            if kind == 'in':
                obs = blk.output
                trace.append(f'{head} out={enc(obs)}' + _calls(log))
            else:
                obs = self.exp_obs()
                if aborted:
                    trace.append('err Abort')
                    del log[:]
                else:
                    trace.append(f'{head} {self.exp_str()}' + _calls(log))
            steps.append(('put', arg, (res, val if res == 'ret' else type(val).__name__), obs, aborted, calls))
            if aborted:
                break

    def seal(self, unexpected=None):
        """len(lines) == len(trace) whatever happened"""
        while len(self.trace) < len(self.lines):
            self.trace.append('err Unexpected' + (':' + unexpected if unexpected else ''))
            self.steps.append(('unexpected', unexpected))
        del self.lines[len(self.trace):]


def run_impl(scn):
    if scn.get('saved') is None:
        return _run_impl(scn, None)
    world = vtime.World()           # FSM._restore_state reads the wall clock
    vtime.install(world)
    try:
        return _run_impl(scn, world)
    finally:
        vtime.uninstall()


def _run_impl(scn, world):
    multi = scn['kind'] == 'multi'
    subs = scn['blocks'] if multi else [scn]
    blocks = [_Block(sub, f'inp{i}' if multi else 'inp', world) for i, sub in enumerate(subs)]
    sim = Sim(world=world)

    def build(circuit):
        shared = set() if multi else None
        for i, b in enumerate(blocks):
            if multi:
                # the application clears and refills its one scratch set for every block it creates
                muts = [['clear']] + [['add', a] for a in b.scn['allowed']]
                for m in muts:
                    shared.clear() if m[0] == 'clear' else shared.add(dec(m[1]))
                    for earlier in blocks[:i]:
                        earlier.mutate(m, apply=False)
            b.construct(circuit, shared)
        for b in blocks:
            b.begin_init()
        if all(b.dead for b in blocks):
            raise _CtorFailed()
        return blocks

    async def drive(sim, blocks):
        for b in blocks:
            await b.drive(sim)

    unexpected = None
    try:
        sim.run(build, drive)
    except _CtorFailed:
        pass
    except Exception as err:        # whatever the code under test does is an outcome, not a crash of the check
        unexpected = type(err).__name__
    if sim.init_error is not None:
        for b in blocks:
            b.init_failed(sim)
    for b in blocks:
        b.seal(unexpected)
    first = subs[0]
    pres = ''.join(k[0].upper() + ('1' if first[k] is not None else '0') for k in ('allowed', 'check', 'schema'))
    allsteps = [st for b in blocks for st in b.steps]
    nput = sum(1 for st in allsteps if st[0] == 'put')
    nacc = sum(1 for st in allsteps if st[0] == 'put' and st[2] == ('ret', True))
    nops = sum(len(sub['ops']) for sub in subs)
    tags = [f"kind={scn['kind']}", f'presence={pres}', f'len={min(nops, 7)}' + ('+' if nops > 7 else ''),
            f'ctor={blocks[0].steps[0][1] or "ok"}']
    inits = [st for st in allsteps if st[0] == 'init']
    if inits:
        tags.append(f'init={inits[0][1]}')
    if first.get('restored') is not None:
        tags.append('restored=' + ('accepted' if _accept(first, first['restored'])[0] else 'refused'))
    if nput:
        tags.append('puts=' + ('all-accepted' if nacc == nput else 'all-refused' if nacc == 0 else 'mixed'))
    if any(st[0] == 'put' and st[1][0] == 'l' for st in allsteps):
        tags.append('unhashable-put')
    if any(st[0] == 'mut' for st in allsteps):
        tags.append('caller-mutates-allowed')
    if first.get('saved') is not None:
        st_, rel_, inp_ = first['saved']
        tags.append(f"saved={st_}/{'no-timer' if rel_ is None else 'running' if rel_ > 0 else 'overdue'}/"
                    + ('no-value' if inp_ is None else 'accepted' if _accept(first, inp_)[0] else 'refused'))
    for sub in subs:
        if sub['allowed'] is not None:
            tags.append('akind=' + sub.get('akind', 'list'))
        if sub['schema'] is not None:
            tags.extend(sorted({'schema-raises=' + EXC_CLASSES[r[1:] or 'K'].__name__
                                for r in [sub['schema']['d']] + [x for _, x in sub['schema']['t']] if r[0] == '!'}))
    return {'lines': [ln for b in blocks for ln in b.lines], 'trace': [t for b in blocks for t in b.trace],
            'steps': [b.steps for b in blocks] if multi else blocks[0].steps, 'tags': sorted(set(tags)),
            'nontrivial': pres != 'A0C0S0' and len(allsteps) > 2 * len(blocks),
            'final_error': repr(sim.final_error), 'unexpected': unexpected}


# ---------------------------------------------------------------- oracle (independent of the model)

def _accept(cfg, v, allowed='cfg'):
    """The property text: accepted iff among `allowed` (when given) and check(v) true (when given) and
    schema(v) does not raise -- an exception of whatever class -- (when given); the output becomes
    schema(v) or v itself.
    -> (accepted, converted value (encoded), the calls of user code the documented order permits)"""
    value = dec(v)
    calls = []
    if allowed == 'cfg':
        allowed = cfg['allowed']       # the contents of the collection when the block was created
    if allowed is not None:
        if not any(type(value) is not list and dec(a) == value for a in allowed):
            return False, None, calls
    if cfg['check'] is not None:
        calls.append('c:' + v)
        r = cfg['check']['d']
        for k, x in cfg['check']['t']:
            if k == v:
                r = x
                break
        if not dec(r):
            return False, None, calls
    if cfg['schema'] is not None:
        calls.append('s:' + v)
        r = cfg['schema']['d']
        for k, x in cfg['schema']['t']:
            if k == v:
                r = x
                break
        if r[0] == '!':
            return False, None, calls
        return True, r, calls
    return True, v, calls


def _schema_raises(cfg, v):
    """the class the schema script raises for v (None: it returns), provided the script is reached"""
    if cfg['schema'] is None:
        return None
    r = cfg['schema']['d']
    for k, x in cfg['schema']['t']:
        if k == v:
            r = x
            break
    return EXC_CLASSES[r[1:] or 'K'].__name__ if r[0] == '!' else None


def _same(a, b):
    """Python equality of two observed/expected values (UNDEF equals only itself)"""
    if a is UNDEF or b is UNDEF:
        return a is b
    return a == b


def _obs_key(obs):
    st, output, v = obs
    return (st, enc(output), '-' if v is UNDEF else enc(v))


def oracle(scn, res):
    if scn['kind'] != 'multi':
        out = _oracle_block(scn, res['steps'], res)
        saved = scn.get('saved')
        if out and saved is not None and saved[0] == 'valid' and (saved[2] is None or not _accept(scn, saved[2])[0]):
            # everything that goes wrong after a saved state with a refused value (its timer running on, ...)
            # is the restore that should not have happened
            for v in out:
                if v['clause'] != 'restore_validated':
                    v['what'] = (f"the saved state {saved} has no acceptable value and must not be restored, but "
                                 f"[{v['clause']}] " + v['what'])
                    v['clause'], v['sig'] = 'restore_validated', {'block': 'InputExp'}
        return out
    out = []
    for i, (sub, steps) in enumerate(zip(scn['blocks'], res['steps'])):
        for v in _oracle_block(sub, steps, res):
            v['what'] = f'block #{i} of {len(scn["blocks"])} built from one scratch set: ' + v['what']
            out.append(v)
    if any(v['clause'] == 'allowed_is_snapshot' for v in out):
        # a failed start-up hits every block of the circuit; name the cause only
        out = [v for v in out if v['clause'] == 'allowed_is_snapshot']
    return out


def _oracle_block(scn, steps, res):
    out = []
    kind = scn['kind']
    # the caller's collection object, as the caller sees it now (the block must not care)
    caller = list(scn['allowed']) if scn['allowed'] is not None else None
    mutated = [False]

    def bad(clause, what, **sig):
        out.append({'clause': clause, 'what': what, 'sig': sig})
        return out

    def do_mut(what, v):
        if caller is None:
            return
        mutated[0] = True
        if what == 'clear':
            del caller[:]
        elif what == 'add':
            if not any(dec(a) == dec(v) for a in caller):
                caller.append(v)
        else:
            caller[:] = [a for a in caller if dec(a) != dec(v)]

    def put_clause(v, observed_ret, default='accept_iff'):
        """name the broken clause of a put whose outcome is not the expected one"""
        if mutated[0] and caller is not None and observed_ret is not None \
                and _accept(scn, v, caller)[0] is observed_ret:
            return 'allowed_is_snapshot'
        ok_before_schema = _accept({**scn, 'schema': None}, v)[0]
        if ok_before_schema and _schema_raises(scn, v):
            return 'raising_schema_rejects'
        return default

    def init_clause(default):
        inits = [v for v in (scn.get('restored'), scn['initdef'], scn.get('expired')) if v not in (None, 'u')]
        if mutated[0] and any(_accept(scn, v)[0] != _accept(scn, v, caller)[0] for v in inits):
            return 'allowed_is_snapshot'
        for v in inits:
            if _accept({**scn, 'schema': None}, v)[0] and _schema_raises(scn, v):
                return 'raising_schema_rejects'
        return default

    if any(st[0] == 'unexpected' for st in steps):
        return bad(init_clause('no_unexpected_exception'),
                   f"the run ended with an unexpected {res.get('unexpected')} ({res.get('final_error')})")

    # ---- constructor
    unhashable_allowed = scn['allowed'] is not None and any(a[0] == 'l' for a in scn['allowed'])
    want = None
    if unhashable_allowed:
        want = 'TypeError'
    else:
        if scn['initdef'] != 'u' and not _accept(scn, scn['initdef'])[0]:
            want = 'ValueError'
        elif kind == 'exp' and not _accept(scn, scn['expired'])[0]:
            want = 'ValueError'
    ctor = steps[0]
    if ctor[1] != want:
        if scn['initdef'] != 'u' and not _accept(scn, scn['initdef'])[0]:
            clause = 'bad_initdef_refused'
        elif kind == 'exp' and not _accept(scn, scn['expired'])[0]:
            clause = 'bad_expired_refused'
        else:
            clause = 'constructor'
        return bad('constructor' if unhashable_allowed else init_clause(clause),
                   f"constructor with allowed={scn['allowed']} ({scn.get('akind', 'list')}) "
                   f"initdef={scn['initdef']} expired={scn.get('expired')}: got {ctor[1] or 'no error'}, "
                   f"expected {want or 'no error'}")
    if want is not None:
        return out
    accepted_encs = set()      # every conversion accepted so far (output_always_valid)

    def note(w):
        accepted_encs.add(w)
        return dec(w)

    rest = list(steps[1:])
    while rest and rest[0][0] == 'mut':         # the caller's mutations between constructor and start
        do_mut(*rest.pop(0)[1:])
    if not rest:
        return bad('init', 'the block was constructed but never started')
    init = rest.pop(0)

    def check_put(i, st, expected_state_unchanged):
        """common part of a put: -> (ok, w) or None after reporting"""
        _, v, (rk, rv), obs, aborted, got_calls = st
        ok, w, calls = _accept(scn, v)
        if ok and w == 'u':
            return 'skip'          # a schema producing UNDEF: outside the property
        if aborted or rk != 'ret':
            bad(put_clause(v, None), f'put #{i} of {v}: {rk} {rv}, simulation aborted={aborted}; expected the '
                f'event to return {ok}' + (f' (the schema raises {_schema_raises(scn, v)})'
                                           if _schema_raises(scn, v) else ''),
                unhashable=v[0] == 'l')
            return None
        if rv is not ok:
            bad(put_clause(v, rv), f'put #{i} of {v} returned {rv!r}, expected {ok} (allowed at construction: '
                f"{scn['allowed']}, the caller's collection now: {caller})")
            return None
        if got_calls != calls:
            snap = mutated[0] and _accept(scn, v, caller)[2] == got_calls
            bad('allowed_is_snapshot' if snap else 'schema_last',
                f'put #{i} of {v}: validators called {got_calls}, expected {calls}'
                + (f" (allowed at construction: {scn['allowed']}, the caller's collection now: {caller})"
                   if snap else ''))
            return None
        return ok, w

    if kind == 'in':
        # ---- start-up: a restored value goes through the same validation, then the initdef
        cur = UNDEF
        restored = scn.get('restored')
        if restored is not None:
            ok, w, _ = _accept(scn, restored)
            if ok:
                cur = note(w)
        if cur is UNDEF and scn['initdef'] != 'u':
            cur = note(_accept(scn, scn['initdef'])[1])
        if cur is UNDEF:
            if init[1] != 'NotInitialized':
                return bad(init_clause('restore_validated'),
                           f'no acceptable initial value, yet start-up gave {init[1:]}')
            return out
        if init[1] != 'ok':
            return bad(init_clause('restore_validated' if restored is not None else 'init'),
                       f"start-up with restored={restored} initdef={scn['initdef']} failed: {init[1]} "
                       f"({res.get('final_error')})", unhashable=bool(restored and restored[0] == 'l'))
        if not _same(init[2], cur) or enc(init[2]) not in accepted_encs:
            return bad(init_clause('restore_validated'),
                       f"initial output {init[2]!r}, expected {cur!r} "
                       f"(restored={restored}, initdef={scn['initdef']})")
        prev = init[2]
        for i, st in enumerate(rest):
            if st[0] == 'mut':
                do_mut(*st[1:])
                continue
            r = check_put(i, st, None)
            if r is None:
                return out
            if r == 'skip':
                return out
            ok, w = r
            v, output = st[1], st[3]
            if ok:
                cur = note(w)
                if not _same(output, cur):
                    return bad('output_is_last_accepted', f'put #{i} of {v}: output {output!r}, expected {cur!r}')
            else:
                if enc(output) != enc(prev):
                    return bad('reject_changes_nothing', f'refused put #{i} of {v} changed the output '
                                                         f'{prev!r} -> {output!r}')
            if enc(output) not in accepted_encs:
                return bad('output_always_valid', f'put #{i} of {v}: output {output!r} is not one of the '
                                                  f'accepted values {sorted(accepted_encs)}')
            prev = output
        return out

    # ---- InputExp
    exp_w = _accept(scn, scn['expired'])[1]
    if exp_w == 'u' or (scn['initdef'] != 'u' and _accept(scn, scn['initdef'])[1] == 'u'):
        return out              # a schema producing UNDEF: outside the property
    if enc(ctor[3]) != exp_w:
        return bad('bad_expired_refused', f'expired value kept as {ctor[3]!r}, expected {dec(exp_w)!r}')
    # the output object may be the (validated) expired value when it compares equal to the new value:
    # set_output keeps the stored object -- it is an accepted value as well
    note(exp_w)
    val = UNDEF
    if scn['initdef'] != 'u':
        val = note(_accept(scn, scn['initdef'])[1])
        if ctor[2] is UNDEF or enc(ctor[2]) != enc(val):
            return bad('bad_initdef_refused', f'initial value kept as {ctor[2]!r}, expected {val!r}')
    if init[1] != 'ok':
        if scn.get('saved') is not None:
            return bad('restore_validated', f"InputExp did not start from the saved state {scn['saved']}: {init[1]} "
                                            f"({res.get('final_error')})", block='InputExp')
        return bad(init_clause('init'), f'InputExp did not start: {init[1]} ({res.get("final_error")})')
    inf = float('inf')
    dur = inf if scn['duration'] == 'inf' else scn['duration']
    now = 0
    state = {'valid': val is not UNDEF, 'deadline': dur}      # the regular initialisation
    saved = scn.get('saved')
    if saved is not None:
        # "a restored persistent value passes through the same validation": a saved 'valid' state is taken
        # over (value converted, timer with its remaining time) iff its value is accepted; a refused or
        # missing value, an overdue timer or a broken entry leave the block to its regular initialisation
        s_st, s_rel, s_inp = saved
        if s_rel is not None and s_rel <= 0:
            pass
        elif s_st == 'expired':
            if s_rel is None:
                state = {'valid': False, 'deadline': dur}
        elif s_inp is not None and _accept(scn, s_inp)[0]:
            if _accept(scn, s_inp)[1] == 'u':
                return out
            val = note(_accept(scn, s_inp)[1])
            state = {'valid': True, 'deadline': inf if s_rel is None else s_rel}
    prev = init[2]

    def expect_obs(obs, where, clause=None):
        st, output, v = obs
        if state['valid']:
            if st != 'valid' or not _same(output, val) or not _same(v, val):
                return bad(clause or 'output_is_last_accepted',
                           f'{where}: state {st}, output {output!r}, value {v!r}; expected valid with {val!r}')
            if enc(output) not in accepted_encs or enc(v) != enc(val):
                return bad(clause or 'output_always_valid',
                           f'{where}: {output!r}/{v!r} not among {sorted(accepted_encs)}')
        else:
            if st != 'expired' or not _same(output, dec(exp_w)):
                return bad(clause or 'bad_expired_refused',
                           f'{where}: state {st}, output {output!r}; expected expired with {dec(exp_w)!r}')
        return None

    if saved is not None:
        if expect_obs(prev, f'after start-up from the saved state {saved} (validators: allowed={scn["allowed"]}, '
                            f'check {"given" if scn["check"] else "-"}, schema {"given" if scn["schema"] else "-"})',
                      'restore_validated'):
            out[-1]['sig'] = {'block': 'InputExp'}
            return out
    elif expect_obs(prev, 'after start-up'):
        return out
    for i, st in enumerate(rest):
        if st[0] == 'mut':
            do_mut(*st[1:])
            continue
        if st[0] == 'wait':
            now += st[1]
            if state['valid'] and state['deadline'] <= now:
                state['valid'] = False
            if expect_obs(st[2], f'wait #{i}'):
                return out
            prev = st[2]
            continue
        r = check_put(i, st, None)
        if r is None or r == 'skip':
            return out
        ok, w = r
        v, obs = st[1], st[3]
        if ok:
            val = note(w)
            state['valid'], state['deadline'] = True, now + dur
        elif _obs_key(obs) != _obs_key(prev):
            return bad('reject_changes_nothing', f'refused put #{i} of {v}: {prev!r} -> {obs!r}')
        if expect_obs(obs, f'put #{i} of {v}'):
            return out
        prev = obs
    return out
