"""C17 -- Input / InputExp value validation: correspondence with lean/EdzedModel/Validate.lean + oracle.

Scenario values are strings in the wire encoding of harness/enc.py (JSON would turn a tuple into
a list); `dec` turns them into fresh Python objects.  Validators are scripts: lookup tables keyed
by the exact value (type included), results in the same encoding, `!` = the schema raises.
"""
from fractions import Fraction
import functools
import itertools

import edzed

from ..enc import enc
from ..simrun import Sim
from .. import vtime
from ..runner import shrink_ops

ID = 'C17'
RULE = ("a real Input (optionally persistent) or InputExp in a running circuit on the virtual-time loop; "
        "validators are lookup-table scripts (keyed by the exact value incl. its type) that log their calls. "
        "Enumerated completely: 27 validator configurations (3 choices each for allowed/check/schema incl. "
        "absent, i.e. all 8 presence combinations several times) x all put sequences of length 4 (quick) / 5 "
        "(thorough) over {1, True, 1.0, 2, [1], (1,)}, and for the 8 presence combinations all sequences of "
        "length 6 over 5 of these values (thorough); the whole matrix configuration x initdef x restored "
        "value (Input) and configuration x initdef x expired (InputExp) over that domain plus UNDEF/absent/"
        "None; InputExp sequences of length 4 (quick: 8 configurations; thorough: all 27, and length 5 for "
        "the 8) over 4 puts and waits of 4 s / 7 s with duration 10 s. Random: 20 000 (quick) / 150 000 "
        "configurations (allowed subsets, check/schema tables with falsy/truthy results of many types, "
        "raising schemas, UNDEF results, unhashable members of `allowed`) with sequences up to length 12 "
        "over a 22-value domain. A case is distinct by its (input lines, trace) hash and non-trivial if at "
        "least one validator is present and at least one event was sent")
ASSUMPTIONS = [
    "values are UNDEF, None, bool/int/float numbers, strings and flat tuples/lists of such atoms; no NaN, no "
    "objects with a user-defined __eq__/__hash__",
    "check functions return a value and do not raise; a schema either returns a value or raises an Exception",
    "a schema returning UNDEF (set_output refuses it: the handler fails) is modelled for put events only and "
    "generated rarely; it is not generated for initdef/expired/restored values",
    "InputExp: no stimulus falls on the very instant of the expiration (waits of 4 s and 7 s never add up to "
    "the duration of 10 s); same-instant order is C04's subject",
    "InputExp restores its saved state without validation (DESIGN.md section 6); not exercised here",
]
EXHAUSTIVE = {'quick': False, 'thorough': True}

UNDEF = edzed.UNDEF
KEY = "<Input 'inp'>"


# ---------------------------------------------------------------- value codec

@functools.lru_cache(maxsize=4096)
def _dec_atom(s):      # atoms are immutable, a cache is safe
    if s == 'n':
        return None
    if s == 'b0':
        return False
    if s == 'b1':
        return True
    if s[0] == 'i':
        return int(s[1:])
    if s[0] == 'f':
        return float(Fraction(s[1:]))
    if s[0] == 's':
        return bytes.fromhex(s[1:]).decode('utf-8')
    raise ValueError(s)


def dec(s):
    if s == 'u':
        return UNDEF
    if s[0] in 'tl' and s[1:2] == '[':
        body = s[2:-1]
        items = [_dec_atom(x) for x in body.split(',')] if body else []
        return tuple(items) if s[0] == 't' else items
    return _dec_atom(s)


def _script_str(tag, spec):
    if spec is None:
        return '-'
    return '|'.join([tag, spec['d']] + [f'{k}={v}' for k, v in spec['t']])


def _allowed_str(allowed):
    return '-' if allowed is None else '|'.join(['A'] + list(allowed))


class _CtorFailed(Exception):
    pass


# ---------------------------------------------------------------- generator

D6 = ['i1', 'b1', 'f1/1', 'i2', 'l[i1]', 't[i1]']
D5 = ['i1', 'b1', 'i2', 'l[i1]', 't[i1]']
ALLOWED_OPTS = [None, ['i1', 'i2'], ['b1', 't[i1]']]
CHECK_OPTS = [
    None,
    # accepts exactly int 1 (not True / 1.0), 2, the tuple and the list; truthy results of several types
    {'d': 'b0', 't': [['i1', 'b1'], ['i2', 'i1'], ['t[i1]', 's78'], ['l[i1]', 'l[i0]']]},
    # accepts everything but True, 2 and 1.0, with falsy results of several types
    {'d': 'b1', 't': [['b1', 'b0'], ['i2', 'n'], ['f1/1', 's']]},
]
SCHEMA_OPTS = [
    None,
    # converts into values that other validators would treat differently; raises by default
    {'d': '!', 't': [['i1', 's61'], ['b1', 'i2'], ['i2', 'i1'], ['l[i1]', 't[i1]'], ['t[i1]', 'l[i1]']]},
    # identity on most values, 1.0 -> 1, raises for the list and for 2
    {'d': 'n', 't': [['i1', 'i1'], ['b1', 'b1'], ['f1/1', 'i1'], ['t[i1]', 't[i1]'], ['l[i1]', '!'], ['i2', '!']]},
]
CONFIGS = [{'allowed': a, 'check': c, 'schema': s}
           for a in ALLOWED_OPTS for c in CHECK_OPTS for s in SCHEMA_OPTS]
PRESENCE = [{'allowed': a, 'check': c, 'schema': s}
            for a in (None, ALLOWED_OPTS[1]) for c in (None, CHECK_OPTS[1]) for s in (None, SCHEMA_OPTS[1])]

BIG = ['i0', 'i1', 'i2', 'i3', 'b0', 'b1', 'f0/1', 'f1/1', 'f2/1', 'f1/2', 'n', 's', 's61', 's62',
       't[]', 't[i1]', 't[b1]', 't[i1,i2]', 'l[]', 'l[i1]', 'l[f1/1]', 'l[i1,i2]']
HASHABLE_BIG = [v for v in BIG if v[0] != 'l']
CHECK_RESULTS = ['b0', 'b1', 'i0', 'i1', 'n', 's', 's61', 'l[]', 'l[i0]', 't[]', 't[i0]', 'f0/1', 'f1/2', 'u']


def _spec_accept(cfg, v):
    """(accepted, converted) -- used by the GENERATOR only, to pick a usable initdef"""
    return _accept(cfg, v)[:2]


def _valid_initdef(cfg, pool):
    for v in pool:
        ok, w = _spec_accept(cfg, v)
        if ok and w != 'u':
            return v
    return None


def _in(cfg, initdef, restored, ops):
    return {'kind': 'in', **cfg, 'initdef': initdef, 'restored': restored, 'ops': ops}


def _exp(cfg, initdef, expired, ops):
    return {'kind': 'exp', **cfg, 'initdef': initdef, 'expired': expired, 'duration': 10, 'ops': ops}


def _random_cfg(rng):
    cfg = {'allowed': None, 'check': None, 'schema': None}
    pres = rng.randrange(8)
    if pres & 1:
        k = rng.choice([0, 1, 2, 3, 5, 8])
        pool = BIG if rng.random() < 0.04 else HASHABLE_BIG
        cfg['allowed'] = rng.sample(pool, min(k, len(pool)))
    if pres & 2:
        d = rng.choice(['b0', 'b1', rng.choice(CHECK_RESULTS)])
        keys = rng.sample(BIG, rng.randint(0, 10))
        cfg['check'] = {'d': d, 't': [[k, rng.choice(CHECK_RESULTS)] for k in keys]}
    if pres & 4:
        def sres():
            r = rng.random()
            if r < 0.25:
                return '!'
            if r < 0.27:
                return 'u'
            return rng.choice(BIG)
        keys = rng.sample(BIG, rng.randint(0, 12))
        cfg['schema'] = {'d': sres(), 't': [[k, (k if rng.random() < 0.3 else sres())] for k in keys]}
    return cfg


def _init_safe(cfg, v):
    """a schema result UNDEF is kept away from initdef / expired / restored values"""
    ok, w = _spec_accept(cfg, v)
    return not (ok and w == 'u')


def scenarios(rng, tier):
    quick = tier == 'quick'
    # --- the defect-9 shape first: unhashable put / restored value with `allowed`
    yield _in(CONFIGS[9], 'i1', None, [['put', 'l[i1]'], ['put', 'i2']])
    yield _in(PRESENCE[4], 'i2', 'l[i1]', [['put', 'i1']])
    yield _exp(PRESENCE[4], 'i2', 'i1', [['put', 'l[i1]'], ['wait', 4], ['put', 'i1']])
    # --- init matrix (Input): configuration x initdef x restored
    for cfg in CONFIGS:
        for initdef in ['u'] + D6:
            for restored in [None] + D6:
                yield _in(cfg, initdef, restored, [['put', 'b1'], ['put', 'i2']])
    # --- constructor matrix (InputExp): configuration x initdef x expired
    for cfg in CONFIGS:
        for initdef in ['u'] + D6:
            for expired in ['n'] + D6:
                yield _exp(cfg, initdef, expired, [['put', 'i1'], ['wait', 11], ['put', 'b1']])
    # --- put sequences (Input)
    seqcfgs = []
    for cfg in CONFIGS:
        init = _valid_initdef(cfg, D6)
        if init is not None:
            seqcfgs.append((cfg, init))
    n = 4 if quick else 5
    for cfg, init in seqcfgs:
        for seq in itertools.product(D6, repeat=n):
            yield _in(cfg, init, None, [['put', v] for v in seq])
    if not quick:
        for cfg in PRESENCE:
            init = _valid_initdef(cfg, D5)
            for seq in itertools.product(D5, repeat=6):
                yield _in(cfg, init, None, [['put', v] for v in seq])
    # --- InputExp sequences: puts and waits (duration 10)
    alpha = [['put', 'i1'], ['put', 'b1'], ['put', 'i2'], ['put', 'l[i1]'], ['wait', 4], ['wait', 7]]
    for cfgs, n in ((PRESENCE, 4),) if quick else ((CONFIGS, 4), (PRESENCE, 5)):
        for cfg in cfgs:
            init = _valid_initdef(cfg, D6 + ['n'])
            if init is None:
                continue
            expired = init if rng.random() < 0.5 or not _spec_accept(cfg, 'n')[0] else 'n'
            for seq in itertools.product(alpha, repeat=n):
                yield _exp(cfg, rng.choice(['u', init]), expired, [list(o) for o in seq])
    # --- random configurations and sequences
    for _ in range(20000 if quick else 150000):
        cfg = _random_cfg(rng)
        pool = rng.choice([BIG, BIG, D6 + ['n', 'i0', 's61']])
        acc = {v: _spec_accept(cfg, v) for v in pool}
        good = [v for v in pool if acc[v][0] and acc[v][1] != 'u']
        safe = [v for v in pool if not (acc[v][0] and acc[v][1] == 'u')]

        def pick():
            if good and rng.random() < 0.5:
                return rng.choice(good)
            return rng.choice(pool)

        def pick_init(allow_undef):
            r = rng.random()
            if allow_undef and r < 0.15:
                return 'u'
            if good and r < 0.85:
                return rng.choice(good)
            return rng.choice(safe) if safe else 'u'
        if rng.random() < 0.7:
            restored = None
            if rng.random() < 0.4:
                restored = pick_init(False)
                if restored == 'u':
                    restored = None
            ops = [['put', pick()] for _ in range(rng.randint(0, 12))]
            yield _in(cfg, pick_init(True), restored, ops)
        else:
            ops = []
            for _ in range(rng.randint(0, 12)):
                ops.append(['put', pick()] if rng.random() < 0.65 else ['wait', rng.choice([4, 7])])
            expired = pick_init(False)
            if expired == 'u':
                if not _init_safe(cfg, 'n'):
                    continue
                expired = 'n'
            yield _exp(cfg, pick_init(True), expired, ops)


def shrink(scn):
    yield from shrink_ops(scn)
    if scn.get('restored') is not None:
        yield {**scn, 'restored': None}
    for key in ('check', 'schema', 'allowed'):
        if scn.get(key) is not None:
            yield {**scn, key: None}
    for key in ('check', 'schema'):
        spec = scn.get(key)
        if spec and spec['t']:
            for i in range(len(spec['t'])):
                yield {**scn, key: {'d': spec['d'], 't': spec['t'][:i] + spec['t'][i + 1:]}}


# ---------------------------------------------------------------- implementation runner

def _mk_validators(scn, log):
    kw = {}
    if scn['allowed'] is not None:
        kw['allowed'] = [dec(a) for a in scn['allowed']]
    if scn['check'] is not None:
        ctab = dict((k, v) for k, v in reversed(scn['check']['t']))
        cdef = scn['check']['d']

        def check(value):
            log.append('c:' + enc(value))
            return dec(ctab.get(enc(value), cdef))
        kw['check'] = check
    if scn['schema'] is not None:
        stab = dict((k, v) for k, v in reversed(scn['schema']['t']))
        sdef = scn['schema']['d']

        def schema(value):
            log.append('s:' + enc(value))
            r = stab.get(enc(value), sdef)
            if r == '!':
                raise KeyError(f'schema script raises for {value!r}')
            return dec(r)
        kw['schema'] = schema
    return kw


def _calls(log):
    s = ' calls=' + '|'.join(log)
    del log[:]
    return s


def run_impl(scn):
    lines, trace, steps, log = [], [], [], []
    kind = scn['kind']
    cfgstr = (f"{_allowed_str(scn['allowed'])} {_script_str('C', scn['check'])} "
              f"{_script_str('S', scn['schema'])} {scn['initdef']}")
    if kind == 'in':
        lines.append(f'validate reset in {cfgstr}')
    else:
        lines.append(f"validate reset exp {cfgstr} {scn['expired']} {scn['duration']}")
    restored = scn.get('restored')
    sim = Sim()
    ctor = {}

    def build(circuit):
        kw = _mk_validators(scn, log)
        if scn['initdef'] != 'u':
            kw['initdef'] = dec(scn['initdef'])
        try:
            if kind == 'in':
                if restored is not None:
                    circuit.set_persistent_data({KEY: dec(restored)})
                blk = edzed.Input('inp', persistent=restored is not None, **kw)
            else:
                blk = edzed.InputExp('inp', duration=scn['duration'], expired=dec(scn['expired']), **kw)
        except (ValueError, TypeError) as err:
            ctor['err'] = type(err).__name__
            raise _CtorFailed() from None
        if kind == 'in':
            trace.append('ok' + _calls(log))
            steps.append(('ctor', None, None, None))
        else:
            inp = blk.sdata.get('input', UNDEF)
            trace.append(f"ok in={enc(blk.sdata['input']) if 'input' in blk.sdata else '-'} "
                         f"exp={enc(blk._expired)}" + _calls(log))
            steps.append(('ctor', None, inp, blk._expired))
        lines.append(f"validate init {'-' if restored is None else restored}")
        return blk

    def exp_obs(blk):
        val = blk.sdata.get('input', UNDEF) if blk.state == 'valid' else UNDEF
        return blk.state, blk.output, val

    def exp_str(blk):
        val = enc(blk.sdata['input']) if blk.state == 'valid' and 'input' in blk.sdata else '-'
        return f"st={blk.state} out={enc(blk.output)} val={val}"

    async def drive(sim, blk):
        if kind == 'in':
            trace.append('ok ' + enc(blk.output) + _calls(log))
            steps.append(('init', 'ok', blk.output))
        else:
            obs = exp_obs(blk)
            trace.append('ok ' + exp_str(blk))
            steps.append(('init', 'ok', obs))
            del log[:]
        t_us = sim.loop.now_us
        for op, arg in scn['ops']:
            if op == 'wait':
                t_us += arg * 1_000_000
                await vtime.advance_to(sim.loop, t_us)
                lines.append(f'validate wait {arg}')
                obs = exp_obs(blk)
                trace.append(exp_str(blk))
                steps.append(('wait', arg, obs))
                continue
            res, val = sim.send(blk, 'put', value=dec(arg))
            lines.append(f'validate put {arg}')
            aborted = sim.aborted()
            if res == 'ret' and not aborted:
                head = 'ret ' + enc(val)
            elif aborted:
                head = 'err Abort'
            else:
                head = 'err ' + type(val).__name__
            if kind == 'in':
                obs = blk.output
                trace.append(f'{head} out={enc(obs)}' + _calls(log))
            else:
                obs = exp_obs(blk)
                if aborted:
                    trace.append('err Abort')
                    del log[:]
                else:
                    trace.append(f'{head} {exp_str(blk)}' + _calls(log))
            steps.append(('put', arg, (res, val if res == 'ret' else type(val).__name__), obs, aborted))
            if aborted:
                break

    try:
        sim.run(build, drive)
    except _CtorFailed:
        trace.append('err ' + ctor['err'] + _calls(log))
        steps.append(('ctor', ctor['err'], None, None))
    if sim.init_error is not None:
        what = 'NotInitialized' if 'not initialized' in str(sim.final_error) else 'Abort'
        trace.append('err ' + what + (_calls(log) if kind == 'in' else ''))
        steps.append(('init', what, None))
    pres = ''.join(k[0].upper() + ('1' if scn[k] is not None else '0') for k in ('allowed', 'check', 'schema'))
    nput = sum(1 for s in steps if s[0] == 'put')
    nacc = sum(1 for s in steps if s[0] == 'put' and s[2] == ('ret', True))
    tags = [f'kind={kind}', f'presence={pres}', f'len={min(len(scn["ops"]), 7)}' + ('+' if len(scn['ops']) > 7 else ''),
            f'ctor={steps[0][1] or "ok"}']
    if len(steps) > 1:
        tags.append(f'init={steps[1][1]}')
    if restored is not None:
        tags.append('restored=' + ('accepted' if _accept(scn, restored)[0] else 'refused'))
    if nput:
        tags.append('puts=' + ('all-accepted' if nacc == nput else 'all-refused' if nacc == 0 else 'mixed'))
    if any(s[0] == 'put' and s[1][0] == 'l' for s in steps):
        tags.append('unhashable-put')
    return {'lines': lines, 'trace': trace, 'steps': steps, 'tags': tags,
            'nontrivial': pres != 'A0C0S0' and len(steps) > 2,
            'final_error': repr(sim.final_error)}


# ---------------------------------------------------------------- oracle (independent of the model)

def _accept(cfg, v):
    """The property text: accepted iff among `allowed` (when given) and check(v) true (when given) and
    schema(v) does not raise (when given); the output becomes schema(v) or v itself.
    -> (accepted, converted value (encoded), the calls of user code the documented order permits)"""
    value = dec(v)
    calls = []
    if cfg['allowed'] is not None:
        if not any(type(value) is not list and dec(a) == value for a in cfg['allowed']):
            return False, None, calls
    if cfg['check'] is not None:
        calls.append('c:' + v)
        r = cfg['check']['d']
        for k, x in cfg['check']['t']:
            if k == v:
                r = x
                break
        if not dec(r):
            return False, None, calls
    if cfg['schema'] is not None:
        calls.append('s:' + v)
        r = cfg['schema']['d']
        for k, x in cfg['schema']['t']:
            if k == v:
                r = x
                break
        if r == '!':
            return False, None, calls
        return True, r, calls
    return True, v, calls


def _same(a, b):
    """Python equality of two observed/expected values (UNDEF equals only itself)"""
    if a is UNDEF or b is UNDEF:
        return a is b
    return a == b


def _obs_key(obs):
    st, output, v = obs
    return (st, enc(output), '-' if v is UNDEF else enc(v))


def oracle(scn, res):
    out = []
    steps = res['steps']
    trace = res['trace']
    kind = scn['kind']

    def bad(clause, what, **sig):
        out.append({'clause': clause, 'what': what, 'sig': sig})
        return out

    def trace_calls(i):
        t = trace[i]
        return [c for c in t.split(' calls=')[1].split('|') if c] if ' calls=' in t else None

    # ---- constructor
    unhashable_allowed = scn['allowed'] is not None and any(a[0] == 'l' for a in scn['allowed'])
    want = None
    if unhashable_allowed:
        want = 'TypeError'
    else:
        if scn['initdef'] != 'u' and not _accept(scn, scn['initdef'])[0]:
            want = 'ValueError'
        elif kind == 'exp' and not _accept(scn, scn['expired'])[0]:
            want = 'ValueError'
    ctor = steps[0]
    if ctor[1] != want:
        if scn['initdef'] != 'u' and not _accept(scn, scn['initdef'])[0]:
            clause = 'bad_initdef_refused'
        elif kind == 'exp' and not _accept(scn, scn['expired'])[0]:
            clause = 'bad_expired_refused'
        else:
            clause = 'constructor'
        return bad(clause, f"constructor with allowed={scn['allowed']} initdef={scn['initdef']} "
                           f"expired={scn.get('expired')}: got {ctor[1] or 'no error'}, expected {want or 'no error'}")
    if want is not None:
        return out
    accepted_encs = set()      # every conversion accepted so far (output_always_valid)

    def note(w):
        accepted_encs.add(w)
        return dec(w)

    if kind == 'in':
        # ---- start-up: a restored value goes through the same validation, then the initdef
        cur = UNDEF
        restored = scn.get('restored')
        if restored is not None:
            ok, w, _ = _accept(scn, restored)
            if ok:
                cur = note(w)
        if cur is UNDEF and scn['initdef'] != 'u':
            cur = note(_accept(scn, scn['initdef'])[1])
        init = steps[1]
        if cur is UNDEF:
            if init[1] != 'NotInitialized':
                return bad('restore_validated', f'no acceptable initial value, yet start-up gave {init[1:]}')
            return out
        if init[1] != 'ok':
            return bad('restore_validated' if restored is not None else 'init',
                       f"start-up with restored={restored} initdef={scn['initdef']} failed: {init[1]} "
                       f"({res.get('final_error')})", unhashable=bool(restored and restored[0] == 'l'))
        if not _same(init[2], cur) or enc(init[2]) not in accepted_encs:
            return bad('restore_validated', f"initial output {init[2]!r}, expected {cur!r} "
                                            f"(restored={restored}, initdef={scn['initdef']})")
        prev = init[2]
        for i, st in enumerate(steps[2:]):
            _, v, (rk, rv), output, aborted = st
            ok, w, calls = _accept(scn, v)
            if ok and w == 'u':
                return out          # a schema producing UNDEF: outside the property
            if aborted or rk != 'ret':
                return bad('accept_iff', f'put #{i} of {v}: {rk} {rv}, simulation aborted={aborted}; '
                                         f'expected the event to return {ok}', unhashable=v[0] == 'l')
            if rv is not ok:
                return bad('accept_iff', f'put #{i} of {v} returned {rv!r}, expected {ok}')
            got_calls = trace_calls(2 + i)
            if got_calls != calls:
                return bad('schema_last', f'put #{i} of {v}: validators called {got_calls}, expected {calls}')
            if ok:
                cur = note(w)
                if not _same(output, cur):
                    return bad('output_is_last_accepted', f'put #{i} of {v}: output {output!r}, expected {cur!r}')
            else:
                if enc(output) != enc(prev):
                    return bad('reject_changes_nothing', f'refused put #{i} of {v} changed the output '
                                                         f'{prev!r} -> {output!r}')
            if enc(output) not in accepted_encs:
                return bad('output_always_valid', f'put #{i} of {v}: output {output!r} is not one of the '
                                                  f'accepted values {sorted(accepted_encs)}')
            prev = output
        return out

    # ---- InputExp
    exp_w = _accept(scn, scn['expired'])[1]
    if exp_w == 'u' or (scn['initdef'] != 'u' and _accept(scn, scn['initdef'])[1] == 'u'):
        return out              # a schema producing UNDEF: outside the property
    if enc(ctor[3]) != exp_w:
        return bad('bad_expired_refused', f'expired value kept as {ctor[3]!r}, expected {dec(exp_w)!r}')
    # the output object may be the (validated) expired value when it compares equal to the new value:
    # set_output keeps the stored object -- it is an accepted value as well
    note(exp_w)
    val = UNDEF
    if scn['initdef'] != 'u':
        val = note(_accept(scn, scn['initdef'])[1])
        if ctor[2] is UNDEF or enc(ctor[2]) != enc(val):
            return bad('bad_initdef_refused', f'initial value kept as {ctor[2]!r}, expected {val!r}')
    init = steps[1]
    if init[1] != 'ok':
        return bad('init', f'InputExp did not start: {init[1]}')
    now, deadline = 0, (scn['duration'] if val is not UNDEF else None)
    prev = init[2]

    def expect_obs(obs, where):
        st, output, v = obs
        if val is not UNDEF and deadline is not None:
            if st != 'valid' or not _same(output, val) or not _same(v, val):
                return bad('output_is_last_accepted', f'{where}: state {st}, output {output!r}, value {v!r}; '
                                                      f'expected valid with {val!r}')
            if enc(output) not in accepted_encs or enc(v) != enc(val):
                return bad('output_always_valid', f'{where}: {output!r}/{v!r} not among {sorted(accepted_encs)}')
        else:
            if st != 'expired' or not _same(output, dec(exp_w)):
                return bad('bad_expired_refused', f'{where}: state {st}, output {output!r}; expected expired '
                                                  f'with {dec(exp_w)!r}')
        return None

    if expect_obs(prev, 'after start-up'):
        return out
    for i, st in enumerate(steps[2:]):
        if st[0] == 'wait':
            now += st[1]
            if deadline is not None and deadline <= now:
                deadline = None
            if expect_obs(st[2], f'wait #{i}'):
                return out
            prev = st[2]
            continue
        _, v, (rk, rv), obs, aborted = st
        ok, w, calls = _accept(scn, v)
        if ok and w == 'u':
            return out
        if aborted or rk != 'ret':
            return bad('accept_iff', f'put #{i} of {v}: {rk} {rv}, simulation aborted={aborted}; '
                                     f'expected the event to return {ok}', unhashable=v[0] == 'l')
        if rv is not ok:
            return bad('accept_iff', f'put #{i} of {v} returned {rv!r}, expected {ok}')
        got_calls = trace_calls(2 + i)
        if got_calls != calls:
            return bad('schema_last', f'put #{i} of {v}: validators called {got_calls}, expected {calls}')
        if ok:
            val = note(w)
            deadline = now + scn['duration']
        elif _obs_key(obs) != _obs_key(prev):
            return bad('reject_changes_nothing', f'refused put #{i} of {v}: {prev!r} -> {obs!r}')
        if expect_obs(obs, f'put #{i} of {v}'):
            return out
        prev = obs
    return out
