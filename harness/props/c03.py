"""C03 -- an FSM follows its transition table and runs its actions in the documented order.

Correspondence with lean/EdzedModel/Fsm.lean (buildTables, ctxEvent) + an independent reference
interpreter of the documented rules (docs/FSM.rst) as the oracle.
"""
import gc
import itertools
import sys

import edzed

from ..enc import enc, enc_data, err_kind
from ..simrun import Sim

ID = 'C03'
RULE = ("dynamically created FSM classes run in a real circuit (simulator task on the virtual-time loop), one "
        "fresh class, circuit and block per event sequence (a scenario is one definition with 1..243 sequences). Tables: EVERY table over <=2 states x <=2 events and 3 states x 1 event "
        "(each cell: no rule / None target / each state, for the any-state rule and for every state) -- bare with "
        "all sequences of length 3 and fully instrumented (cond/enter/exit as method AND instance callback on every "
        "event/state, conditions reading the per-event data item 'ok') with ALL sequences of length 5 over "
        "{events, unknown event} (thorough; quick: a seed-dependent 3% sample of the tables); thorough adds every "
        "table over 3 states x 2 events (390625) with one Goto-driven sequence visiting every (state, event) "
        "cell; random machines (1..6 states, 1..4 events, list and 'a | b' from-state notation, duplicates and "
        "unknown states in the tables, timed states with zero/other duration, calc_output maps with equal and "
        "UNDEF values, conditions returning falsy/truthy non-bools, entry actions sending 0/1/2 events or Goto "
        "(chains, event multiplication, endless chains up to the chain limit, unknown events, bad Goto states), "
        "initdef any state) with sequences <= 5 of events, external Goto and unknown events carrying per-event "
        "data. Compared after the initialisation and after every event: return value / exception kind, state, "
        "output, _fsm_event_active, _next_event, and the ordered log of every cond/enter/exit callback (with the "
        "event data it read through fsm_event_data), every self.event() call of an entry action with its result, "
        "every state assignment, timer start/stop call and every on_exit/on_enter/on_notrans/on_output event "
        "received by a probe block. distinct = hash of (lines, trace); non-trivial = at least one accepted "
        "transition after the initialisation")
ASSUMPTIONS = [
    "user callbacks are scripts: a condition returns a constant or an item of the event data, an entry action "
    "sends a fixed list of events to its own FSM, exit actions and conditions send nothing (the docs forbid it)",
    "timers appear as start/stop calls only (no time passes during a run); durations are checked by C04",
    "event data values are atoms (None, bools, small ints, short strings); no 'duration' item",
    "after an exception other than a top-level unknown event the run ends (the simulation is aborted); the "
    "oracle makes no claim about events following an EdzedUnknownEvent raised inside an entry action",
]
EXHAUSTIVE = {'quick': False, 'thorough': True}

UNDEF_MARK = '<UNDEF>'
SN = ['A', 'B', 'C', 'D', 'E', 'F']
EN = ['e0', 'e1', 'e2', 'e3']
UNKNOWN = 'zz'


# ------------------------------------------------------------------ protocol encoding

def _val(v):
    return 'u' if v == UNDEF_MARK else enc(v)


def _dash(items, sep):
    items = list(items)
    return sep.join(items) if items else '-'


def _send(s):
    return f'{s[0]}@{enc_data(s[1])}'


def _cond(c):
    return ('c' + enc(c[1])) if c[0] == 'c' else ('k' + c[1])


def reset_line(scn):
    rules = []
    for ev, froms, to in scn['rules']:
        fr = '*' if froms is None else ('+'.join(froms) if froms else '~')
        rules.append(f"{ev}:{fr}:{'-' if to is None else to}")
    timers = [f"{st}:{ev}:{'z' if kind == 'z' else 'p'}" for st, ev, kind in scn.get('timers', [])]
    parts = [
        _dash(scn['states'], ','), _dash(rules, ','), _dash(timers, ','),
        _dash((f'{e}~{_cond(c)}' for e, c in sorted(scn.get('condF', {}).items())), '|'),
        _dash((f'{e}~{_cond(c)}' for e, c in sorted(scn.get('condM', {}).items())), '|'),
        _dash((f"{s}~{'&'.join(_send(x) for x in v)}" for s, v in sorted(scn.get('enterF', {}).items())), '|'),
        _dash((f"{s}~{'&'.join(_send(x) for x in v)}" for s, v in sorted(scn.get('enterM', {}).items())), '|'),
        _dash(scn.get('exitF', []), ','), _dash(scn.get('exitM', []), ','),
        _dash((f'{s}~{_val(v)}' for s, v in sorted(scn.get('outmap', {}).items())), '|'),
        scn['initdef'],
    ]
    return 'fsm reset ' + ' '.join(parts)


def op_line(op):
    et, data = op
    if et.startswith('>'):
        return f'fsm goto {et[1:]} {enc_data(data)}'
    return f'fsm ev {et} {enc_data(dict(data, source="_ext_"))}'


# ------------------------------------------------------------------ implementation side

class _Instr:
    """mixin placed before edzed.FSM: records state assignments and timer start/stop calls"""
    _c03_log = None

    @property
    def _state(self):
        return self.__dict__['_c03_state']

    @_state.setter
    def _state(self, value):
        self.__dict__['_c03_state'] = value
        if value is not edzed.UNDEF and self._c03_log is not None:
            self._c03_log.append(f'state:{value}')

    def _start_timer(self, duration, timed_event):
        self._c03_log.append(f'starttimer:{self._state}')
        return super()._start_timer(duration, timed_event)

    def _stop_timer(self):
        if not self._c03_stopping:
            self._c03_log.append('stoptimer')
        return super()._stop_timer()

    def stop(self):
        self._c03_stopping = True
        return super().stop()

    def init_from_value(self, value):
        try:
            return super().init_from_value(value)
        except BaseException as err:
            self._c03_init_exc = err
            raise


class _Probe(edzed.SBlock):
    def __init__(self, *args, log, **kwargs):
        self._log = log
        super().__init__(*args, **kwargs)

    def init_regular(self):
        self.set_output(None)

    def _event(self, etype, data):
        if etype in ('enter', 'exit'):
            ok = data.get('trigger') == etype and data.get('sdata') == {}
            self._log.append(f"on_{etype}:{data['state']}:{enc(data['value'])}" + ('' if ok else ':BAD'))
        elif etype == 'notrans':
            ok = data.get('trigger') == 'notrans'
            self._log.append(f"notrans:{data['event']}:{data['state']}" + ('' if ok else ':BAD'))
        elif etype == 'output':
            self._log.append(f"output:{enc(data['previous'])}:{enc(data['value'])}")
        else:
            self._log.append(f'probe?{etype}')


def _etype(s):
    return edzed.Goto(s[1:]) if s.startswith('>') else s


def _retval(c, data):
    return c[1] if c[0] == 'c' else data.get(c[1])


def build_class(scn, log, holder):
    """the FSM subclass described by the scenario; raises what the class creation raises"""
    ns = {'STATES': list(scn['states'])}
    events = []
    for i, (ev, froms, to) in enumerate(scn['rules']):
        if froms is not None and scn.get('union') and (i + len(froms)) % 2 == 0 and froms:
            froms = ' | '.join(froms) if i % 3 else '|'.join(froms)
        events.append((ev, froms, to))
    ns['EVENTS'] = events
    if scn.get('timers'):
        ns['TIMERS'] = {
            st: ({'z': 0.0, 'inf': edzed.INF_TIME, 'pos': 1000.0}[kind], _etype(ev))
            for st, ev, kind in scn['timers']}

    def mk_cond(w, ev, c):
        def cond(*_self):
            data = dict(edzed.fsm_event_data.get())
            log.append(f'cond:{w}:{ev}:{enc_data(data)}')
            return _retval(c, data)
        return cond

    def mk_enter(w, st, sends):
        def enter(*_self):
            data = dict(edzed.fsm_event_data.get())
            log.append(f'enter:{w}:{st}:{enc_data(data)}')
            for et, sdata in sends:
                log.append(f'send:{et}:{enc_data(sdata)}')
                ret = holder['fsm'].event(_etype(et), **sdata)
                log.append(f'ret:{1 if ret is True else 0 if ret is False else ret!r}')
        return enter

    def mk_exit(w, st):
        def exit_(*_self):
            data = dict(edzed.fsm_event_data.get())
            log.append(f'exit:{w}:{st}:{enc_data(data)}')
        return exit_

    for ev, c in scn.get('condM', {}).items():
        ns['cond_' + ev] = mk_cond('m', ev, c)
    for st, sends in scn.get('enterM', {}).items():
        ns['enter_' + st] = mk_enter('m', st, sends)
    for st in scn.get('exitM', []):
        ns['exit_' + st] = mk_exit('m', st)
    outmap = scn.get('outmap') or {}
    if outmap:
        def calc_output(self):
            v = outmap.get(self._state, self._state)
            return edzed.UNDEF if v == UNDEF_MARK else v
        ns['calc_output'] = calc_output
    cls = type('F', (_Instr, edzed.FSM), ns)
    kwargs = {}
    for ev, c in scn.get('condF', {}).items():
        kwargs['cond_' + ev] = mk_cond('f', ev, c)
    for st, sends in scn.get('enterF', {}).items():
        kwargs['enter_' + st] = mk_enter('f', st, sends)
    for st in scn.get('exitF', []):
        kwargs['exit_' + st] = mk_exit('f', st)
    return cls, kwargs


def _snapshot(f):
    st = f._state
    return (f"st={'u' if st is edzed.UNDEF else st} out={enc(f.output)} "
            f"a={1 if f._fsm_event_active else 0} n={0 if f._next_event is None else 1}")


def _kind(exc):
    if isinstance(exc, TypeError):
        return 'TypeError'
    return err_kind(exc)


def scn_runs(scn):
    """the event sequences of a scenario; each one gets a fresh class, circuit and block"""
    return scn['runs'] if 'runs' in scn else [scn.get('ops') or []]


def run_one(scn, ops, lines, trace, tags):
    """one event sequence on a fresh circuit; returns the list of steps, or None if the class was refused"""
    lines.append(reset_line(scn))
    steps, log, holder = [], [], {}
    try:
        cls, kwargs = build_class(scn, log, holder)
    except ValueError:
        trace.append('err ValueError')
        return None
    sim = Sim()

    def build(circuit):
        probe = _Probe('probe', log=log)
        for st in cls._ct_states:
            kwargs['on_enter_' + st] = edzed.Event(probe, 'enter')
            kwargs['on_exit_' + st] = edzed.Event(probe, 'exit')
        f = cls('f', on_notrans=edzed.Event(probe, 'notrans'), on_output=edzed.Event(probe, 'output'),
                initdef=scn['initdef'], **kwargs)
        f._c03_log = log
        f._c03_stopping = False
        f._c03_init_exc = None
        holder['fsm'] = f
        return f

    def record(op, kind, val):
        f = holder['fsm']
        if kind == 'ret':
            head = 'ret ' + enc(val) if isinstance(val, bool) else f'ret ?{val!r}'
        else:
            head = 'err ' + _kind(val)
        trace.append(f'{head} {_snapshot(f)} log=' + '|'.join(log))
        st = f._state
        steps.append({'op': op, 'res': head, 'state': None if st is edzed.UNDEF else st,
                      'output': UNDEF_MARK if f.output is edzed.UNDEF else f.output,
                      'active': bool(f._fsm_event_active), 'next': f._next_event is not None,
                      'log': list(log)})
        del log[:]

    async def drive(sim, f):
        record(None, 'ret', True)
        for op in ops:
            lines.append(op_line(op))
            et, data = op
            if et.startswith('>'):
                try:
                    kind, val = 'ret', f.event(edzed.Goto(et[1:]), **data)
                except Exception as err:
                    kind, val = 'err', err
            else:
                kind, val = sim.send(f, et, **data)
            record(op, kind, val)
            if sim.aborted():
                break

    try:
        sim.run(build, drive)
    except (TypeError, ValueError) as err:
        if 'fsm' in holder:
            raise
        # the class was built, but the block constructor refused its arguments (e.g. a cond_EVENT keyword for
        # an event of the table): an outcome of the implementation, not of the harness
        trace.append(f'err ctor-{type(err).__name__}')
        return 'ctor-error: ' + str(err)[:200]
    if sim.init_error is not None:
        f = holder['fsm']
        if f._c03_init_exc is not None:
            record(None, 'err', f._c03_init_exc)
        else:
            # the initial transition itself went through, the simulator refused the result
            record(None, 'ret', True)
            steps[-1]['sim_init_error'] = _kind(sim.init_error)
    for s in steps:
        tags.append(_TAG.setdefault(s['res'], 'ev:' + s['res']))
        ents = s['log']
        if sum(1 for x in ents if x.startswith('state:')) > 1:
            tags.append('ev:chained')
        if any(x.startswith('notrans:') for x in ents):
            tags.append('ev:notrans')
        if s['res'] == 'ret b0' and any(x.startswith('cond:') for x in ents):
            tags.append('ev:cond-rejected')
    return steps


_TAG = {}


def run_impl(scn):
    lines, trace, runs = [], [], []
    tags = [sys.intern(f"states={len(scn['states'])}"), sys.intern(f"fam={scn.get('fam', '?')}")]
    for ops in scn_runs(scn):
        steps = run_one(scn, ops, lines, trace, tags)
        tags.append('runs')
        if steps is None:
            return {'lines': lines, 'trace': trace, 'runs': [], 'build_error': 'ValueError',
                    'tags': tags + ['build=ValueError'], 'nontrivial': False}
        if isinstance(steps, str):
            return {'lines': lines, 'trace': trace, 'runs': [], 'ctor_error': steps,
                    'tags': tags + ['ctor-error'], 'nontrivial': False}
        runs.append(steps)
    accepted = sum(1 for steps in runs for s in steps[1:] if s['res'] == 'ret b1')
    return {'lines': lines, 'trace': trace, 'runs': runs, 'tags': tags, 'nontrivial': accepted > 0}


# ------------------------------------------------------------------ oracle: reference interpreter

class _RefError(Exception):
    def __init__(self, kind):
        super().__init__(kind)
        self.kind = kind


class Ref:
    """Reference interpreter written from docs/FSM.rst (not from the Lean model)."""

    def __init__(self, scn):
        self.scn = scn
        self.states = list(dict.fromkeys(list(scn['states']) + [t[0] for t in scn.get('timers', [])]))
        self.table = {}
        self.events = set()
        for ev, froms, to in scn['rules']:
            self.events.add(ev)
            for fr in ([None] if froms is None else froms):
                self.table[(ev, fr)] = to
        self.timed = {st: (ev, kind) for st, ev, kind in scn.get('timers', [])}
        self.limit = 3 * len(self.states)
        self.state = None
        self.output = UNDEF_MARK
        self.log = []

    def target(self, et, data):
        """next state of an event (None = rejected); logs notrans / cond; may raise"""
        if et.startswith('>'):
            if et[1:] not in self.states:
                raise _RefError('ValueError')
            return et[1:]
        if et not in self.events:
            raise _RefError('UnknownEvent')
        if (et, self.state) in self.table:
            tgt = self.table[(et, self.state)]      # a specific rule wins, even when it forbids
        else:
            tgt = self.table.get((et, None))
        if tgt is None:
            self.log.append(('notrans', et, self.state))
            return None
        if self.output != UNDEF_MARK:
            verdicts = []
            for w, key in (('f', 'condF'), ('m', 'condM')):
                c = self.scn.get(key, {}).get(et)
                if c is not None:
                    self.log.append(('cond', w, et, dict(data)))
                    verdicts.append(bool(_retval(c, data)))
            if not all(verdicts):
                return None
        return tgt

    def callbacks(self, kind, st, data):
        for w, key in (('f', kind + 'F'), ('m', kind + 'M')):
            if st in self.scn.get(key, {} if kind == 'enter' else []):
                self.log.append((kind, w, st, dict(data)))
                yield self.scn[key][st] if kind == 'enter' else None

    def event(self, et, data):
        """returns True/False, raises _RefError; self.log holds the expected ordered log"""
        self.log = []
        tgt = self.target(et, data)
        if tgt is None:
            return False
        if self.output != UNDEF_MARK:
            for _ in self.callbacks('exit', self.state, data):
                pass
            self.log.append(('on_exit', self.state, self.output))
            self.log.append(('stoptimer',))
        cause = data                       # data of the event that causes the current step
        for hop in range(self.limit):
            self.state = tgt
            self.log.append(('state', tgt))
            request = None
            for sends in self.callbacks('enter', tgt, cause):
                for set_, sdata in sends:
                    self.log.append(('send', set_, dict(sdata)))
                    t2 = self.target(set_, sdata)
                    if t2 is not None:
                        if request is not None:
                            raise _RefError('CircuitError')     # event multiplication
                        request = (sdata, t2)
                    self.log.append(('ret', t2 is not None))
            if request is None and tgt in self.timed:
                self.log.append(('starttimer', tgt))
                tev, kind = self.timed[tgt]
                if kind == 'z':
                    t2 = self.target(tev, {})
                    if t2 is not None:
                        request = ({}, t2)
            if request is None:
                break
            if hop + 1 < self.limit:
                # the intermediate state is left at once; its exit action belongs to the chained event
                cause, tgt2 = request
                for _ in self.callbacks('exit', tgt, cause):
                    pass
                tgt = tgt2
        else:
            raise _RefError('CircuitError')                     # endless chain
        out = (self.scn.get('outmap') or {}).get(self.state, self.state)
        if out != UNDEF_MARK and not (self.output != UNDEF_MARK and self.output == out):
            self.log.append(('output', self.output, out))
            self.output = out
        self.log.append(('on_enter', self.state, self.output))
        return True


def _parse_entry(x):
    """log string of the implementation side -> tuple comparable with the reference log"""
    p = x.split(':')
    return tuple(p)


def _fmt(entry):
    k = entry[0]
    if k in ('cond', 'exit', 'enter'):
        return f'{k}:{entry[1]}:{entry[2]}:{enc_data(entry[3])}'
    if k in ('on_exit', 'on_enter'):
        return f'{k}:{entry[1]}:{_val(entry[2])}'
    if k == 'output':
        return f'output:{_val(entry[1])}:{_val(entry[2])}'
    if k == 'send':
        return f'send:{entry[1]}:{enc_data(entry[2])}'
    if k == 'ret':
        return f'ret:{1 if entry[1] else 0}'
    return ':'.join(str(x) for x in entry)


def _strip_data(s):
    p = s.split(':')
    if p[0] in ('cond', 'exit', 'enter'):
        return ':'.join(p[:3])
    return s


def _sig(scn, step):
    chained = sum(1 for x in step['log'] if x.startswith('state:')) > 1
    return {'chained': chained}


def oracle(scn, res):
    out = []
    if res.get('build_error'):
        # class creation refused: legitimate only for a defective table
        if not table_defect(scn):
            out.append({'clause': 'build_tables', 'what': 'a valid FSM definition was refused with ValueError'})
        return out
    if table_defect(scn):
        return [{'clause': 'build_tables', 'what': f'defective tables accepted: {table_defect(scn)}'}]
    if res.get('ctor_error'):
        return [{'clause': 'build_tables',
                 'what': f"a valid FSM definition was refused by the block constructor: {res['ctor_error']}"}]
    for nrun, steps in enumerate(res['runs']):
        out = oracle_run(scn, steps)
        if out:
            if len(res['runs']) > 1:
                for v in out:
                    v['what'] = f'sequence #{nrun}: ' + v['what']
            return out
    return []


def oracle_run(scn, steps):
    out = []
    ref = Ref(scn)
    for i, step in enumerate(steps):
        op = step['op']
        if op is None:
            et, data = '>' + scn['initdef'], {}
        else:
            et, data = op[0], (dict(op[1]) if op[0].startswith('>') else dict(op[1], source='_ext_'))
        before = (ref.state, ref.output)
        try:
            exp = 'ret b1' if ref.event(et, data) else 'ret b0'
        except _RefError as err:
            exp = 'err ' + err.kind
        where = f"step {i} ({'init' if op is None else et}, state {before[0]})"
        if step['active']:
            out.append({'clause': 'flags_released', 'what': f'{where}: _fsm_event_active left set'})
            break
        if step['res'] != exp:
            out.append({'clause': 'accept_iff', 'what': f"{where}: event() gave {step['res']!r}, expected {exp!r}"})
            break
        if step['state'] not in ref.states:
            out.append({'clause': 'state_in_states', 'what': f"{where}: state {step['state']!r}"})
            break
        if exp.startswith('err'):
            if exp == 'err UnknownEvent' and not step['log'] and (step['state'], step['output']) == before:
                if step['next']:
                    out.append({'clause': 'flags_released', 'what': f'{where}: _next_event left set'})
                    break
                continue                   # unknown top-level event: nothing happened, go on
            # what was done before the exception is determined as well
            nset = sum(1 for x in step['log'] if x.startswith('state:'))
            if nset > ref.limit:
                out.append({'clause': 'chain_bounded',
                            'what': f'{where}: {nset} states entered by one event, the limit is {ref.limit}'})
            elif step['log'] != [_fmt(e) for e in ref.log]:
                want = [_fmt(e) for e in ref.log]
                same_actions = [_strip_data(x) for x in step['log']] == [_strip_data(x) for x in want]
                out.append({'clause': 'action_reads_causing_event' if same_actions else 'action_order',
                            'what': f"{where}: before the exception: {step['log']}, expected {want}",
                            'sig': _sig(scn, step)})
            break                          # no claims after an error
        if step['next']:
            out.append({'clause': 'flags_released', 'what': f'{where}: _next_event left set'})
            break
        if exp == 'ret b0':
            if (step['state'], step['output']) != before:
                out.append({'clause': 'reject_changes_nothing',
                            'what': f"{where}: rejected event changed state/output to {step['state']}/{step['output']!r}"})
                break
            bad = [x for x in step['log'] if x.split(':')[0] not in ('cond', 'notrans')]
            if bad:
                out.append({'clause': 'reject_changes_nothing', 'what': f'{where}: rejected event ran {bad}'})
                break
        if step['state'] != ref.state:
            out.append({'clause': 'lookup_precedence',
                        'what': f"{where}: new state {step['state']!r}, transition table says {ref.state!r}"})
            break
        if step['output'] != ref.output or type(step['output']) is not type(ref.output):
            out.append({'clause': 'output_update', 'what': f"{where}: output {step['output']!r}, expected {ref.output!r}"})
            break
        want = [_fmt(e) for e in ref.log]
        got = step['log']
        if [_strip_data(x) for x in got] != [_strip_data(x) for x in want]:
            chained = any(e[0] == 'state' for e in ref.log[1:]) and sum(1 for e in ref.log if e[0] == 'state') > 1
            out.append({'clause': 'chained_invisible' if chained else 'action_order',
                        'what': f'{where}: actions/events {got}, expected {want}', 'sig': _sig(scn, step)})
            break
        if got != want:
            diff = [(g, w) for g, w in zip(got, want) if g != w]
            out.append({'clause': 'action_reads_causing_event',
                        'what': f'{where}: {diff[0][0]} read through fsm_event_data, the causing event carried '
                                f'{diff[0][1]}', 'sig': _sig(scn, step)})
            break
        if 'sim_init_error' in step:
            break
    return out


def table_defect(scn):
    """why _build_tables has to refuse the definition, or None"""
    states = list(scn['states']) + [t[0] for t in scn.get('timers', [])]
    if not states:
        return 'no states'
    seen = set()
    events = set()
    for ev, froms, to in scn['rules']:
        events.add(ev)
        if to is not None and to not in states:
            return f'unknown target {to}'
        for fr in ([None] if froms is None else froms):
            if fr is not None and fr not in states:
                return f'unknown from-state {fr}'
            if (ev, fr) in seen:
                return f'duplicate rule {(ev, fr)}'
            seen.add((ev, fr))
    for st, ev, _kind_ in scn.get('timers', []):
        if ev.startswith('>'):
            if ev[1:] not in states:
                return f'timer Goto to unknown state {ev}'
        elif ev not in events:
            return f'undefined timed event {ev}'
    return None


# ------------------------------------------------------------------ generators

def cells_to_rules(states, events, cells):
    """cells[(ev, None|state)] = 'x' (no rule) | None | state  ->  EVENTS entries"""
    rules = []
    for ev in events:
        for fr in [None] + list(states):
            c = cells[(ev, fr)]
            if c != 'x':
                rules.append([ev, None if fr is None else [fr], c])
    return rules


def all_tables(ns, ne):
    states, events = SN[:ns], EN[:ne]
    keys = [(ev, fr) for ev in events for fr in [None] + states]
    opts = ['x', None] + states
    for combo in itertools.product(opts, repeat=len(keys)):
        yield states, events, cells_to_rules(states, events, dict(zip(keys, combo)))


def ev_data(i, okbits):
    return {'tag': f't{i}', 'ok': [True, False, 1, 0, '', 'y', None][okbits % 7]}


def instrumented(states, events):
    return {
        'condF': {ev: ['k', 'ok'] for ev in events[:1]},
        'condM': {ev: ['k', 'ok'] for ev in events},
        'enterF': {st: [] for st in states}, 'enterM': {st: [] for st in states[1:]},
        'exitF': list(states[:-1]) or list(states), 'exitM': list(states),
    }


def cover_sequence(states, events):
    """Goto-driven sequence visiting every (state, event) cell"""
    ops = []
    for st in states:
        for ev in events:
            ops.append(['>' + st, {'tag': 'j'}])
            ops.append([ev, {'tag': ev + st}])
    return ops


def rnd_data(rng, i):
    d = {'tag': f't{i}'}
    if rng.random() < 0.8:
        d['ok'] = rng.choice([True, False, True, 1, 0, '', 'y', None])
    return d


def gen_random(rng, big=False):
    ns = rng.randint(4, 6) if big else rng.choice([1, 2, 2, 3, 3, 3])
    ne = rng.randint(2, 4) if big else rng.choice([1, 2, 2, 3])
    states, events = SN[:ns], EN[:ne]
    rules = []
    for ev in events:
        if rng.random() < 0.5:
            rules.append([ev, None, rng.choice(states + [None])])
        pool = [s for s in states if rng.random() < 0.5]
        while pool:
            k = rng.randint(1, len(pool)) if rng.random() < 0.3 else 1
            rules.append([ev, pool[:k], rng.choice(states + states + [None])])
            pool = pool[k:]
    rng.shuffle(rules)
    if not rules:
        rules.append([events[0], None, states[-1]])
    scn = {'states': states, 'rules': rules, 'union': rng.random() < 0.5, 'fam': 'big' if big else 'rnd'}
    used = sorted({r[0] for r in rules})
    r = rng.random()
    if r < 0.03:            # defective tables
        kind = rng.choice(['dup', 'badto', 'badfrom', 'badtimer', 'badgoto'])
        if kind == 'dup':
            ev, froms, to = rng.choice(rules)
            rules.append([ev, froms if froms is None else froms[:1], rng.choice(states)])
        elif kind == 'badto':
            rules.append([events[0], ['A'] if ['A'] not in [x[1] for x in rules if x[0] == events[0]] else None, 'Q'])
        elif kind == 'badfrom':
            rules.append([events[-1], ['Q'], states[0]])
        elif kind == 'badtimer':
            scn['timers'] = [[states[0], UNKNOWN, 'inf']]
        else:
            scn['timers'] = [[states[0], '>Q', 'inf']]
    def sends():
        r = rng.random()
        n = 0 if r < 0.35 else 1 if r < 0.8 else 2 if r < 0.97 else 3
        out = []
        for j in range(n):
            r = rng.random()
            if r < 0.62:
                et = rng.choice(used)
            elif r < 0.95:
                et = '>' + rng.choice(states)
            elif r < 0.975:
                et = UNKNOWN
            else:
                et = '>Q'
            d = {'tag': rng.choice(['c1', 'c2', 'c3'])}
            if rng.random() < 0.7:
                d['ok'] = rng.choice([True, True, False, 1, 0, 'y', ''])
            out.append([et, d])
        return out
    def cond():
        return ['c', rng.choice([True, True, False, 1, 0, '', 'y', None])] if rng.random() < 0.4 else ['k', 'ok']
    pc, pe, px = rng.choice([(0.0, 0.0, 0.0), (0.4, 0.5, 0.5), (0.7, 0.8, 0.8), (0.3, 0.9, 0.3)])
    scn['condF'] = {ev: cond() for ev in used if rng.random() < pc / 2}
    scn['condM'] = {ev: cond() for ev in used if rng.random() < pc}
    scn['enterF'] = {st: sends() for st in states if rng.random() < pe / 2}
    scn['enterM'] = {st: sends() for st in states if rng.random() < pe}
    scn['exitF'] = [st for st in states if rng.random() < px / 2]
    scn['exitM'] = [st for st in states if rng.random() < px]
    if 'timers' not in scn and rng.random() < 0.3:
        tm = []
        for st in states + (['T'] if rng.random() < 0.2 else []):
            if st == 'T' or rng.random() < 0.3:
                ev = rng.choice(used) if rng.random() < 0.5 else '>' + rng.choice(states)
                tm.append([st, ev, rng.choice(['z', 'z', 'inf', 'pos'])])
        scn['timers'] = tm
    allst = states + [t[0] for t in scn.get('timers', []) if t[0] not in states]
    if rng.random() < 0.3:
        vals = [True, 1, 0, False, 'A', 'x', None, 2]
        scn['outmap'] = {st: (UNDEF_MARK if rng.random() < 0.12 else rng.choice(vals))
                         for st in allst if rng.random() < 0.7}
    scn['initdef'] = rng.choice(allst) if rng.random() < 0.4 else allst[0]
    ops = []
    for i in range(rng.randint(1, 5)):
        r = rng.random()
        if r < 0.78:
            et = rng.choice(events)
        elif r < 0.9:
            et = UNKNOWN
        elif r < 0.985:
            et = '>' + rng.choice(allst)
        else:
            et = '>Q'
        ops.append([et, rnd_data(rng, i)])
    scn['ops'] = ops
    return scn


def gen_chain(rng):
    """machines built around one chain: 0/1/2 requests per entry action, endless chains"""
    ns = rng.choice([2, 3, 3])
    states = SN[:ns]
    events = ['e0', 'e1']
    rules = [['e0', None, states[1]], ['e1', [states[1]], states[-1]], ['e1', [states[0]], None]]
    shape = rng.choice(['one', 'one', 'two', 'endless', 'rejected', 'goto', 'condfalse', 'long'])
    d1 = {'tag': 'c1', 'ok': True}
    d2 = {'tag': 'c2', 'ok': rng.choice([True, 1, 'y'])}
    mid = states[1]
    sends = {
        'one': [['e1', d1]], 'two': [['e1', d1], ['>' + states[0], d2]], 'endless': [['>' + mid, d1]],
        'rejected': [['e1', {'tag': 'c1', 'ok': False}]], 'goto': [['>' + states[0], d2]],
        'condfalse': [['e1', {'tag': 'c1', 'ok': 0}], ['>' + states[-1], d2]],
        'long': [['e1', d1]],
    }[shape]
    scn = {'states': states, 'rules': rules, 'fam': 'chain:' + shape, 'union': False}
    key = rng.choice(['enterM', 'enterF'])
    scn[key] = {mid: sends}
    if shape == 'two' and rng.random() < 0.5:
        scn['enterF'], scn['enterM'] = {mid: sends[:1]}, {mid: sends[1:]}
    if shape == 'long':
        other = 'enterM' if key == 'enterF' else 'enterF'
        scn[other] = {states[-1]: [['>' + states[0], d2]]}
    scn['condM'] = {'e1': ['k', 'ok']} if rng.random() < 0.8 else {}
    scn['condF'] = {'e1': ['c', True]} if rng.random() < 0.3 else {}
    scn['exitM'] = [s for s in states if rng.random() < 0.8]
    scn['exitF'] = [s for s in states if rng.random() < 0.3]
    for st in states:
        if st != mid and rng.random() < 0.5:
            scn.setdefault('enterM', {}).setdefault(st, [])
    scn['initdef'] = rng.choice(states) if rng.random() < 0.3 else states[0]
    scn['ops'] = [[rng.choice(events + ['e0']), rnd_data(rng, i)] for i in range(rng.randint(1, 4))]
    return scn


_SEQ_CACHE = {}


def all_sequences(alpha, length, okbits=None):
    """all event sequences of that length (shared objects: the same lists serve every table)"""
    key = (tuple(alpha), length, okbits)
    if key not in _SEQ_CACHE:
        runs = []
        for seq in itertools.product(alpha, repeat=length):
            if okbits is None:
                runs.append([[et, {'tag': f't{i}'}] for i, et in enumerate(seq)])
            else:
                runs.append([[et, ev_data(i, okbits + i * (1 + len(et)))] for i, et in enumerate(seq)])
        _SEQ_CACHE[key] = runs
    return _SEQ_CACHE[key]


def more_runs(rng, scn, allst, events, k):
    """further event sequences for the same machine"""
    runs = [scn.pop('ops')]
    for _ in range(k):
        ops = []
        for i in range(rng.randint(1, 5)):
            r = rng.random()
            et = rng.choice(events) if r < 0.8 else UNKNOWN if r < 0.9 else '>' + rng.choice(allst)
            ops.append([et, rnd_data(rng, i)])
        runs.append(ops)
    scn['runs'] = runs
    return scn


def scenarios(rng, tier):
    quick = tier == 'quick'
    # 1. exhaustive tables, every event sequence; one scenario = one table with all its sequences
    for ns, ne in ((1, 1), (1, 2), (2, 1), (2, 2), (3, 1)):
        alpha = EN[:ne] + [UNKNOWN]
        for states, events, rules in all_tables(ns, ne):
            if quick and rng.random() >= 0.03:
                continue
            base = {'states': states, 'rules': rules, 'initdef': states[0]}
            yield {**base, 'fam': 'bare', 'runs': all_sequences(alpha, 3)}
            inst = instrumented(states, sorted({r[0] for r in rules}))
            yield {**base, **inst, 'fam': 'instr', 'runs': all_sequences(alpha, 5, rng.randrange(7))}
    # 2. 3 states x 2 events: every table, one covering sequence
    cover = None
    for states, events, rules in all_tables(3, 2):
        if rng.random() >= (0.004 if quick else 1.0):
            continue
        cover = cover or cover_sequence(states, events)
        yield {'states': states, 'rules': rules, 'initdef': states[0], 'fam': 'cover',
               'exitM': ['A'], 'ops': cover}
    # 3. random machines, chains, larger machines
    n = 8000 if quick else 80000
    for _ in range(n):
        scn = gen_random(rng)
        allst = scn['states'] + [t[0] for t in scn.get('timers', []) if t[0] not in scn['states']]
        yield more_runs(rng, scn, allst, EN[:3], rng.choice([0, 1, 2]))
    for _ in range(n // 3):
        scn = gen_chain(rng)
        yield more_runs(rng, scn, scn['states'], ['e0', 'e1'], rng.choice([0, 1]))
    for _ in range(n // 6):
        yield gen_random(rng, big=True)
    # the list of scenarios is inherited by the forked workers: keep the garbage collector from
    # touching (and thereby copying) it in every one of them
    gc.collect()
    gc.freeze()


def shrink(scn):
    runs = scn_runs(scn)
    if len(runs) > 1:
        for r in runs:
            yield {**{k: v for k, v in scn.items() if k != 'runs'}, 'ops': r}
        return
    ops = runs[0]
    scn = {**{k: v for k, v in scn.items() if k != 'runs'}, 'ops': ops}
    for i in reversed(range(len(ops))):
        yield {**scn, 'ops': ops[:i] + ops[i + 1:]}
    for key in ('condF', 'condM', 'enterF', 'enterM', 'outmap'):
        for k in sorted(scn.get(key) or {}):
            d = dict(scn[key])
            del d[k]
            yield {**scn, key: d}
    for key in ('enterF', 'enterM'):
        for k, v in sorted((scn.get(key) or {}).items()):
            for j in range(len(v)):
                yield {**scn, key: {**scn[key], k: v[:j] + v[j + 1:]}}
    for key in ('exitF', 'exitM', 'timers', 'rules'):
        lst = scn.get(key) or []
        for i in reversed(range(len(lst))):
            yield {**scn, key: lst[:i] + lst[i + 1:]}
