"""C20 -- Counter arithmetic: correspondence with lean/EdzedModel/Counter.lean + oracle."""
from fractions import Fraction
import itertools
import math

import edzed

from ..enc import enc, enc_opt
from ..simrun import Sim
from ..runner import shrink_ops

ID = 'C20'
RULE = ("event sequences over inc/dec (with/without amount), put (with/without value), reset on a real "
        "Counter in a running circuit; exhaustive over a 7-symbol alphabet up to length 4 (quick) / "
        "6 and a 4-symbol alphabet up to length 8 (thorough) for modulo in {None,1,2,7,10,2.5} x initdef "
        "in/out of range x restored value none/in/out of range, plus random long sequences with large "
        "and negative integers; a case is distinct by its (input lines, trace) hash and non-trivial if "
        "it contains at least one state-changing event")
ASSUMPTIONS = [
    "floats are restricted to dyadic values (k/2) below 2**40 so that IEEE arithmetic is exact and "
    "equals the model's rational arithmetic",
]
EXHAUSTIVE = {'quick': False, 'thorough': False}

MODULI = [None, 1, 2, 7, 10, 2.5, -3]
ALPHA7 = [('inc', None), ('inc', 3), ('dec', None), ('dec', 5), ('put', 9), ('put', None), ('reset', None)]
ALPHA4 = [('inc', None), ('dec', 5), ('put', -9), ('reset', None)]
KEY = "<Counter 'c'>"


EXTRA_NAMES = ['etype', 'source', 'trigger', 'data', 'x', 'previous', 'handler']


def scenarios(rng, tier):
    # initdef None = the keyword is omitted (the documented default 0 applies)
    inits = [(0, None), (3, None), (-4, None), (12, 5), (3, -11), (None, None), (None, 7)]
    if tier == 'quick':
        # exhaustive length 4 for two rotating (modulo, init) combinations + all moduli length 3
        for mod in MODULI:
            for initdef, restored in inits:
                for seq in itertools.product(ALPHA7, repeat=3):
                    yield {'mod': mod, 'initdef': initdef, 'restored': restored, 'ops': [list(o) for o in seq]}
        for mod in rng.sample(MODULI, 2):
            initdef, restored = rng.choice(inits)
            for seq in itertools.product(ALPHA7, repeat=4):
                yield {'mod': mod, 'initdef': initdef, 'restored': restored, 'ops': [list(o) for o in seq]}
        nrandom = 1500
    else:
        for mod in MODULI:
            for initdef, restored in inits[:3]:
                for seq in itertools.product(ALPHA7, repeat=5):
                    yield {'mod': mod, 'initdef': initdef, 'restored': restored, 'ops': [list(o) for o in seq]}
            for seq in itertools.product(ALPHA4, repeat=8):
                yield {'mod': mod, 'initdef': 3, 'restored': None, 'ops': [list(o) for o in seq]}
        nrandom = 30000
    yield {'mod': 0, 'initdef': 0, 'restored': None, 'ops': []}
    yield {'mod': 0.0, 'initdef': 0, 'restored': None, 'ops': []}
    for _ in range(nrandom):
        use_float = rng.random() < 0.4
        mod = rng.choice([None, 1, 2, 7, 10, 2.5, 3, 0.5, -2.5, -4] if use_float else [None, 1, 2, 7, 10, 3, 1000003, 2 ** 70 + 1, -7, -(2 ** 65)])

        def num():
            r = rng.random()
            if r < 0.5:
                return rng.randint(-20, 20)
            if use_float:
                # dyadic floats, exact in IEEE arithmetic
                return rng.randint(-2 ** 20, 2 ** 20) / 2 if r < 0.8 else rng.randint(-2 ** 30, 2 ** 30)
            return rng.randint(-10 ** 30, 10 ** 30) if r < 0.8 else rng.randint(-2 ** 40, 2 ** 40)
        ops = []
        for _ in range(rng.randint(1, 40)):
            k = rng.choice(['inc', 'inc', 'dec', 'dec', 'put', 'reset'])
            if k == 'reset':
                ops.append([k, None])
            elif k == 'put':
                ops.append([k, num() if rng.random() < 0.9 else None])
            else:
                ops.append([k, num() if rng.random() < 0.7 else None])
        scn = {'mod': mod, 'initdef': num() if rng.random() < 0.9 else None,
               'restored': num() if rng.random() < 0.4 else None, 'ops': ops}
        if rng.random() < 0.25:
            # additional data items, which a Counter ignores -- whatever they are called (no reserved names:
            # 'etype' is the name of event()'s own first parameter, 'source'/'trigger' are set by senders)
            scn['extras'] = [{k: rng.choice(['x', 'src'] if k == 'source' else [0, 7, 'x', None])      # a source must be a string (C14)
                              for k in rng.sample(EXTRA_NAMES, rng.choice([0, 1, 1, 2]))}
                             for _ in ops]
        yield scn


def shrink(scn):
    if scn.get('extras'):
        yield {k: v for k, v in scn.items() if k != 'extras'}
        return
    yield from shrink_ops(scn)
    if scn.get('restored') is not None:
        yield {**scn, 'restored': None}


def run_impl(scn):
    lines, trace, steps = [], [], []
    mod, initdef, restored = scn['mod'], scn['initdef'], scn['restored']
    # an omitted initdef: the model is told the documented default (0); `translated_counter_init_defaults`
    # ties that default to the signature
    lines.append(f"counter reset {enc_opt(mod, 'n')} {enc(0 if initdef is None else initdef)} {enc_opt(restored)}")
    sim = Sim()

    def build(circuit):
        if restored is not None:
            circuit.set_persistent_data({KEY: restored})
        kw = {} if initdef is None else {'initdef': initdef}
        return edzed.Counter('c', modulo=mod, persistent=restored is not None, **kw)

    async def drive(sim, cnt):
        trace.append('ok ' + enc(cnt.output))
        steps.append(('init', cnt.output))
        for op, arg in scn['ops']:
            etype = {'reset': 'reset'}.get(op, op)
            data = {}
            if arg is not None:
                data['value' if op == 'put' else 'amount'] = arg
            if scn.get('extras'):
                data.update(scn['extras'][len(steps) - 1])
            kind, val = sim.send(cnt, etype, **data)
            lines.append(f"counter {'reset_ev' if op == 'reset' else op + ' ' + enc_opt(arg)}")
            if kind == 'ret':
                trace.append('ret ' + enc(val))
            elif sim.aborted():
                trace.append('err Abort')
            elif isinstance(val, TypeError):
                trace.append('err ParamError')
            else:
                trace.append('err ' + type(val).__name__)
            lines.append('counter out')
            trace.append(enc(cnt.output))
            steps.append((op, arg, kind, val if kind == 'ret' else type(val).__name__, cnt.output, sim.aborted()))

    try:
        sim.run(build, drive)
    except ValueError:
        if sim.circuit is not None and not list(sim.circuit.getblocks()):
            trace.append('err ValueError')
            steps.append(('ctor', 'ValueError'))
        else:
            raise
    if sim.init_error is not None:
        trace.append('err Init')
    changing = sum(1 for o in scn['ops'] if not (o[0] == 'put' and o[1] is None))
    tags = [f'mod={mod}', 'initdef=' + ('omitted' if initdef is None else 'given'), f'len={min(len(scn["ops"]), 10)}' + ('+' if len(scn['ops']) > 10 else '')]
    tags += [f'op={o[0]}{"" if o[1] is not None else "-noarg"}' for o in scn['ops'][:1]]
    return {'lines': lines, 'trace': trace, 'steps': steps, 'tags': tags, 'nontrivial': changing > 0,
            'final_error': repr(sim.final_error)}


def _reduce(x, mod):
    if mod is None:
        return x
    m = Fraction(mod)
    return x - m * math.floor(x / m)


def oracle(scn, res):
    """independent reference accumulator in Fractions"""
    out = []
    mod = scn['mod']
    steps = res['steps']
    if mod is not None and mod == 0:
        if steps != [('ctor', 'ValueError')]:
            out.append({'clause': 'modulo_zero_refused', 'what': f'modulo 0 accepted: {steps[:2]}'})
        return out
    if not steps or steps[0][0] != 'init':
        return [{'clause': 'init', 'what': f'counter did not initialise: {steps[:1]}'}]
    initdef = 0 if scn['initdef'] is None else scn['initdef']
    start = scn['restored'] if scn['restored'] is not None else initdef
    acc = _reduce(Fraction(start), mod)
    if Fraction(steps[0][1]) != acc:
        out.append({'clause': 'initial_value_reduced', 'what': f'initial output {steps[0][1]!r}, expected {acc}'})
    for i, (op, arg, kind, val, output, aborted) in enumerate(steps[1:]):
        if op == 'put' and arg is None:
            if kind != 'err' or val != 'TypeError' or aborted or Fraction(output) != acc:
                out.append({'clause': 'put_without_value_is_harmless',
                            'what': f'step {i}: put without value -> {kind} {val}, output {output!r}, aborted={aborted}'})
                break
            continue
        if op == 'inc':
            acc = acc + Fraction(1 if arg is None else arg)
        elif op == 'dec':
            acc = acc - Fraction(1 if arg is None else arg)
        elif op == 'put':
            acc = Fraction(arg)
        elif op == 'reset':
            acc = Fraction(initdef)
        acc = _reduce(acc, mod)
        if kind != 'ret' or aborted:
            out.append({'clause': 'event_handled', 'what': f'step {i}: {op} {arg!r} -> {kind} {val}'})
            break
        if Fraction(output) != acc:
            out.append({'clause': 'counter_refines_accumulator',
                        'what': f'step {i}: {op} {arg!r}: output {output!r}, expected {acc}'})
            break
        if val != output:
            out.append({'clause': 'event_returns_updated_output',
                        'what': f'step {i}: returned {val!r}, output {output!r}'})
            break
        if mod is not None and mod > 0 and not 0 <= output < mod:
            out.append({'clause': 'range_invariant', 'what': f'step {i}: output {output!r} outside [0,{mod})'})
            break
        if mod is not None and mod < 0 and not mod < output <= 0:
            out.append({'clause': 'range_invariant', 'what': f'step {i}: output {output!r} outside ({mod},0]'})
            break
    return out
