"""C05 -- start-up: initialisation sources, their order, wait_init(), bounded async wait,
independence of the creation order.  Correspondence with lean/EdzedModel/Init.lean + oracle."""
import asyncio
import itertools

import edzed

from .. import vtime
from ..enc import enc

ID = 'C05'
RULE = ("circuits of 1..4 sequential blocks, each with a script per initialisation source: persistent entry "
        "(none | restores v | _restore_state raises; direct set_output or through the block's own 'put' event), "
        "asynchronous routine (none | returns v at D | fails at D | never) with init_timeout T (<=0, or 8/16/24 s; "
        "D before / exactly at / after the block's own deadline and after the deadline but before the end of the "
        "phase), regular routine (none | sets v | via own event | raises), initdef (none | v, direct / via event), a "
        "value delivered by the main task right after start (ValuePoll), and on_output 'put' edges between the "
        "blocks (all topologies incl. self-loops and cycles); block classes: generated probe classes with exactly "
        "the add-ons the scripts need (event-only probes have none), real Input, InitAsync, ValuePoll (logging "
        "subclasses); EVERY creation-order permutation of each configuration is run; 0..2 FuncBlocks (returning a value / "
        "raising / returning UNDEF in the first evaluation / returning UNDEF only later) form the first evaluation "
        "pass, their outputs are compared too; a Repeat block adds asynchronous clean-up; a task waits in "
        "wait_init() from the very beginning. quick: all single-block source combinations, all 2-block "
        "configurations over a reduced script alphabet x topologies, random 3..4-block configurations; thorough: "
        "more of each. distinct = hash of (lines, trace); non-trivial = at least one init-time event was "
        "delivered or an async routine was started")
ASSUMPTIONS = [
    "init routines are scripts (set a constant directly or through the own 'put' event, raise, sleep then "
    "set/raise); arbitrary user code is not modelled",
    "asyncio rules used by the model and validated by the correspondence: wait_for(task, r) ends at "
    "min(completion, now+r), r<=0 cancels at once; tasks created together start in creation order; the outcome of "
    "an exact tie 'completion == deadline' is taken from the implementation (recorded in the protocol line)",
    "completion times of different blocks never coincide with each other or with another block's timeout "
    "(generator: timeouts are multiples of 8 s, completion of block i is = 1+i mod 8 s, or exactly its own timeout)",
    "after the simulator's error has been set by abort() the model stops: call logs are compared up to that point, "
    "later calls (until the cancellation reaches the simulation task at its next await, or the test before "
    "_simulate()) are checked by the oracle only; a refused recursive event aborts at the refusal "
    "(patches/C11-refused-recursion-aborts.diff)",
    "order independence is checked for acyclic init-event topologies only (DESIGN.md section 6)",
]
EXHAUSTIVE = {'quick': False, 'thorough': False}

SEC = 1_000_000

# ----------------------------------------------------------------------------- real blocks

_REC = None         # the current run's recorder
_TIMES = None       # virtual time (us) of every entry


def rec(*entry):
    _REC.append(entry)
    try:
        _TIMES.append(asyncio.get_running_loop().now_us)
    except RuntimeError:
        _TIMES.append(-1)


def _uninit(blk):
    return blk.output is edzed.UNDEF


class _ProbeBase(edzed.block.Addon):
    """behaviour common to all generated probe classes"""

    def event(self, etype, /, **data):
        rec('V', self.name)
        if self._event_active:
            rec('X', self.name)     # the recursion guard of SBlock.event is going to refuse this event
        return super().event(etype, **data)

    def _c05_setup(self, script):
        self._scr = script

    def _apply(self, how, value):
        if how == 'ev':
            self.event('put', value=value)
        else:
            self.set_output(value)

    def _event_put(self, *, value, **_data):
        rec('E', self.name, value, self.init_steps_completed)
        self.set_output(value)

    def init_regular(self):
        rec('R', self.name)
        kind = self._scr['regular']
        if kind[0] == 'set':
            self._apply('set', kind[1])
        elif kind[0] == 'ev':
            self._apply('ev', kind[1])
        elif kind[0] == 'raise':
            raise RuntimeError('init_regular script')


class _PersistMixin(edzed.block.Addon):
    def _restore_state(self, state):
        rec('P', self.name)
        kind = self._scr['persist']
        if kind[0] == 'raise':
            raise RuntimeError('_restore_state script')
        self._apply(kind[2], state)


class _AsyncMixin(edzed.block.Addon):
    def init_async(self):
        rec('A', self.name, _uninit(self), self.init_timeout > 0)
        return self._c05_async()

    async def _c05_async(self):
        kind = self._scr['async']
        try:
            if kind[0] == 'never':
                await asyncio.Event().wait()
            delay = kind[-1]
            await asyncio.sleep(delay / SEC)
        except asyncio.CancelledError:
            rec('Ac', self.name)
            raise
        if kind[0] == 'fail':
            rec('Af', self.name)
            raise RuntimeError('init_async script')
        rec('A+', self.name)
        self.set_output(kind[1])


class _ValueMixin(edzed.block.Addon):
    def init_from_value(self, value):
        rec('D', self.name, _uninit(self))
        self._apply(self._scr['idef_how'], value)


_CLASSES = {}


def probe_class(persist, asy, value):
    key = (persist, asy, value)
    if key not in _CLASSES:
        bases = [_ProbeBase]
        if value:
            bases.append(_ValueMixin)
        if persist:
            bases += [_PersistMixin, edzed.AddonPersistence]
        if asy:
            bases += [_AsyncMixin, edzed.AddonAsync]
        bases.append(edzed.SBlock)
        _CLASSES[key] = type('Probe' + ''.join('PAV'[i] for i in range(3) if key[i]), tuple(bases), {})
    return _CLASSES[key]


class LInput(edzed.Input):
    def _restore_state(self, state):
        rec('P', self.name)
        edzed.Input._restore_state(self, state)

    def init_regular(self):
        rec('R', self.name)
        super().init_regular()

    def init_from_value(self, value):
        rec('D', self.name, _uninit(self))
        super().init_from_value(value)

    def _event_put(self, *, value, **data):
        rec('E', self.name, value, self.init_steps_completed)
        return super()._event_put(value=value, **data)

    def event(self, etype, /, **data):
        rec('V', self.name)
        if self._event_active:
            rec('X', self.name)     # the recursion guard of SBlock.event is going to refuse this event
        return super().event(etype, **data)


class LInitAsync(edzed.InitAsync):
    def init_regular(self):
        rec('R', self.name)
        super().init_regular()

    def init_from_value(self, value):
        rec('D', self.name, _uninit(self))
        super().init_from_value(value)

    def init_async(self):
        rec('A', self.name, _uninit(self), self.init_timeout > 0)
        return self._c05_wrap(edzed.InitAsync.init_async(self))

    async def _c05_wrap(self, coro):
        try:
            await coro
        except asyncio.CancelledError:
            rec('Ac', self.name)
            raise


class LValuePoll(edzed.ValuePoll):
    def init_regular(self):
        rec('R', self.name)
        super().init_regular()

    def init_from_value(self, value):
        rec('D', self.name, _uninit(self))
        super().init_from_value(value)

    def init_async(self):
        rec('A', self.name, _uninit(self), self.init_timeout > 0)
        return self._c05_wrap(edzed.ValuePoll.init_async(self))

    async def _c05_wrap(self, coro):
        try:
            await coro
        except asyncio.CancelledError:
            rec('Ac', self.name)
            raise


class LRepeat(edzed.Repeat):
    def init_regular(self):
        rec('R', self.name)
        super().init_regular()


def _initasync_coro(name, kind):
    async def coro():
        try:
            if kind[0] == 'never':
                await asyncio.Event().wait()
            await asyncio.sleep(kind[-1] / SEC)
        except asyncio.CancelledError:
            raise
        if kind[0] == 'fail':
            rec('Af', name)
            raise RuntimeError('init_coro script')
        rec('A+', name)
        return kind[1]
    return coro


def normalize(b):
    """fill in the defaults of a block script"""
    out = {'kind': 'probe', 'persist': ['none'], 'async': ['none'], 'timeout': 0, 'regular': ['none'],
           'initdef': None, 'idef_none': False, 'idef_how': 'set', 'start': None, 'dests': [], 'pflag': False}
    out.update(b)
    return out


def has_idef(b):
    """an initdef argument is given; `idef_none` marks the given value None (a bare None means 'not given')"""
    return b.get('initdef') is not None or bool(b.get('idef_none'))


def model_script(b):
    """the script the MODEL is given for a block -- derived from the documented behaviour of the class"""
    b = normalize(b)
    kind = b['kind']
    if kind == 'input':
        # Input: _restore_state = init_from_value = event('put'); no regular routine
        p = b['persist']
        return {**b, 'persist': ['val', p[1], 'ev'] if p[0] == 'val' else ['none'], 'async': ['none'],
                'regular': ['none'], 'idef_how': 'ev', 'start': None}
    if kind == 'initasync':
        # InitAsync.init_regular: quiet None unless initialised or an initdef exists
        return {**b, 'persist': ['none'], 'regular': ['quietnone'], 'idef_how': 'set', 'start': None}
    if kind == 'valuepoll':
        # a ValuePoll always has init_async (AddonAsyncInit); without a value it never completes
        asy = b['async'] if b['async'][0] == 'ret' and b['start'] is None else ['never']
        return {**b, 'persist': ['none'], 'regular': ['none'], 'idef_how': 'set', 'async': asy}
    if kind == 'repeat':
        return {**b, 'persist': ['none'], 'async': ['none'], 'regular': ['set', 0], 'initdef': None,
                'start': None, 'dests': []}
    return b


def names_of(scn):
    return [f'b{i}' for i in range(len(scn['blocks']))]


def build(scn, order, circuit, storage):
    names = names_of(scn)
    blocks = {}
    for i in order:
        b = normalize(scn['blocks'][i])
        name = names[i]
        kw = {}
        if b['dests']:
            kw['on_output'] = [edzed.Event(names[d], 'put') for d in b['dests']]
        kind = b['kind']
        if kind == 'probe':
            has_p = b['persist'][0] != 'none' or b['pflag']
            has_a = b['async'][0] != 'none'
            has_v = has_idef(b)
            cls = probe_class(has_p, has_a, has_v)
            if has_p:
                kw['persistent'] = True
            if has_a:
                kw['init_timeout'] = b['timeout'] / SEC
            if has_v:
                kw['initdef'] = b['initdef']
            blk = cls(name, **kw)
            blk._c05_setup(b)
            if b['persist'][0] == 'val':
                storage[blk.key] = b['persist'][1]
            elif b['persist'][0] == 'raise':
                storage[blk.key] = -1
        elif kind == 'input':
            if has_idef(b):
                kw['initdef'] = b['initdef']
            if b['persist'][0] == 'val' or b['pflag']:
                kw['persistent'] = True
            blk = LInput(name, **kw)
            if b['persist'][0] == 'val':
                storage[blk.key] = b['persist'][1]
        elif kind == 'initasync':
            if has_idef(b):
                kw['initdef'] = b['initdef']
            blk = LInitAsync(name, init_coro=[_initasync_coro(name, b['async'])],
                             init_timeout=b['timeout'] / SEC, **kw)
        elif kind == 'valuepoll':
            if has_idef(b):
                kw['initdef'] = b['initdef']
            asy = b['async']
            state = {'n': 0}

            def func(name=name, asy=asy, start=b['start'], state=state):
                n = state['n']
                state['n'] += 1
                if start is not None:
                    if n == 0:
                        rec('S', name)
                    return start
                if asy[0] == 'ret' and n >= 1 and (state.get('go') or any(e[0] == 'A' and e[1] == name for e in _REC)):
                    # the measured value becomes available only while the simulator waits for it
                    if not state.get('go'):
                        state['go'] = True
                        rec('A+', name)
                    return asy[1]
                return edzed.UNDEF
            interval = asy[2] / SEC if asy[0] == 'ret' else 1000.0
            blk = LValuePoll(name, func=func, interval=interval, init_timeout=b['timeout'] / SEC, **kw)
        elif kind == 'repeat':
            blk = LRepeat(name, dest=names[b['rdest']], etype='put', interval=1000)
        else:
            raise ValueError(kind)
        blocks[name] = blk
    for j, cb in enumerate(scn.get('cblocks', [])):
        if cb[0] == 'raise':
            def fn(x):
                raise RuntimeError('first pass script')
        elif cb[0] == 'undef':
            # UNDEF for the initial input value (the first evaluation), a value afterwards
            def fn(x, calls=[0]):
                calls[0] += 1
                return edzed.UNDEF if calls[0] == 1 else 0
        elif cb[0] == 'undef_later':
            # a value in the first evaluation pass, UNDEF afterwards
            def fn(x, v=cb[1], calls=[0]):
                calls[0] += 1
                return v if calls[0] == 1 else edzed.UNDEF
        else:
            def fn(x, v=cb[1]):
                return v
        # the input: an SBlock of the circuit, or a constant (a CBlock fed by constants only has no iconnections)
        src = edzed.Const(3) if cb[-1] == 'const' else names[cb[-1]]
        blocks[f'c{j}'] = edzed.FuncBlock(f'c{j}', func=fn).connect(src)
    return blocks


# ----------------------------------------------------------------------------- protocol lines

def _v(x):
    return 'n' if x is None else enc(x)


def block_token(b, dests):
    """persist~async~timeout~regular~initdef~start~monitored~dests  (no spaces)"""
    m = model_script(b)
    p = m['persist']
    ps = {'none': '-', 'raise': 'x'}.get(p[0]) or f"{'e' if p[2] == 'ev' else 'v'}{_v(p[1])}"
    a = m['async']
    if a[0] == 'none':
        as_ = '-'
    elif a[0] == 'never':
        as_ = 'never'
    elif a[0] == 'fail':
        as_ = f'fail:{a[1]}'
    else:
        as_ = f'ret:{_v(a[1])}:{a[2]}'
    r = m['regular']
    rs = {'none': '-', 'raise': 'x', 'quietnone': 'q'}.get(r[0]) or f"{'e' if r[0] == 'ev' else 'v'}{_v(r[1])}"
    ds = '-' if not has_idef(m) else f"{'e' if m['idef_how'] == 'ev' else 'v'}{_v(m['initdef'])}"
    ss = '-' if m['start'] is None else _v(m['start'])
    mon = 'm' if m['kind'] == 'valuepoll' else '-'
    return '~'.join([ps, as_, str(m['timeout']), rs, ds, ss, mon, ','.join(str(d) for d in dests) or '-'])


def config_line(scn, order, ties):
    pos = {i: k for k, i in enumerate(order)}
    toks = []
    for i in order:
        b = normalize(scn['blocks'][i])
        toks.append(block_token(b, [pos[d] for d in b['dests']]))
    cbs = ','.join({'raise': 'x', 'undef': 'ru'}.get(cb[0]) or 'r' + _v(cb[1]) for cb in scn.get('cblocks', [])) or '-'
    tie = ''.join('1' if ties.get(i, False) else '0' for i in order)
    return f"init reset {len(order)} {cbs} {tie} " + ' '.join(toks), pos


# ----------------------------------------------------------------------------- running the implementation

import edzed.simulator as _simulator

_orig_abort = _simulator.Circuit.abort


def _abort_wrapper(self, exc):
    if _REC is not None and self._error is None and not isinstance(exc, asyncio.CancelledError):
        rec('ABORT',)
    return _orig_abort(self, exc)


_simulator.Circuit.abort = _abort_wrapper     # process-local wrapper: marks the moment of the first abort()


def classify(err):
    if err is None:
        return 'none'
    if isinstance(err, asyncio.CancelledError):
        return 'Cancelled'
    if isinstance(err, edzed.EdzedCircuitError):
        return 'CircuitError'
    if isinstance(err, edzed.EdzedInvalidState):
        return 'InvalidState'
    return 'Other'


def execute(scn, order):
    """run the real circuit with the blocks created in `order`; returns the raw observation"""
    global _REC, _TIMES
    edzed.reset_circuit()       # (aborts the previous circuit: before the recorder is armed)
    log = []
    _REC = log
    _TIMES = []
    circuit = edzed.get_circuit()
    storage = {}
    blocks = build(scn, order, circuit, storage)
    circuit.set_persistent_data(storage)
    names = names_of(scn)
    obs = {}

    async def main(loop):
        simtask = asyncio.create_task(circuit.run_forever())
        t_start = loop.now_us
        try:
            await circuit.wait_init()
            obs['wait'] = 'returned'
        except edzed.EdzedInvalidState:
            obs['wait'] = 'raised'
        except Exception as err:      # anything else is not what the documentation promises
            obs['wait'] = 'raised-' + type(err).__name__
        obs['t_wait'] = loop.now_us - t_start
        obs['ready'] = circuit.is_ready()
        obs['error'] = classify(circuit.error)
        obs['error_text'] = str(circuit.error)[:200] if circuit.error is not None else ''
        obs['outs'] = [blocks[n].output for n in names]
        obs['couts'] = [blocks[f'c{j}'].output for j in range(len(scn.get('cblocks', [])))]
        obs['steps'] = [blocks[n].init_steps_completed for n in names]
        obs['simtask_done'] = simtask.done()
        ev = getattr(circuit, '_init_done', None)
        obs['init_done'] = bool(ev is not None and ev.is_set())
        obs['loglen'] = len(log)
        try:
            await circuit.shutdown()
        except BaseException:
            pass
        obs['final_error'] = classify(circuit.error)

    try:
        vtime.run(main)
    finally:
        _REC = None
    obs['log'] = log
    obs['times'] = _TIMES
    return obs


def async_ties(scn, log):
    """outcome of exact ties 'completion == own timeout', as the implementation resolved them"""
    ties = {}
    for i, b in enumerate(scn['blocks']):
        b = normalize(b)
        a = b['async']
        if a[0] in ('ret', 'fail') and a[-1] == b['timeout']:
            name = f'b{i}'
            ties[i] = any(e[0] in ('A+', 'Af') and e[1] == name for e in log)
    return ties


def log_tokens(log, pos):
    out = []
    for e in log:
        k = e[0]
        if k == 'ABORT':
            break
        idx = pos[int(e[1][1:])]
        if k == 'E':
            out.append(f'E{idx}={_v(e[2])}@{e[3]}')
        elif k == 'A':
            out.append(f"A{idx}{'u' if e[2] else 'i'}{'+' if e[3] else '0'}")
        elif k == 'D':
            out.append(f"D{idx}{'u' if e[2] else 'i'}")
        else:
            out.append(f'{k}{idx}')
    return out


def all_orders(scn):
    n = len(scn['blocks'])
    return scn.get('orders') or [list(range(n))]


def run_impl(scn):
    if 'ainit' in scn:
        return run_ainit(scn)
    lines, trace, runs, tags = [], [], [], set()
    nontrivial = False
    for order in all_orders(scn):
        obs = execute(scn, order)
        log = obs['log']
        ties = async_ties(scn, log)
        line, pos = config_line(scn, order, ties)
        ok = obs['wait'] == 'returned'
        aborted = any(e[0] == 'ABORT' for e in log)
        lines += [line, 'init log', 'init result']
        # calls made after wait_init() has returned (e.g. a ValuePoll polling on) are not part of the start-up
        trace += ['ok', 'log ' + (','.join(log_tokens(log[:obs['loglen']], pos)) or '-')]
        if obs['error'] == 'none':
            res = 'ok ' + ','.join(_v(obs['outs'][i]) for i in order)
        else:
            res = f"fail {obs['error']}"
        t = '' if aborted else f" t={obs['t_wait']}"
        co = (' c=' + (','.join(_v(o) for o in obs['couts']) or '-')) if obs['error'] == 'none' else ''
        trace.append(f"{obs['wait']} ready={int(obs['ready'])} done={int(obs['init_done'])} {res}{t}{co}")
        obs['order'] = order
        obs['aborted'] = aborted
        runs.append(obs)
        tags |= {f"wait={obs['wait']}", f"err={obs['error']}"}
        if aborted:
            tags.add('abort()')
        if any(e[0] == 'E' for e in log):
            tags.add('init-event')
        if any(e[0] == 'E' and e[3] < 0 for e in log):
            tags.add('event-during-own-step')
        if any(e[0] == 'X' for e in log):
            tags.add('refused-recursion')
        if any(e[0] == 'Ac' for e in log):
            tags.add('async-timeout')
        if any(e[0] == 'A+' for e in log):
            tags.add('async-completed')
        if ties:
            tags.add('tie-at-deadline')
        nontrivial = nontrivial or any(e[0] in ('E', 'A') for e in log)
    tags.add(f"n={len(scn['blocks'])}")
    tags |= {f"kind={normalize(b)['kind']}" for b in scn['blocks']}
    if scn.get('cblocks'):
        tags.add('first-pass-' + ('raises' if any(c[0] == 'raise' for c in scn['cblocks']) else
                                  'undef' if any(c[0] == 'undef' for c in scn['cblocks']) else 'ok'))
    if len(all_orders(scn)) > 1:
        tags.add('all-permutations')
    return {'lines': lines, 'trace': trace, 'tags': sorted(tags), 'nontrivial': nontrivial, 'runs': runs}


# ----------------------------------------------------------------------------- generator

def _vals(i):
    return {'p': 10 + i, 'a': 20 + i, 'r': 30 + i, 'd': 40 + i, 's': 50 + i}


def async_choices(i, timeouts=(8,)):
    """(async script, timeout) pairs for block i; completion times are = 1+i (mod 8 s) or exactly the timeout"""
    v = _vals(i)['a']
    out = [(['none'], 0)]
    for t in timeouts:
        T = t * SEC
        out += [(['ret', v, 0], T), (['ret', v, (1 + i) * SEC], T), (['ret', v, T], T),
                (['ret', v, T + (1 + i) * SEC], T), (['fail', (1 + i) * SEC], T), (['fail', T], T), (['never'], T)]
    out += [(['ret', v, (1 + i) * SEC], 0), (['never'], -SEC)]
    return out


def single_block_scenarios():
    v = _vals(0)
    for persist in (['none'], ['val', v['p'], 'set'], ['val', v['p'], 'ev'], ['raise'], ['val', None, 'set'],
                    ['val', 0, 'ev']):
        for asy, T in async_choices(0):
            for regular in (['none'], ['set', v['r']], ['ev', v['r']], ['raise']):
                for initdef, how in ((None, 'set'), (v['d'], 'set'), (v['d'], 'ev')):
                    for dests in ([], [0]):
                        yield {'blocks': [{'persist': persist, 'async': asy, 'timeout': T, 'regular': regular,
                                           'initdef': initdef, 'idef_how': how, 'dests': dests}]}


def profiles(i):
    v = _vals(i)
    T = 8 * SEC
    return [
        {},
        {'initdef': v['d']},
        {'initdef': v['d'], 'idef_how': 'ev'},
        {'regular': ['set', v['r']]},
        {'regular': ['ev', v['r']], 'initdef': v['d']},
        {'regular': ['raise'], 'initdef': v['d']},
        {'persist': ['val', v['p'], 'set'], 'regular': ['set', v['r']]},
        {'persist': ['val', v['p'], 'ev'], 'initdef': v['d']},
        {'persist': ['raise'], 'regular': ['set', 7]},
        {'async': ['ret', v['a'], (1 + i) * SEC], 'timeout': T},
        {'async': ['never'], 'timeout': T, 'initdef': 7},
        {'async': ['ret', v['a'], T + (1 + i) * SEC], 'timeout': T, 'regular': ['set', v['r']]},
        {'async': ['fail', (1 + i) * SEC], 'timeout': 2 * T, 'initdef': v['d'], 'idef_how': 'ev'},
        {'async': ['ret', v['a'], 2 * T + (1 + i) * SEC], 'timeout': 2 * T},
    ]


def two_block_scenarios(rng, fraction):
    subsets = [[], [0], [1], [0, 1]]
    for p0 in profiles(0):
        for p1 in profiles(1):
            for d0 in subsets:
                for d1 in subsets:
                    if fraction < 1 and rng.random() >= fraction:
                        continue
                    yield {'blocks': [{**p0, 'dests': d0}, {**p1, 'dests': d1}], 'orders': [[0, 1], [1, 0]]}


def is_acyclic(blocks):
    n = len(blocks)
    edges = {i: set(normalize(b)['dests']) for i, b in enumerate(blocks)}
    state = [0] * n

    def visit(u):
        if state[u] == 1:
            return False
        if state[u] == 2:
            return True
        state[u] = 1
        ok = all(visit(w) for w in edges[u])
        state[u] = 2
        return ok
    return all(visit(u) for u in range(n))


FALSY_DEFAULTS = [0, False, '', None]


def set_initdef(b, value):
    """give block script `b` the initdef `value` (None = the Python value None, not 'absent')"""
    b['initdef'] = value
    b['idef_none'] = value is None


def random_initdef(rng, b, truthy, p_given, p_falsy):
    if rng.random() < p_given:
        set_initdef(b, rng.choice(FALSY_DEFAULTS) if rng.random() < p_falsy else truthy)


def random_block(rng, i, n, tie_ok):
    v = _vals(i)
    if rng.random() < 0.15:
        v = {k: 7 for k in v}       # equal values: `previous == value` suppresses the output event
    kind = rng.choices(['probe', 'input', 'initasync', 'valuepoll'], [0.62, 0.14, 0.12, 0.12])[0]
    b = {'kind': kind}
    tsec = rng.choice([8, 8, 16, 24])
    T = tsec * SEC
    r = rng.random()
    if kind == 'probe':
        # the saved state may be any value, None and other falsy values included
        pval = v['p'] if rng.random() < 0.7 else rng.choice(FALSY_DEFAULTS)
        b['persist'] = rng.choice([['none'], ['none'], ['val', pval, 'set'], ['val', pval, 'ev'], ['raise']])
        b['pflag'] = rng.random() < 0.3
        if r < 0.45:
            b['async'], b['timeout'] = ['none'], 0
        else:
            kinds = ['before', 'after', 'late', 'never', 'fail', 'zero', 'disabled'] + (['at'] if tie_ok else [])
            k = rng.choice(kinds)
            b['timeout'] = T
            if k == 'before':
                b['async'] = ['ret', v['a'], (1 + i) * SEC + 8 * SEC * rng.randrange(0, tsec // 8)]
            elif k == 'at':
                b['async'] = ['ret', v['a'], T] if rng.random() < 0.8 else ['fail', T]
            elif k == 'after':
                b['async'] = ['ret', v['a'], T + (1 + i) * SEC]
            elif k == 'late':
                b['async'] = ['ret', v['a'], 32 * SEC + (1 + i) * SEC]
            elif k == 'never':
                b['async'] = ['never']
            elif k == 'fail':
                b['async'] = ['fail', (1 + i) * SEC]
            elif k == 'zero':
                b['async'] = ['ret', v['a'], 0]
            else:
                b['async'], b['timeout'] = ['ret', v['a'], (1 + i) * SEC], rng.choice([0, -SEC])
        b['regular'] = rng.choice([['none'], ['none'], ['set', v['r']], ['ev', v['r']], ['raise']])
        random_initdef(rng, b, v['d'], 0.45, 0.25)
        b['idef_how'] = rng.choice(['set', 'ev'])
    elif kind == 'input':
        if rng.random() < 0.4:
            b['persist'] = ['val', v['p'] if rng.random() < 0.7 else rng.choice(FALSY_DEFAULTS)]
        b['pflag'] = rng.random() < 0.3
        random_initdef(rng, b, v['d'], 0.45, 0.25)
    elif kind == 'initasync':
        b['timeout'] = T
        b['async'] = rng.choice([['ret', v['a'], (1 + i) * SEC], ['ret', v['a'], T + (1 + i) * SEC], ['never'],
                                 ['fail', (1 + i) * SEC], ['ret', v['a'], 0]])
        # the documented default of an InitAsync: absent / truthy / each falsy value, equally likely
        random_initdef(rng, b, v['d'], 5 / 6, 4 / 5)
    else:
        b['timeout'] = T
        if r < 0.35:
            b['start'] = v['s']
        elif r < 0.8:
            b['async'] = ['ret', v['a'], (1 + i) * SEC]
        else:
            b['async'] = ['never']
        random_initdef(rng, b, v['d'], 0.4, 0.25)
    return b


def random_scenario(rng, n, perms=True):
    # at most one block may complete exactly at its deadline, and then its timeout must be unique
    tie_block = rng.randrange(n) if rng.random() < 0.35 else None
    blocks = [random_block(rng, i, n, tie_ok=(i == tie_block)) for i in range(n)]
    if tie_block is not None and normalize(blocks[tie_block])['async'][0] in ('ret', 'fail') \
            and normalize(blocks[tie_block])['async'][-1] == blocks[tie_block].get('timeout'):
        T = blocks[tie_block]['timeout']
        for i, b in enumerate(blocks):
            if i != tie_block and b.get('timeout') == T:
                b['timeout'] = T + 8 * SEC if T < 24 * SEC else 8 * SEC
                a = b.get('async')
                if a and a[0] in ('ret', 'fail') and a[-1] % (8 * SEC) == 0 and a[-1] != 0:
                    b['async'] = ['never']
    targets = [i for i, b in enumerate(blocks) if b['kind'] in ('probe', 'input')]
    density = rng.choice([0.15, 0.3, 0.5])
    acyclic = rng.random() < 0.6
    rank = list(range(n))
    rng.shuffle(rank)
    for i, b in enumerate(blocks):
        b['dests'] = [d for d in targets if rng.random() < density and (not acyclic or rank[i] < rank[d])]
    if rng.random() < 0.25 and targets:
        blocks.append({'kind': 'repeat', 'rdest': rng.choice(targets)})
    scn = {'blocks': blocks}
    if rng.random() < 0.35:
        def cblock():
            r, src = rng.random(), rng.randrange(len(blocks))
            if rng.random() < 0.25:
                src = 'const'
            if r < 0.25:
                return ['raise', src]
            if r < 0.45:
                return ['undef', src]
            if r < 0.6:
                return ['undef_later', rng.randrange(5), src]
            return ['ok', rng.randrange(5), src]
        scn['cblocks'] = [cblock() for _ in range(rng.randint(1, 2))]
    m = len(blocks)
    if perms:
        orders = [list(p) for p in itertools.permutations(range(m))]
        if len(orders) > 24:
            orders = [orders[0]] + rng.sample(orders[1:], 23)
        scn['orders'] = orders
    return scn


def fixed_scenarios():
    """a failing first evaluation pass with a waiter in wait_init(), with / without asynchronous clean-up"""
    for cleanup in (None, 'repeat', 'valuepoll'):
        for cb in (['raise', 0], ['ok', 1, 0], ['undef', 0], ['undef_later', 2, 0], ['ok', 4, 'const'],
                   ['raise', 'const']):
            blocks = [{'initdef': 1}]
            if cleanup == 'repeat':
                blocks.append({'kind': 'repeat', 'rdest': 0})
            elif cleanup == 'valuepoll':
                blocks.append({'kind': 'valuepoll', 'start': 5, 'timeout': 8 * SEC})
            yield {'blocks': blocks, 'cblocks': [cb],
                   'orders': [list(p) for p in itertools.permutations(range(len(blocks)))]}


def initasync_scenarios():
    """the real InitAsync: coroutine delivers / fails / times out / delivers too late  x  initdef absent, truthy,
    0, False, '', None  x  a destination that only the event can initialise + one with its own default;
    every creation order"""
    T = 8 * SEC
    for asy in (['ret', 21, 1 * SEC], ['fail', 1 * SEC], ['never'], ['ret', 21, T + 1 * SEC], ['fail', 0]):
        for given, value in [(False, None), (True, 41)] + [(True, x) for x in FALSY_DEFAULTS]:
            ia = {'kind': 'initasync', 'async': asy, 'timeout': T, 'dests': [1, 2]}
            if given:
                set_initdef(ia, value)
            for dest_kind in ('input', 'probe'):
                yield {'blocks': [ia, {'kind': dest_kind}, {'kind': dest_kind, 'initdef': 42}],
                       'orders': [list(p) for p in itertools.permutations(range(3))]}


def scenarios(rng, tier):
    yield from ainit_scenarios(rng, tier)
    yield from fixed_scenarios()
    yield from initasync_scenarios()
    yield from single_block_scenarios()
    if tier == 'quick':
        yield from two_block_scenarios(rng, 0.5)
        n3, n4 = 1200, 250
    else:
        yield from two_block_scenarios(rng, 1)
        n3, n4 = 30000, 6000
    for _ in range(n3):
        yield random_scenario(rng, 3 if rng.random() < 0.8 else 2)
    for _ in range(n4):
        yield random_scenario(rng, 4)


# ----------------------------------------------------------------------------- shrinking

def _drop_block(scn, k):
    blocks = scn['blocks']
    n = len(blocks)
    if n <= 1:
        return None
    for b in blocks:
        if b.get('kind') == 'repeat' and b.get('rdest') == k:
            return None
    if any(cb[-1] == k for cb in scn.get('cblocks', [])):
        return None
    ren = {i: (i if i < k else i - 1) for i in range(n) if i != k}
    nb = []
    for i, b in enumerate(blocks):
        if i == k:
            continue
        b = dict(b)
        b['dests'] = [ren[d] for d in b.get('dests', []) if d != k]
        if 'rdest' in b:
            b['rdest'] = ren[b['rdest']]
        nb.append(b)
    out = {**scn, 'blocks': nb}
    if scn.get('cblocks'):
        out['cblocks'] = [cb[:-1] + [cb[-1] if cb[-1] == 'const' else ren[cb[-1]]] for cb in scn['cblocks']]
    orders = []
    for o in scn.get('orders') or []:
        o2 = [ren[i] for i in o if i != k]
        if o2 not in orders:
            orders.append(o2)
    if orders:
        out['orders'] = orders
    return out


def shrink(scn):
    if 'ainit' in scn:
        return
    orders = all_orders(scn)
    if len(orders) > 1:
        for o in orders:
            yield {**scn, 'orders': [o]}
        if len(orders) > 2:
            yield {**scn, 'orders': orders[:2]}
            yield {**scn, 'orders': [orders[0], orders[-1]]}
    for k in reversed(range(len(scn['blocks']))):
        cand = _drop_block(scn, k)
        if cand is not None:
            yield cand
    if scn.get('cblocks'):
        for j in range(len(scn['cblocks'])):
            yield {**scn, 'cblocks': scn['cblocks'][:j] + scn['cblocks'][j + 1:]}
    for i, b in enumerate(scn['blocks']):
        for key, val in (('dests', []), ('persist', ['none']), ('async', ['none']), ('regular', ['none']),
                         ('initdef', None), ('idef_none', False), ('start', None), ('pflag', False)):
            if key in b and b[key] != val and not (key == 'async' and b.get('kind') in ('initasync', 'valuepoll')):
                nb = list(scn['blocks'])
                nb[i] = {**b, key: val}
                yield {**scn, 'blocks': nb}
        for d in b.get('dests', []):
            nb = list(scn['blocks'])
            nb[i] = {**b, 'dests': [x for x in b['dests'] if x != d]}
            yield {**scn, 'blocks': nb}
        if b.get('kind') in ('input',):
            nb = list(scn['blocks'])
            nb[i] = {**b, 'kind': 'probe', 'persist': (b.get('persist', ['none']) + ['ev'])[:3] if b.get('persist', ['none'])[0] == 'val' else ['none'],
                     'idef_how': 'ev'}
            yield {**scn, 'blocks': nb}


# ----------------------------------------------------------------------------- oracle (independent of the model)

def _closure_prediction(scn):
    """None when the scripts do not determine the outcome by the documented rules alone,
    else True/False = every block ends up initialised"""
    blocks = [normalize(b) for b in scn['blocks']]
    own, silent = [], []
    tmax = max(x['timeout'] for x in blocks)
    for b in blocks:
        if b['regular'][0] == 'raise':
            return None
        kind = b['kind']
        src = (has_idef(b) or b['start'] is not None or kind == 'repeat'
               or b['regular'][0] in ('set', 'ev') or (kind in ('probe', 'input') and b['persist'][0] == 'val'))
        a = b['async']
        if not src and a[0] == 'ret' and b['timeout'] > 0:
            if a[2] < b['timeout']:
                src = True
            elif a[2] <= tmax:
                return None     # after its own timeout, but possibly before the end of the phase
        # an InitAsync without another source ends with the output None set WITHOUT output events
        silent.append(kind == 'initasync' and not src)
        own.append(src or kind == 'initasync')
    done = set(i for i, s in enumerate(own) if s)
    changed = True
    while changed:
        changed = False
        for i in list(done):
            if silent[i]:
                continue
            for d in blocks[i]['dests']:
                if d not in done:
                    done.add(d)
                    changed = True
    return len(done) == len(blocks)


def oracle_run(scn, obs):
    out = []
    names = names_of(scn)
    log, times = obs['log'], obs['times']
    blocks = [normalize(b) for b in scn['blocks']]

    def bad(clause, what, **sig):
        out.append({'clause': clause, 'what': f"creation order {obs['order']}: {what}", 'sig': sig})

    first = {}
    for k, e in enumerate(log):
        if e[0] in ('P', 'A', 'R', 'D', 'V'):
            key = (e[0], e[1])
            if key in first and e[0] != 'V':
                bad('routine_at_most_once', f"{ {'P': '_restore_state', 'A': 'init_async', 'R': 'init_regular', 'D': 'init_from_value'}[e[0]]} "
                    f"of {e[1]} called twice")
            first.setdefault(key, k)
    for name in names:
        p, a, r, d, v = (first.get((x, name)) for x in 'PARDV')
        for x, y, txt in ((p, a, 'persistent state before init_async'), (p, r, 'persistent state before init_regular'),
                          (r, d, 'init_regular before initdef'), (a, d, None)):
            if txt and x is not None and y is not None and x > y:
                bad('source_order', f'{name}: expected {txt}; log {[e[:2] for e in log]}')
        if a is not None and r is not None and r < a and not (v is not None and v < r):
            bad('source_order', f'{name}: init_regular ran before init_async without a pending event')
    for k, e in enumerate(log):
        if e[0] == 'A' and not (e[2] and e[3]):
            bad('async_only_if', f'init_async of {e[1]} started with uninitialised={e[2]}, positive timeout={e[3]}')
        if e[0] == 'D' and not e[2]:
            bad('initdef_only_if_uninitialised', f'init_from_value of {e[1]} called on an initialised block')
        if e[0] == 'E':
            if e[3] in (0, 1):
                bad('event_runs_pending_steps_first', f'{e[1]} handled an event with init_steps_completed={e[3]}')
            elif e[3] == 2 and not (first.get(('R', e[1]), k) < k):
                bad('event_runs_pending_steps_first', f'{e[1]} handled an event before its init_regular')
    # InitAsync (docs/sblocks1.rst): if the coroutine does not deliver, the block is initialised from its initdef --
    # whatever the value -- and the value is sent on; the output None is only for an InitAsync without initdef
    if not obs['aborted']:
        for i, b in enumerate(blocks):
            if b['kind'] != 'initasync':
                continue
            nm = names[i]
            rpos = first.get(('R', nm))
            if rpos is None or rpos >= obs['loglen']:
                continue
            delivered = any(e[0] == 'A+' and e[1] == nm for e in log[:rpos])
            dpos = first.get(('D', nm))
            expect_d = has_idef(b) and not delivered
            if (dpos is not None) != expect_d:
                bad('initasync_initdef_iff_not_delivered',
                    f"{nm}: initdef {'given: ' + repr(b['initdef']) if has_idef(b) else 'absent'}, coroutine "
                    f"{'delivered' if delivered else 'did not deliver'}, init_from_value "
                    f"{'called' if dpos is not None else 'NOT called'}", falsy_initdef=has_idef(b) and not b['initdef'])
            elif expect_d:
                want = b['initdef']
                got = obs['outs'][i]
                if not (type(got) is type(want) and got == want):
                    bad('initasync_output_is_initdef', f'{nm}: output {got!r} after a failed coroutine, initdef {want!r}')
                # (an error in one destination's pending steps ends the loop over the output events)
                for d in (b['dests'] if obs['error'] == 'none' else []):
                    arrived = next((k for k in range(dpos, len(log)) if log[k][0] == 'V' and log[k][1] == names[d]), None)
                    if arrived is None:
                        bad('initasync_initdef_is_sent', f'{nm}: no event was sent to {names[d]} with the initdef {want!r}')
                        continue
                    handled = [log[k] for k in range(arrived, len(log)) if log[k][0] == 'E' and log[k][1] == names[d]]
                    # (the destination's own pending steps run first: they may fail before the handler, and
                    # routines working through the block's own 'put' event are handled before the arrived event)
                    if handled and not any(type(h[2]) is type(want) and h[2] == want for h in handled):
                        bad('initasync_initdef_is_sent',
                            f'{nm}: {names[d]} handled {[h[2] for h in handled]!r}, not the initdef {want!r}')
    # asynchronous phase: never longer than the largest timeout, every routine gets at least its own
    started = [(e[1], times[k]) for k, e in enumerate(log) if e[0] == 'A']
    if not obs['aborted']:
        tmax = max([blocks[int(nm[1:])]['timeout'] for nm, _ in started], default=0)
        if obs['t_wait'] > tmax:
            bad('bounded_wait', f"start-up took {obs['t_wait']} us, largest init_timeout {tmax} us")
    t0 = {nm: t for nm, t in started}
    for k, e in enumerate(log):
        if e[0] == 'Ac' and e[1] in t0 and not obs['aborted']:
            T = blocks[int(e[1][1:])]['timeout']
            if times[k] - t0[e[1]] < T:
                bad('async_gets_its_timeout', f'init_async of {e[1]} cancelled after {times[k] - t0[e[1]]} us < {T} us')
    # wait_init
    undef = [n for n, o in zip(names, obs['outs']) if o is edzed.UNDEF]
    undef += [f'c{j}' for j, o in enumerate(obs['couts']) if o is edzed.UNDEF]
    raising_cb = any(cb[0] in ('raise', 'undef') for cb in scn.get('cblocks', []))
    if obs['init_done'] and any(o is edzed.UNDEF for o in obs['outs']):
        bad('init_done_only_when_all_initialised',
            f"_init_done is set although {[n for n, o in zip(names, obs['outs']) if o is edzed.UNDEF]} are uninitialised")
    refused = [e[1] for e in log[:obs['loglen']] if e[0] == 'X']
    if refused and (obs['wait'] == 'returned' or obs['error'] == 'none'):
        bad('refused_recursion_fails_startup',
            f"a recursive event to {refused[0]} was refused during the initialisation, but wait_init() "
            f"{obs['wait']} and the error is {obs['error']}")
    if obs['wait'] == 'returned':
        if undef or not obs['ready'] or obs['error'] != 'none' or obs['simtask_done']:
            bad('wait_init_ok_implies_valid',
                f"wait_init() returned normally but undefined outputs={undef}, is_ready()={obs['ready']}, "
                f"error={obs['error']} {obs['error_text'][:60]!r}", first_pass_raises=raising_cb)
    elif obs['wait'] == 'raised':
        if obs['error'] == 'none' or obs['final_error'] in ('none', 'Cancelled'):
            bad('failed_init_raises', f"wait_init() raised but the simulation has no error ({obs['error']}, {obs['final_error']})")
    else:
        bad('failed_init_raises', f"wait_init() raised {obs['wait']} instead of EdzedInvalidState")
    return out


def oracle(scn, res):
    if 'ainit' in scn:
        return oracle_ainit(scn, res)
    out = []
    for obs in res['runs']:
        out += oracle_run(scn, obs)
    verdicts = {tuple(o['order']): o['wait'] for o in res['runs']}
    if is_acyclic(scn['blocks']):
        if len(set(verdicts.values())) > 1:
            out.append({'clause': 'order_independent_success',
                        'what': f'start-up succeeds or fails depending on the creation order: {verdicts}',
                        'sig': {'raising_init_regular': any(normalize(b)['regular'][0] == 'raise'
                                                            for b in scn['blocks'])}})
        pred = _closure_prediction(scn)
        if pred is not None and not any(v['clause'] == 'wait_init_ok_implies_valid' for v in out):
            expect = pred and not any(cb[0] in ('raise', 'undef') for cb in scn.get('cblocks', []))
            for order, w in verdicts.items():
                if (w == 'returned') != expect:
                    out.append({'clause': 'success_iff_sources_reach_all_blocks',
                                'what': f'creation order {list(order)}: wait_init() {w}, but by the documented rules the '
                                        f'start-up should {"succeed" if expect else "fail"}'})
                    break
    seen, uniq = set(), []
    for v in out:
        if v['clause'] not in seen:
            seen.add(v['clause'])
            uniq.append(v)
    return uniq


# ----------------------------------------------------------------------------- constructors, the init waiter

from fractions import Fraction as _Fraction


async def _never():
    await asyncio.Event().wait()


_IACOROS = {'empty_list': [], 'empty_tuple': (), 'list1': [_never], 'tuple2': (_never, 1), 'str': 'abc',
            'empty_str': '', 'int': 5, 'none': None, 'dict': {1: 2}, 'range': range(2), 'bytes': b'x', 'set': {1}}
_INTERVALS = [None, 0, 0.0, -1, -0.5, 1, 0.5, 2, '1s', '0s', '2m', '1.5s', '0.0s']


def ainit_scenarios(rng, tier):
    for x in _INTERVALS:
        yield {'ainit': 'vpctor', 'interval': x}
    for k in _IACOROS:
        yield {'ainit': 'iactor', 'coro': k}
    vals = [None, 0, False, '', 7, 8]
    n = 40 if tier == 'quick' else 400
    for _ in range(n):
        polls = [(rng.choice(vals) if rng.random() < 0.45 else 'UNDEF', rng.random() < 0.3)
                 for _ in range(rng.randint(1, 5))]
        yield {'ainit': 'polls', 'polls': [[v, bool(c)] for v, c in polls]}


def run_ainit(scn):
    import collections.abc
    kind = scn['ainit']
    lines, trace = [], []
    obs = {}
    if kind == 'vpctor':
        x = scn['interval']
        per = edzed.utils.time_period(x)
        edzed.reset_circuit()
        try:
            edzed.ValuePoll('v', func=lambda: 1, interval=x)
            res = 'ok'
        except Exception as err:        # pylint: disable=broad-except
            res = 'err ' + type(err).__name__
        lines.append('ainit vpctor ' + ('n' if per is None else '{0.numerator}/{0.denominator}'.format(_Fraction(per))))
        trace.append(res)
        obs = {'period': per, 'res': res}
    elif kind == 'iactor':
        x = _IACOROS[scn['coro']]
        edzed.reset_circuit()
        try:
            edzed.InitAsync('i', init_coro=x)
            res = 'ok'
        except Exception as err:        # pylint: disable=broad-except
            res = 'err ' + type(err).__name__
        isseq = isinstance(x, collections.abc.Sequence)
        lines.append(f'ainit iactor {int(isseq)} {int(bool(x))}')
        trace.append(res)
        obs = {'isseq': isseq, 'nonempty': bool(x), 'res': res}
    else:
        polls = scn['polls']
        edzed.reset_circuit()
        circuit = edzed.get_circuit()
        state = {'n': 0}

        async def later(v):
            return v

        def func():
            k = state['n']
            state['n'] += 1
            if k >= len(polls):
                return edzed.UNDEF
            v, co = polls[k]
            v = edzed.UNDEF if v == 'UNDEF' else v
            return later(v) if co else v
        vp = edzed.ValuePoll('vp', func=func, interval=1, init_timeout=100, initdef=99)
        samples = []

        async def main(loop):
            simtask = asyncio.create_task(circuit.run_forever())
            for k in range(len(polls)):
                await vtime.advance_to(loop, k * SEC + SEC // 2)
                ev = vp._init_event
                samples.append((ev.is_set() if ev is not None else None, vp.output, circuit.is_ready()))
            try:
                await circuit.shutdown()
            except BaseException:       # pylint: disable=broad-except
                pass
            del simtask
        vtime.run(main)
        lines.append('ainit vpstart')
        trace.append('ok')
        for (v, co), (is_set, out, ready) in zip(polls, samples):
            lines.append(f"ainit poll {'u' if v == 'UNDEF' else _v(v)} {int(co)}")
            try:
                outs = _v(out) if out is not edzed.UNDEF else 'u'
            except ValueError:
                outs = 'unencodable'        # e.g. a coroutine object that was never awaited
            evs = '-' if is_set is None else str(int(is_set))
            trace.append(f"again ev={evs} out={outs} ready={int(bool(is_set))}")
        obs = {'samples': [(a, repr(b), c) for a, b, c in samples]}
        obs['raw'] = samples
    return {'lines': lines, 'trace': trace, 'tags': [f'ainit={kind}'], 'nontrivial': True, 'obs': obs}


def oracle_ainit(scn, res):
    """documented behaviour, independently of the model"""
    out = []
    kind = scn['ainit']
    obs = res['obs']
    if kind == 'vpctor':
        per = obs['period']
        want = 'ok' if (per is not None and per > 0) else 'err ValueError'
        if obs['res'] != want:
            out.append({'clause': 'valuepoll_interval_must_be_positive',
                        'what': f"ValuePoll(interval={scn['interval']!r}): {obs['res']}, expected {want}"})
    elif kind == 'iactor':
        want = 'err TypeError' if not obs['isseq'] else ('err ValueError' if not obs['nonempty'] else 'ok')
        if obs['res'] != want:
            out.append({'clause': 'initasync_init_coro_must_be_nonempty_sequence',
                        'what': f"InitAsync(init_coro={scn['coro']}): {obs['res']}, expected {want}"})
    else:
        # the first result other than UNDEF initialises the block and releases the waiter; UNDEF is skipped
        cur, released = edzed.UNDEF, False
        for k, ((v, _co), (is_set, o, _ready)) in enumerate(zip(scn['polls'], obs['raw'])):
            if v != 'UNDEF':
                released = True
                if cur is edzed.UNDEF or not cur == v:      # set_output: a value equal to the output changes nothing
                    cur = v
            same = (o is cur) if cur is edzed.UNDEF else (o is not edzed.UNDEF and type(o) is type(cur) and o == cur)
            if is_set != released or not same:
                out.append({'clause': 'valuepoll_poll_initialises_undef_skipped',
                            'what': f"after poll {k} ({scn['polls'][:k + 1]}): waiter set={is_set}, output {o!r}; "
                                    f"expected set={released}, output {cur!r}"})
                break
    return out
