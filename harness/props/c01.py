"""C01 -- combinational outputs agree with their inputs whenever the circuit is idle."""
import itertools

from . import simcommon
from ..runner import shrink_ops

ID = 'C01'
RULE = ("acyclic circuits of library CBlocks (Not, '_not_NAME' shortcuts, And, Or, Xor, Override, Compare, "
        "FuncBlock scripts with unpack on/off; single inputs, groups, Consts; references by object or by name; "
        "creation order independent of the topological order; reconvergent fan-out; CBlock->SBlock 'put'/'inc' "
        "event feedback to secondary SBlocks) over 1..4 Input/Counter blocks, run through the real simulator "
        "task; bursts of 1..4 external events sent back-to-back; the recorded eval_block order is replayed on "
        "the Lean model and all outputs are compared at every idle point and right after wait_init(). "
        "thorough additionally enumerates ALL topologies of <=3 And/Or/Xor/Not blocks over 2 inputs with all "
        "boolean input vectors. distinct = hash of (lines, trace); non-trivial = at least one CBlock changed "
        "its output after the first pass")
ASSUMPTIONS = [
    "FuncBlock user functions are represented by three scripts (cnt, sel, glen); arbitrary user code is not modelled",
    "Compare inputs are numeric; values are bools, small ints, None, short strings/tuples",
]
EXHAUSTIVE = {'quick': False, 'thorough': False}


def gen_random(rng, max_c=8):
    ns = rng.randint(1, 4)
    nsec = rng.randint(0, min(2, ns - 1)) if ns > 1 else 0       # secondary SBlocks (targets of feedback)
    sblocks = []
    for i in range(ns):
        if rng.random() < 0.35:
            sblocks.append({'kind': 'counter', 'init': rng.randint(-2, 3)})
        else:
            sblocks.append({'kind': 'input', 'init': rng.choice([True, False, 0, 1, 2, None, 'a'])})
        if rng.random() < 0.25:
            sblocks[-1]['sink'] = rng.choice([['every'], ['out'], ['every', 'out'], ['unk'], ['unk', 'every']])
            if i >= ns - nsec and 'unk' in sblocks[-1]['sink']:
                # a feedback target changes inside the simulator task: there the unknown event would reach the
                # simulator itself (fatal by design); only externally driven blocks get such an event
                sblocks[-1]['sink'] = ['out']
    primary = list(range(ns - nsec))
    secondary = list(range(ns - nsec, ns))
    nc = rng.randint(1, max_c)
    # a secondary SBlock may be read only by CBlocks after `first_reader`; its writers are before
    first_reader = {i: rng.randint(1, nc) for i in secondary}
    cblocks = []
    for j in range(nc):
        avail = [['s', i] for i in primary] + [['c', k] for k in range(j)]
        avail += [['s', i] for i in secondary if first_reader[i] <= j]
        numeric = [r for r in avail if r[0] == 's' and sblocks[r[1]]['kind'] == 'counter']
        numeric += [r for r in avail if r[0] == 'c' and cblocks[r[1]]['fn'] == 'f'
                    and cblocks[r[1]]['script'] in ('cnt', 'glen', 'big')]

        def ref():
            r = rng.random()
            if r < 0.12:
                return ['k', rng.choice([True, False, 0, 1, 5, None, 'x', [1, 2], []])]
            base = rng.choice(avail)
            if rng.random() < 0.2:
                return ['ns' if base[0] == 's' else 'nc', base[1]]
            return list(base)
        fn = rng.choice(['not', 'and', 'or', 'xor', 'ovr', 'cmp', 'f', 'f', 'and', 'xor'])
        if fn == 'cmp' and not numeric:
            fn = 'xor'
        cb = {'fn': fn, 'byname': rng.random() < 0.5}
        if fn == 'not':
            cb['pos'] = [ref()]
        elif fn in ('and', 'or', 'xor'):
            cb['pos'] = [ref() for _ in range(rng.choice([0, 1, 2, 2, 3, 3]))] or [ref()]
            if rng.random() < 0.1:
                cb['pos'] = [ref()]
        elif fn == 'ovr':
            cb['null'] = rng.choice([None, 0, False, 'x'])
            cb['named'] = {'input': ref(), 'override': ref()}
        elif fn == 'cmp':
            lo = rng.randint(-2, 3)
            cb['low'], cb['high'] = lo, lo + rng.choice([0, 1, 2, 0.5])
            cb['pos'] = [list(rng.choice(numeric))]
        else:
            cb['script'] = rng.choice(['cnt', 'sel', 'glen', 'big'])
            cb['unpack'] = rng.random() < 0.5
            if cb['script'] in ('cnt', 'big'):
                cb['pos'] = [ref() for _ in range(rng.randint(1, 3))]
            elif cb['script'] == 'sel':
                cb['named'] = {'c': ref(), 'x': ref(), 'y': ref()}
                if rng.random() < 0.3:
                    cb['pos'] = [ref()]
            else:
                cb['groups'] = {'g': [ref() for _ in range(rng.randint(0, 3))]}
                cb['pos'] = [ref() for _ in range(rng.randint(0, 2))]
        # feedback events to secondary SBlocks that are read only later
        evs = []
        for i in secondary:
            if j < first_reader[i] and rng.random() < 0.4:
                kind = sblocks[i]['kind']
                if kind == 'counter':
                    evs.append([i, 'inc'])
                else:
                    evs.append([i, 'put'])
        if evs:
            cb['events'] = evs
        cblocks.append(cb)
    order = list(range(nc))
    rng.shuffle(order)
    # a block created before a block it references by object must use names
    seen = set()
    for j in order:
        cb = cblocks[j]
        refs = list(cb.get('pos', [])) + list(cb.get('named', {}).values()) + [r for g in cb.get('groups', {}).values() for r in g]
        if any(r[0] == 'c' and r[1] not in seen for r in refs):
            cb['byname'] = True
        seen.add(j)
    bursts = []
    for _ in range(rng.randint(1, 6)):
        burst = []
        for _ in range(rng.randint(1, 4)):
            i = rng.choice(primary)
            if sblocks[i]['kind'] == 'counter':
                burst.append([i, 'inc'] if rng.random() < 0.7 else [i, 'put', rng.randint(-3, 4)])
            else:
                burst.append([i, 'put', rng.choice([True, False, 0, 1, 2, None, 'a', ''])])
        bursts.append(burst)
    return {'sblocks': sblocks, 'cblocks': cblocks, 'order': order, 'bursts': bursts}


def topologies(maxc):
    """all circuits of <= maxc Not/And/Or/Xor blocks over two Input blocks"""
    def block_choices(j):
        srcs = [['s', 0], ['s', 1]] + [['c', k] for k in range(j)]
        out = [{'fn': 'not', 'pos': [s]} for s in srcs]
        for fn in ('and', 'or', 'xor'):
            for a, b in itertools.combinations_with_replacement(srcs, 2):
                out.append({'fn': fn, 'pos': [a, b]})
        return out
    for n in range(1, maxc + 1):
        for combo in itertools.product(*[block_choices(j) for j in range(n)]):
            yield [dict(c) for c in combo]


# walk through all four boolean vectors, with single and double changes per burst
VECTOR_BURSTS = [
    [[0, 'put', True]], [[1, 'put', True]], [[0, 'put', False], [1, 'put', False]],
    [[0, 'put', True], [1, 'put', True]], [[0, 'put', False]], [[0, 'put', True], [0, 'put', False], [1, 'put', False]],
]


CTOR_VALUES = [-2, -1, 0, 1, 2, 0.5, 1.5, 3]


def ctor_scenarios(rng, tier):
    """constructor calls: Compare(low, high) over a grid incl. low == high and high < low, FuncBlock with
    unpack given / omitted, Override with null_value given / omitted"""
    ctors = [['cmp', lo, hi] for lo in CTOR_VALUES for hi in CTOR_VALUES]
    ctors += [['func', sc, u] for sc in ('cnt', 'sel', 'glen', 'big') for u in (None, True, False)]
    ctors += [['ovr']] + [['ovr', v] for v in (None, 0, False, 'x', 1, '', [1, 2])]
    rng.shuffle(ctors)
    for i in range(0, len(ctors), 12):
        yield {'ctors': ctors[i:i + 12]}


def scenarios(rng, tier):
    yield from ctor_scenarios(rng, tier)
    if tier == 'quick':
        topo = list(topologies(2)) + rng.sample(list(topologies(3)), 300)
        nrandom = 2000
    else:
        topo = list(topologies(3))
        nrandom = 40000
    for cbs in topo:
        yield {'sblocks': [{'kind': 'input', 'init': False}, {'kind': 'input', 'init': False}],
               'cblocks': cbs, 'bursts': VECTOR_BURSTS}
    for k in range(nrandom):
        yield gen_random(rng, max_c=8 if k % 4 else 12)


def shrink(scn):
    if 'ctors' in scn:
        yield from shrink_ops(scn, 'ctors')
        return
    yield from shrink_ops(scn, 'bursts')
    for bi, b in enumerate(scn['bursts']):
        for cand in shrink_ops({'ops': b}):
            nb = list(scn['bursts'])
            nb[bi] = cand['ops']
            if cand['ops']:
                yield {**scn, 'bursts': nb}
    # drop the last CBlock if nothing refers to it
    n = len(scn['cblocks'])
    if n > 1:
        last = n - 1
        used = any(r[0] in ('c', 'nc') and r[1] == last
                   for cb in scn['cblocks']
                   for r in list(cb.get('pos', [])) + list(cb.get('named', {}).values())
                   + [x for g in cb.get('groups', {}).values() for x in g])
        if not used:
            yield {**scn, 'cblocks': scn['cblocks'][:-1], 'order': [j for j in scn.get('order', range(n)) if j != last]}


def run_ctors(scn):
    import edzed
    from fractions import Fraction
    from ..enc import enc
    lines, trace, results = [], [], []

    def rat(x):
        f = Fraction(x)
        return f'{f.numerator}/{f.denominator}'
    for k, c in enumerate(scn['ctors']):
        edzed.reset_circuit()
        name = f'blk{k}'
        try:
            if c[0] == 'cmp':
                lines.append(f'sim ctor cmp {rat(c[1])} {rat(c[2])}')
                blk = edzed.Compare(name, low=c[1], high=c[2])
                got = f'ok cmp~{rat(blk._low)}~{rat(blk._high)}'
            elif c[0] == 'func':
                lines.append(f"sim ctor func {c[1]} {'-' if c[2] is None else int(c[2])}")
                kw = {} if c[2] is None else {'unpack': c[2]}
                blk = edzed.FuncBlock(name, func=simcommon.FUNCS[(c[1], True)], **kw)
                got = f"ok f~{c[1]}~{1 if blk._unpack is True else 0 if blk._unpack is False else '?'}"
            else:
                v = tuple(c[1]) if len(c) > 1 and isinstance(c[1], list) else (c[1] if len(c) > 1 else None)
                lines.append('sim ctor ovr ' + ('-' if len(c) == 1 else enc(v)))
                blk = edzed.Override(name, **({} if len(c) == 1 else {'null_value': v}))
                got = 'ok ovr~' + enc(blk._null)
        except ValueError:
            got = 'err ValueError'
        trace.append(got)
        results.append(got)
    edzed.reset_circuit()
    return {'lines': lines, 'trace': trace, 'ctor_results': results, 'nontrivial': True,
            'tags': ['constructors'], 'error': None, 'unstable': False}


def ctor_oracle(scn, res):
    """documented: Compare needs low <= high (ValueError otherwise); unpack defaults to True; null_value to None"""
    out = []
    for c, got in zip(scn['ctors'], res['ctor_results']):
        if c[0] == 'cmp':
            if (c[2] < c[1]) != (got == 'err ValueError'):
                out.append({'clause': 'compare_constructor', 'what': f'Compare(low={c[1]}, high={c[2]}): {got}'})
        elif c[0] == 'func':
            want = 1 if c[2] is None else int(c[2])
            if not got.endswith(f'~{want}'):
                out.append({'clause': 'funcblock_constructor', 'what': f'FuncBlock(unpack={c[2]}): {got}'})
        elif len(c) == 1 and got != 'ok ovr~n':
            out.append({'clause': 'override_constructor', 'what': f'Override(): {got}'})
    return out


def run_impl(scn):
    if 'ctors' in scn:
        return run_ctors(scn)
    res = simcommon.run(scn)
    first_idle = next((i for i, t in enumerate(res['trace']) if t.startswith('idle')), None)
    changed_later = first_idle is not None and any(t.startswith('ev 1') for t in res['trace'][first_idle:])
    res['nontrivial'] = changed_later
    fns = sorted({cb['fn'] for cb in scn['cblocks']})
    res['tags'] = [f'ncblocks={len(scn["cblocks"])}', f'nsblocks={len(scn["sblocks"])}'] + [f'fn={f}' for f in fns]
    if any(cb.get('events') for cb in scn['cblocks']):
        res['tags'].append('feedback')
    if any(len(b) > 1 for b in scn.get('bursts', [])):
        res['tags'].append('multi-change-burst')
    return res


def oracle(scn, res):
    if 'ctors' in scn:
        return ctor_oracle(scn, res)
    out = []
    if res['error'] or res['unstable']:
        out.append({'clause': 'acyclic_circuit_runs', 'what': f"simulation of an acyclic circuit failed: "
                    f"{res['error'] or 'instability'}"})
        return out
    if len(res['idle_points']) != 1 + len(scn.get('bursts', [])):
        out.append({'clause': 'idle_reached', 'what': f"{len(res['idle_points'])} idle points for "
                    f"{len(scn.get('bursts', []))} bursts"})
    for k, outs in enumerate(res['idle_points']):
        bad = simcommon.consistency_violations(scn, outs)
        if bad:
            out.append({'clause': 'idle_consistent' if k else 'consistent_after_wait_init',
                        'what': f'idle point {k}: ' + '; '.join(bad[:3])})
            break
    return out
