"""C02 -- output events reproduce the source block's output history exactly.

Correspondence with lean/EdzedModel/Output.lean (setOutput / evalBlock / Ev.send) + an
independent oracle that recomputes the expected deliveries from the list of assigned values.

Everything observable goes into ONE log in the order in which it happens:
  begin (an assignment starts) / q (sender put into circuit.sblock_queue) / f, fr (a filter is
  called with ..., left ...) / d (a destination handler got an event) / end (assignment returned).
Records outside a begin..end pair are 'stray' (delivery not synchronous).
"""
from collections import ChainMap, UserDict
from collections.abc import MutableMapping
import ast
from fractions import Fraction
import itertools
import math

import edzed

from .. import vtime
from ..enc import enc as _enc0, enc_data as _enc_data0
from ..simrun import Sim

ID = 'C02'
RULE = ("a sender block (custom SBlock calling set_output from its init, from an event handler or directly; "
        "a FuncBlock evaluated by the real simulator task, its function returning the next value of the "
        "sequence; or an FSM: InputExp (puts of equal/different values, expiry on the virtual clock), Timer (start/"
        "stop/toggle, re-triggering, restartable or not, timed transitions) and a generic FSM whose states share "
        "outputs 1/True/1.0, with a state leaving the output alone and a chained transition -- every accepted "
        "top-level transition, recorded in-process independently of set_output, is one assignment of calc_output()) with 0..3 on_output and 0..3 on_every_output events (given as None / single Event / list / "
        "tuple) to 4 recording SBlocks, with and without filter pipelines built from scripts (accept, reject, "
        "set/delete/copy a key -- returning the dict, a new mapping (dict / UserDict / ChainMap) or mutating in "
        "place --, accept-if-truthy, not-from-UNDEF, clear (d.clear() / return {} / delete every key: an EMPTY "
        "mapping is data, not a rejection), replace by a new mapping of any size; 648 fixed scenarios with "
        "pipelines whose result is empty/replaced); value sequences over 1/True/1.0/0/None/()/(1,)/'a' and further ints, floats, bools, "
        "strings, tuples, lists and UNDEF (refused). quick: ALL sequences of length 4 (hence all shorter ones as "
        "prefixes) over the 6 values {1,True,1.0,0,None,()} x all fan-outs (0..3 x 0..3 for SBlocks, 0..3 for "
        "CBlocks) without filters + 3000 random scenarios (length <= 60, filters, shared destinations); thorough: "
        "length 5 for all fan-outs, length 6 for 3 fan-out shapes, + 40000 random scenarios up to length 200. "
        "NaN: all sequences of length 4 (5) over {the same NaN object, a new NaN object, 1, 1.0} on SBlock/FuncBlock/"
        "InputExp senders; persistent Input/Counter/InputExp/Timer run TWICE over the same storage (the restored "
        "output of the second run is the first assignment of that run). "
        "formatting stress: every ordered pair (v, w) of {(), (1,2), ('a',), ('%s',1), '%s', '%', '%(name)s', '{0}', "
        "3000-char string, nested tuples, dicts, 1} as v, v, w, w, v on S (0/2 on_every_output events) and C senders, "
        "InputExp and persistent Input. Exceptions of the code under test are outcomes (err <Class> [aborted]), never "
        "harness errors. "
        "item names: filters put etype / self / data / source / value / args / kwargs / dest / cls / event into the data, "
        "destinations p0,p1 plain SBlocks, p2,p3 with the persistence add-on; repeated events: the same Event object "
        "listed 2-3 times in one or both arguments (and new equal-looking objects as a control) for S, C and Timer "
        "senders; acts are identified by the event type that is unique per Event object, positions by their order. "
        "distinct = hash of (lines, trace); non-trivial = at least one event reached a destination")
ASSUMPTIONS = [
    "destinations accept every event and never make the sender assign again while they are served "
    "(re-entrant destinations are excluded, DESIGN.md section 6)",
    "filters are the scripted ones; they return a MutableMapping (dict, UserDict, ChainMap; any size) with string keys or a non-mapping value",
    "values: None, bools, ints, floats (exact rationals), strings, flat tuples/lists of these; "
    "no objects with a user-defined __eq__; float NaN at top level only (the same object repeatedly and new objects)",
    "UNDEF as an assigned value is exercised on the sequential sender with a direct set_output call only",
    "nested tuples and dicts travel as reserved strings carrying their repr (equal iff same repr within the pools); "
    "the scripted filters and the recording destinations never raise: any exception comes from the code under test",
]
EXHAUSTIVE = {'quick': False, 'thorough': False}

UNDEF = edzed.UNDEF
SIX = ['i1', 'b1', 'f1/1', 'i0', 'n', 't[]']
MORE = SIX + ['t[i1]', 's61', 'b0', 'f0/1', 't[b1]', 't[f1/1]', 'i2', 's', 'f1/2', 'l[]', 'l[i1]',
              't[i1,i2]', 's62', 'i-1', 't[n]', 'nan', 'nan!']
# values that stress string formatting / repr / comparison of the code that handles an assignment
FMT = ['t[]', 't[i1,i2]', 't[s61]', 't[s2573,i1]', 's2573', 's25', 's25286e616d652973', 's7b307d', 's' + '61' * 3000,
       'o:((1, 2), 3)', "o:(1, (2, 'x'))", "o:{'a': 1}", "o:{'a': (1, 2), 'b': '%s'}", 'i1']
NANS = ['nan', 'nan', 'nan!', 'f1/1', 'i1', 'n']      # NaN: the same object repeatedly / a new one / others
NPROBES = 4

LOG = []
CTX = {'sender': None}

# float NaN: the one value that is not equal to itself.  The model carries it as a reserved value
# (lean/EdzedModel/Output.lean `nanVal`), the wire format is the encoding of that reserved string.
NAN = math.nan                  # ONE object, like a module level "no valid measurement" constant
NAN_CARRIER = '\x00NaN'


OBJ_CARRIER = '\x00obj:'
_ATOMS = (type(None), bool, int, float, str)


def _carrier(v):
    """values outside the model's flat domain travel as reserved strings: float NaN, and nested tuples / dicts
    (carried as their repr: in the pools below two such values are equal iff their reprs are equal, and all
    of them are true values like the non-empty carrier string)"""
    if isinstance(v, float) and v != v:
        return NAN_CARRIER
    if isinstance(v, dict) or (isinstance(v, (tuple, list)) and not all(isinstance(x, _ATOMS) for x in v)):
        return OBJ_CARRIER + repr(v)
    return v


def enc(v):
    return _enc0(_carrier(v))


def enc_data(d):
    return _enc_data0({k: _carrier(v) for k, v in d.items()})


# ---------------------------------------------------------------- values

def dec_atom(s):
    if s == 'n':
        return None
    if s == 'b0':
        return False
    if s == 'b1':
        return True
    if s[0] == 'i':
        return int(s[1:])
    if s[0] == 'f':
        num, den = s[1:].split('/')
        return float(Fraction(int(num), int(den)))
    if s[0] == 's':
        return bytes.fromhex(s[1:]).decode('utf-8')
    raise ValueError(s)


def dec(s):
    """wire string -> a NEW Python object (equal values are not identical where Python allows)"""
    if s == 'u':
        return UNDEF
    if s == 'nan':
        return NAN                  # the very same object every time
    if s == 'nan!':
        return float('nan')         # a new NaN object every time
    if s[:2] == 'o:':
        return ast.literal_eval(s[2:])      # nested tuple / dict, a new object every time
    if s[0] in 'tl' and s[1:2] == '[':
        body = s[2:-1]
        items = [dec_atom(x) for x in body.split(',')] if body else []
        return tuple(items) if s[0] == 't' else items
    return dec_atom(s)


def same(a, b):
    """equal AND of the same types throughout (1 / True / 1.0 are different)"""
    return enc(a) == enc(b)


def same_data(a, b):
    return a is not None and b is not None and enc_data(a) == enc_data(b)


# ---------------------------------------------------------------- instrumented blocks

class Probe(edzed.SBlock):
    """destination: records type, data and the sender's output at the time of the delivery"""

    def init_regular(self):
        self.set_output(None)

    def _event(self, etype, data):
        sender = CTX['sender']
        LOG.append(('d', self.name, etype, dict(data), sender._output if sender is not None else None))
        return None


class PProbe(edzed.AddonPersistence, Probe):
    """the same destination with the persistence add-on in front: its `event` wraps SBlock.event"""

    def get_state(self):
        return None

    def _restore_state(self, state):
        pass


def _hook_queue(circuit):
    q = circuit.sblock_queue
    if getattr(q, '_c02_hooked', False):
        return
    orig = q.put_nowait

    def put_nowait(blk):
        if blk is CTX['sender']:
            LOG.append(('q',))
        return orig(blk)
    q.put_nowait = put_nowait
    q._c02_hooked = True


class Marked:
    """mixin: every set_output call is bracketed by begin/end markers"""

    def set_output(self, value):
        _hook_queue(self.circuit)
        LOG.append(('begin', value, self._output))
        exc = None
        try:
            super().set_output(value)
        except Exception as err:
            exc = err
            raise
        finally:
            LOG.append(('end', self._output, None, exc))


class Src(Marked, edzed.SBlock):
    """sequential sender assigning from its init, from an event handler or on direct calls"""

    def __init__(self, *args, first, **kwargs):
        self._first = first
        super().__init__(*args, **kwargs)

    def init_regular(self):
        self.set_output(self._first)

    def _event_set(self, *, value, **_data):
        self.set_output(value)


# ---- FSM based senders: every accepted top-level transition of an FSM is ONE output assignment
#      (value = calc_output() of the state reached), whether the value changed or not

def mark(blk):
    """bracket the set_output calls of a LIBRARY FSM instance with begin/end markers.
    (Not by subclassing: FSM.__init_subclass__ collects cond_/enter_/exit_ methods from vars(cls) only,
    a subclass of InputExp / Timer silently loses cond_put / cond_start / cond_stop.)"""
    cls = type(blk)

    def set_output(value):
        _hook_queue(blk.circuit)
        LOG.append(('begin', value, blk._output))
        exc = None
        try:
            cls.set_output(blk, value)
        except Exception as err:
            exc = err
            raise
        finally:
            LOG.append(('end', blk._output, None, exc))
    blk.set_output = set_output
    return blk


GEN_OUT = {'a': 'i1', 'b': 'b1', 'c': 'i0', 'd': 'f1/1', 'e': 'i1', 'h': 's68', 'u': 'u'}


class MGen(Marked, edzed.FSM):
    """generic FSM: several states share an output (1 / True / 1.0 / 1), state `u` leaves the output
    alone (calc_output -> UNDEF), entering `h` chains on to `a` (one assignment for the whole chain)"""
    STATES = ['a', 'b', 'c', 'd', 'e', 'h', 'u']
    EVENTS = [
        ('next', 'a', 'b'), ('next', 'b', 'c'), ('next', 'c', 'd'), ('next', 'd', 'e'), ('next', 'e', 'a'),
        ('next', 'u', 'a'),
        ('toA', None, 'a'), ('toB', None, 'b'), ('toE', None, 'e'), ('toU', None, 'u'), ('hop', None, 'h'),
        ('onlyA', 'a', 'c'),
        ('guarded', None, 'd'),
    ]

    def cond_guarded(self):
        return self._state in ('a', 'b')

    def enter_h(self):
        self.event('toA')

    def calc_output(self):
        return dec(GEN_OUT[self._state])


GEN_EVENTS = ['next', 'toA', 'toB', 'toE', 'toU', 'hop', 'onlyA', 'guarded']

_orig_ctx_event = edzed.FSM._ctx_event


def _ctx_event(self, etype, data):
    """records every top-level transition of the sender: accepted or not, the state reached and
    the value calc_output() gives for it -- independently of set_output being called"""
    if self is not CTX['sender'] or self._fsm_event_active:
        return _orig_ctx_event(self, etype, data)
    LOG.append(('tbegin', self._output, self._state))
    ok, exc = None, None
    try:
        ok = _orig_ctx_event(self, etype, data)
        return ok
    except Exception as err:
        exc = err
        raise
    finally:
        val = UNDEF
        if ok and exc is None:
            val = self.calc_output()
        LOG.append(('tend', bool(ok), val, self._state, self._output, exc))


edzed.FSM._ctx_event = _ctx_event           # process-local wrapper


_orig_eval_block = edzed.CBlock.eval_block


def _eval_block(self):
    if self is not CTX['sender']:
        return _orig_eval_block(self)
    LOG.append(('begin', None, self._output))
    exc, changed = None, None
    try:
        changed = _orig_eval_block(self)
        return changed
    except Exception as err:
        exc = err
        raise
    finally:
        LOG.append(('end', self._output, changed, exc))


edzed.CBlock.eval_block = _eval_block       # process-local wrapper


# ---------------------------------------------------------------- filters from scripts

def _wrap(mapping, mode):
    """a NEW mapping returned by a filter: dict / UserDict / ChainMap ("a dict, precisely a MutableMapping")"""
    kind = (mode // 3) % 3
    if kind == 1:
        return UserDict(mapping)
    if kind == 2:
        return ChainMap(mapping)
    return mapping


def make_filter(script, mode, tag, fidx):
    op = script[0]

    def edit(d):
        if op == 'S':
            d[script[1]] = dec(script[2])
        elif op == 'D':
            d.pop(script[1], None)
        elif op == 'C':
            if script[1] in d:
                d[script[2]] = d[script[1]]

    def body(d):
        if op == 'A':
            return (True, 1, 'yes')[mode % 3]
        if op == 'R':
            return (False, None, 0)[mode % 3]
        if op == 'T':
            ret = d.get(script[1])      # the item itself is the verdict -- unless it is a dict VALUE, which
            return bool(ret) if isinstance(ret, MutableMapping) else ret    # Event.send would take for new data
        if op == 'U':
            return d.get(script[1]) is not UNDEF
        if op == 'M':               # a new mapping of any size replaces the data
            return _wrap({k: dec(v) for k, v in script[1].items()}, mode)
        if op == 'X':               # an EMPTY mapping is still a mapping
            how = mode % 4
            if how == 0:
                d.clear()
                return d
            if how == 1:
                return _wrap({}, mode)
            if how == 2:
                for k in list(d):
                    del d[k]
                return d
            d.clear()
            return True
        if mode % 3 == 0:           # edit in place, return the dict
            edit(d)
            return d
        if mode % 3 == 1:           # edit in place, return a true value
            edit(d)
            return True
        new = dict(d)               # leave the argument alone, return a new mapping
        edit(new)
        return _wrap(new, mode)

    def efilter(d):
        LOG.append(('f', tag, fidx, dict(d)))
        ret = body(d)
        if isinstance(ret, MutableMapping):     # docs: the returned mapping becomes the event data
            left = dict(ret)
        elif ret:
            left = dict(d)
        else:
            left = None
        LOG.append(('fr', tag, fidx, left))
        return ret
    efilter.__name__ = 'script_' + script[0]
    return efilter


def filt_token(script):
    if script[0] == 'M':
        return 'M~' + enc_data({k: dec(v) for k, v in script[1].items()})
    return '~'.join(script)


def resolved(scn):
    """per slot the configured events with the properties of the Event OBJECT they denote.  An event may be
    `same: [slot, i]` (the very same object as the i-th event of that slot, listed again) or `twin: [slot, i]`
    (a new, equal-looking object).  `tag` is the event type, unique per object and shared by its twins."""
    table, out = {}, {'o': [], 'e': []}
    for slot, lst in (('o', scn['on']), ('e', scn['every'] if scn['kind'] != 'C' else [])):
        for i, ev in enumerate(lst):
            ref = ev.get('same') or ev.get('twin')
            base = table.get(tuple(ref)) if ref else None
            if base is not None:
                r = dict(base, how='same' if ev.get('same') else 'twin', ref=tuple(ref))
            else:
                r = dict(ev, tag=f'{slot}{i}', how='own', ref=(slot, i))
                table[(slot, i)] = r
            out[slot].append(r)
    return out


def ev_token(ev):
    fs = '+'.join(filt_token(f) for f in ev.get('filters') or []) or '-'
    return f"p{ev['dest']}:{ev['tag']}:{fs}"


def evs_token(evs):
    return '|'.join(ev_token(e) for e in evs) or '-'


def make_events(evs, form, probes, objects):
    """`evs`: resolved events of one slot; `objects`: the Event objects made so far, by (slot, index)"""
    objs = []
    for ev in evs:
        if ev['how'] == 'same':
            objs.append(objects[ev['ref']])
            continue
        filters = [make_filter(f, ev.get('fmode', 0) + j, ev['tag'], j) for j, f in enumerate(ev.get('filters') or [])]
        dest = probes[ev['dest']]
        if ev.get('byname'):
            dest = dest.name
        if not filters:
            ef = None
        elif len(filters) == 1 and ev.get('fmode', 0) % 2 == 0:
            ef = filters[0]
        else:
            ef = filters if ev.get('fmode', 0) % 4 < 2 else tuple(filters)
        obj = edzed.Event(dest, ev['tag'], efilter=ef)
        if ev['how'] == 'own':
            objects[ev['ref']] = obj
        objs.append(obj)
    if form == 'tuple':
        return tuple(objs)
    if form == 'list':
        return list(objs)
    # 'auto': the shortest notation
    if not objs:
        return None
    if len(objs) == 1:
        return objs[0]
    return objs


# ---------------------------------------------------------------- scenarios

def mk_events(slot, n, dests=None, filters=None):
    return [{'dest': (dests[i] if dests else (i + (1 if slot == 'e' else 0)) % NPROBES),
             'filters': (filters[i] if filters else [])} for i in range(n)]


SCRIPTS = [['A'], ['R'], ['S', 'x', 'i5'], ['S', 'value', 's7a'], ['S', 'source', 's71'], ['D', 'previous'],
           ['D', 'x'], ['D', 'trigger'], ['C', 'value', 'x'], ['C', 'x', 'y'], ['C', 'previous', 'value'],
           ['T', 'value'], ['T', 'previous'], ['T', 'x'], ['U', 'previous'], ['U', 'value'], ['U', 'y'],
           ['S', 'previous', 'u'], ['S', 'x', 't[i1,n]'],
           ['S', 'etype', 's78'], ['S', 'self', 'i1'], ['C', 'value', 'etype'], ['M', {'etype': 's79', 'data': 'n'}],
           ['X'], ['X'], ['M', {}], ['M', {'value': 'i7'}], ['M', {'k': 'n', 'z': 't[i1]'}],
           ['D', 'value'], ['D', 'source']]

# pipelines whose result is an EMPTY (or a replaced) mapping: delivered, never a rejection
EMPTY_PIPES = [
    [['X']], [['M', {}]], [['D', 'trigger'], ['D', 'previous'], ['D', 'value'], ['D', 'source']],
    [['X'], ['S', 'a', 'i1']], [['M', {}], ['A']], [['S', 'x', 'i5'], ['X']], [['M', {'value': 'i7'}], ['T', 'value']],
    [['X'], ['T', 'value']], [['M', {}], ['M', {'k': 'n'}]],
]


def random_scenario(rng, maxlen):
    kind = 'S' if rng.random() < 0.6 else 'C'
    non = rng.randint(0, 3)
    nev = rng.randint(0, 3) if kind == 'S' else 0

    def evs(slot, n):
        out = []
        for i in range(n):
            r = rng.random()
            if r < 0.45:
                fl = []
            else:
                fl = [list(rng.choice(SCRIPTS)) for _ in range(rng.choice([1, 1, 2, 2, 3, 4]))]
            out.append({'dest': rng.randrange(NPROBES), 'filters': fl,
                        'fmode': rng.randrange(36), 'byname': rng.random() < 0.3})
        return out
    pool = rng.choice([SIX, MORE, MORE, NANS, FMT, ['i1', 'b1', 'f1/1'], ['i0', 'b0', 'f0/1', 'n', 't[]', 's', 'l[]'],
                       ['t[i1]', 't[b1]', 't[f1/1]', 'l[i1]', 'i1']])
    n = rng.choice([1, 2, 3, 5, 8, 13, 21, maxlen]) if rng.random() < 0.8 else rng.randint(1, maxlen)
    ops = []
    for _ in range(n):
        if ops and rng.random() < 0.25:
            ops.append(rng.choice(ops[-3:]))        # repeats
        else:
            ops.append(rng.choice(pool))
    via = 'sim'
    if kind == 'S':
        via = rng.choice(['event', 'direct', 'mixed'])
        if via != 'event':
            ops = [('u' if i and rng.random() < 0.08 else v) for i, v in enumerate(ops)]
    on_l, ev_l = evs('o', non), evs('e', nev)
    for slot, lst in (('o', on_l), ('e', ev_l)):        # now and then an Event object is listed again
        for i in range(1, len(lst)):
            if rng.random() < 0.12:
                lst[i] = {'dest': 0, 'filters': [], rng.choice(['same', 'same', 'twin']): [slot, rng.randrange(i)]}
    if on_l and ev_l and rng.random() < 0.08:
        ev_l[-1] = {'dest': 0, 'filters': [], 'same': ['o', 0]}
    scn = {'kind': kind, 'on': on_l, 'every': ev_l,
           'forms': [rng.choice(['auto', 'list', 'tuple']), rng.choice(['auto', 'list', 'tuple'])],
           'via': via, 'ops': ops}
    if kind == 'C':
        scn['settle'] = [rng.random() < 0.8 for _ in ops]
    return scn


def scenarios(rng, tier):
    if tier == 'quick':
        shapes = [(4, [(a, b) for a in range(4) for b in range(4)], [a for a in range(4)])]
        nrandom, maxlen = 3000, 60
    else:
        shapes = [(5, [(a, b) for a in range(4) for b in range(4)], [a for a in range(4)]),
                  (6, [(1, 1), (2, 3)], [2])]
        nrandom, maxlen = 40000, 200
    for length, sfan, cfan in shapes:
        for seq in itertools.product(SIX, repeat=length):
            for a, b in sfan:
                yield {'kind': 'S', 'on': mk_events('o', a), 'every': mk_events('e', b),
                       'forms': ['auto', 'auto'], 'via': 'event', 'ops': list(seq)}
            for a in cfan:
                yield {'kind': 'C', 'on': mk_events('o', a), 'every': [], 'forms': ['auto', 'auto'],
                       'via': 'sim', 'ops': list(seq)}
    for pipe in EMPTY_PIPES:
        for fmode in range(36):
            ev = {'dest': fmode % NPROBES, 'filters': pipe, 'fmode': fmode}
            plain = {'dest': (fmode + 1) % NPROBES, 'filters': []}
            yield {'kind': 'S', 'on': [ev, plain], 'every': [plain, ev], 'forms': ['auto', 'auto'], 'via': 'event',
                   'ops': ['i1', 'b1', 'i0', 't[]']}
            yield {'kind': 'C', 'on': [plain, ev], 'every': [], 'forms': ['auto', 'auto'], 'via': 'sim',
                   'ops': ['i1', 'b1', 'i0', 't[]']}
    yield from keyname_fixed(tier)
    yield from repeated_fixed(tier)
    yield from fmt_fixed(tier)
    yield from nan_fixed(tier)
    yield from persist_fixed(tier)
    for k in range(nrandom // 6):
        yield persist_random(rng)
    yield from fsm_fixed(tier)
    for k in range(nrandom // 3):
        yield fsm_random(rng, 40)
    for k in range(nrandom):
        yield random_scenario(rng, maxlen)


def fmt_fixed(tier):
    """every ordered pair (v, w) of the formatting-stress values: v, v, w, w, v -- equal re-assignments (the
    "unchanged" branch, with and without on_every_output events) and changes"""
    for v, w in itertools.product(FMT, repeat=2):
        if tier == 'quick' and len(v) > 100 and len(w) > 100:
            continue
        ops = [v, v, w, w, v]
        for k, (a, b) in enumerate(((1, 0), (1, 2), (0, 1))):
            yield {'kind': 'S', 'on': mk_events('o', a), 'every': mk_events('e', b), 'forms': ['auto', 'auto'],
                   'via': ('event', 'direct', 'mixed')[(k + len(v)) % 3], 'ops': ops}
        yield {'kind': 'C', 'on': mk_events('o', 1), 'every': [], 'forms': ['auto', 'auto'], 'via': 'sim', 'ops': ops}
    for v in FMT:
        yield fsm_scenario('inputexp', {'duration': 1.0, 'expired': 'n', 'initdef': 'u'},
                           [['put', v], ['put', v], ['wait', 1500000], ['put', v]], 1, 2)
        yield persist_scenario('input', [['put', v], ['put', v]], [['put', v]], 1, 2)


# names of the parameters of every `event` implementation on the delivery path (SBlock.event, AddonPersistence.event,
# Event.send, ExtEvent.send) and other innocent-looking item names: none of them is reserved for event data
KEY_NAMES = ['etype', 'self', 'data', 'source', 'value', 'args', 'kwargs', 'dest', 'cls', 'event']


def keyname_fixed(tier):
    """event data carrying such item names, added by filters, to destinations without (p0, p1) and with
    (p2, p3) the persistence add-on, from sequential and combinational senders"""
    for key in KEY_NAMES:
        for k, pipe in enumerate(([['S', key, 's78']], [['M', {key: 'i7', 'value': 'n'}]],
                                  [['C', 'value', key], ['D', 'trigger']])):
            for dest in range(NPROBES):
                ev = {'dest': dest, 'filters': pipe, 'fmode': 3 * dest + k}
                plain = {'dest': (dest + 2) % NPROBES, 'filters': []}
                yield {'kind': 'S', 'on': [ev, plain], 'every': [plain, ev], 'forms': ['auto', 'auto'],
                       'via': ('event', 'direct')[k % 2], 'ops': ['i1', 'i1', 'i0']}
                yield {'kind': 'C', 'on': [ev, plain], 'every': [], 'forms': ['auto', 'auto'], 'via': 'sim',
                       'ops': ['i1', 'i1', 'i0']}


def repeated_fixed(tier):
    """the SAME Event object listed two or three times in on_output / on_every_output (also across the two
    arguments), and new equal-looking objects as a control: every occurrence is sent, in the configured order"""
    def A(dest=0, filters=()):
        return {'dest': dest, 'filters': [list(f) for f in filters]}
    shapes = []
    for how in ('same', 'twin'):
        def again(slot, i, how=how):
            return {'dest': 0, 'filters': [], how: [slot, i]}
        shapes += [
            ([A(), again('o', 0)], []), ([A(), A(1), again('o', 0)], []), ([A(), again('o', 0), again('o', 0)], []),
            ([A(), A(1), again('o', 1), again('o', 0)], [A(2)]),
            ([], [A(), again('e', 0)]), ([A(3)], [A(), A(1), again('e', 0)]), ([], [A(), again('e', 0), again('e', 0)]),
            ([A()], [again('o', 0)]), ([A(), again('o', 0)], [again('o', 0), A(2), again('o', 0)]),
            ([A(2, [['S', 'x', 'i5']]), again('o', 0)], [A(1, [['T', 'value']]), again('e', 0)]),
        ]
    for on, every in shapes:
        for forms in (['auto', 'auto'], ['tuple', 'list']):
            yield {'kind': 'S', 'on': on, 'every': every, 'forms': forms, 'via': 'event', 'ops': ['i1', 'b1', 'i0', 'i0']}
            if on and not any(e.get('same', e.get('twin', ['o']))[0] == 'e' for e in on):
                yield {'kind': 'C', 'on': on, 'every': [], 'forms': forms, 'via': 'sim', 'ops': ['i1', 'b1', 'i0', 'i0']}
        yield fsm_scenario('timer', {'t_on': None, 't_off': None, 'restartable': True},
                           [['ev', 'start'], ['ev', 'start'], ['ev', 'stop']], on=on, every=every)


def nan_fixed(tier):
    """all sequences over {NaN (same object), NaN (new object), 1, 1.0}: NaN after NaN is a change"""
    n = 4 if tier == 'quick' else 5
    for seq in itertools.product(['nan', 'nan!', 'i1', 'f1/1'], repeat=n):
        for a, b in ((1, 1), (2, 0), (0, 2)):
            yield {'kind': 'S', 'on': mk_events('o', a), 'every': mk_events('e', b), 'forms': ['auto', 'auto'],
                   'via': ('event', 'direct', 'mixed')[(a + len(seq)) % 3], 'ops': list(seq)}
        for a in (1, 2):
            yield {'kind': 'C', 'on': mk_events('o', a), 'every': [], 'forms': ['auto', 'auto'], 'via': 'sim',
                   'ops': list(seq)}
    for seq in itertools.product([['put', 'nan'], ['put', 'nan!'], ['put', 'i1'], ['wait', 1500000]], repeat=3):
        yield fsm_scenario('inputexp', {'duration': 1.0, 'expired': 'n', 'initdef': 'nan'}, seq)


# ---- a second run over the same persistent storage: the first assignment comes from the restored state

PERSIST_OPS = {
    'input': [['put', 'i1'], ['put', 'b1'], ['put', 'i0'], ['put', 'n'], ['put', 's61'], ['put', 'nan']],
    'counter': [['ev', 'inc'], ['ev', 'dec'], ['put', 'i5'], ['put', 'i0']],
    'inputexp': [['put', 'i1'], ['put', 'f1/1'], ['put', 'i0'], ['put', 's61']],
    'timer': [['ev', 'start'], ['ev', 'stop'], ['ev', 'toggle']],
}
PERSIST_CFG = {
    'input': {'initdef': 's64'}, 'counter': {'initdef': 3}, 'inputexp': {'initdef': 'u', 'expired': 'n'}, 'timer': {},
}


def persist_scenario(blk, ops, ops2, non=1, nev=1, on=None, every=None):
    return {'kind': 'P', 'blk': blk, 'cfg': PERSIST_CFG[blk], 'on': mk_events('o', non) if on is None else on,
            'every': mk_events('e', nev) if every is None else every, 'forms': ['auto', 'auto'], 'via': 'restore',
            'ops': [list(o) for o in ops], 'ops2': [list(o) for o in ops2]}


def persist_fixed(tier):
    n = 2 if tier == 'quick' else 3
    for blk, alpha in PERSIST_OPS.items():
        for seq in itertools.chain.from_iterable(itertools.product(alpha, repeat=k) for k in range(n + 1)):
            for a, b in ((1, 1), (1, 0), (0, 1), (2, 2)):
                yield persist_scenario(blk, seq, alpha[:1], a, b)
                if len(seq) == n:
                    yield persist_scenario(blk, seq, [], a, b)


def persist_random(rng):
    blk = rng.choice(list(PERSIST_OPS))
    alpha = PERSIST_OPS[blk]
    base = random_scenario(rng, 3)
    while base['kind'] != 'S':
        base = random_scenario(rng, 3)
    return persist_scenario(blk, [rng.choice(alpha) for _ in range(rng.randint(0, 8))],
                            [rng.choice(alpha) for _ in range(rng.randint(0, 4))], on=base['on'], every=base['every'])


def _valid(scn):
    if scn['kind'] in ('F', 'P'):
        return True
    return bool(scn['ops']) and scn['ops'][0] != 'u'


# ---- FSM based senders

TIMER_CFGS = [{'t_on': None, 't_off': None}, {'t_on': 0.5, 't_off': None}, {'t_on': 0.5, 't_off': 0.7}]
TIMER_OPS = [['ev', 'start'], ['ev', 'stop'], ['ev', 'toggle'], ['wait', 600000]]
IEXP_OPS = [['put', 'i1'], ['put', 'b1'], ['put', 'f1/1'], ['put', 'i0'], ['wait', 1500000]]


def fsm_scenario(fsm, cfg, ops, non=1, nev=1, on=None, every=None):
    return {'kind': 'F', 'fsm': fsm, 'cfg': cfg, 'on': mk_events('o', non) if on is None else on,
            'every': mk_events('e', nev) if every is None else every, 'forms': ['auto', 'auto'], 'via': fsm,
            'ops': [list(o) for o in ops]}


def fsm_fixed(tier):
    n = 4 if tier == 'quick' else 5
    for seq in itertools.product(TIMER_OPS, repeat=n):
        for cfg in TIMER_CFGS:
            for restartable in (True, False):
                yield fsm_scenario('timer', {**cfg, 'restartable': restartable}, seq)
    for seq in itertools.product(IEXP_OPS, repeat=n):
        for expired, initdef in (('n', 'u'), ('i0', 'i1'), ('b0', 'u')):
            yield fsm_scenario('inputexp', {'duration': 1.0, 'expired': expired, 'initdef': initdef}, seq)
    for seq in itertools.product([['ev', e] for e in GEN_EVENTS], repeat=n if tier == 'quick' else 4):
        yield fsm_scenario('gen', {'initdef': 'a'}, seq)


def fsm_random(rng, maxlen):
    fsm = rng.choice(['timer', 'inputexp', 'gen'])
    n = rng.choice([1, 2, 3, 5, 8, 13, maxlen])
    if fsm == 'timer':
        cfg = {**rng.choice(TIMER_CFGS), 'restartable': rng.random() < 0.6}
        ops = [rng.choice(TIMER_OPS[:3] + [['wait', rng.choice([100000, 499999, 500000, 600000, 700000, 1300000])]])
               for _ in range(n)]
    elif fsm == 'inputexp':
        cfg = {'duration': rng.choice([1.0, 0.25]), 'expired': rng.choice(['n', 'i0', 'b0', 's', 't[]']),
               'initdef': rng.choice(['u', 'i1', 'n', 't[]'])}
        pool = rng.choice([SIX, MORE, NANS, FMT, ['i1', 'b1', 'f1/1'], ['i0', 'b0', 'n', 't[]', 's']])
        ops = [(['put', rng.choice(pool)] if rng.random() < 0.8 else
                ['wait', rng.choice([100000, 249999, 250000, 600000, 1000000, 1500000])]) for _ in range(n)]
    else:
        cfg = {'initdef': rng.choice(['a', 'b', 'c', 'e', 'd'])}
        ops = [['ev', rng.choice(GEN_EVENTS)] for _ in range(n)]
    base = random_scenario(rng, 3)
    while base['kind'] != 'S':
        base = random_scenario(rng, 3)
    return fsm_scenario(fsm, cfg, ops, on=base['on'], every=base['every'] or mk_events('e', 1))


def shrink(scn):
    ops = scn['ops']
    n = len(ops)
    if n > 3:
        for cand in ({**scn, 'ops': ops[:n // 2]}, {**scn, 'ops': ops[n // 2:]}):
            if _valid(cand):
                yield cand
    for i in reversed(range(n)):
        cand = {**scn, 'ops': ops[:i] + ops[i + 1:]}
        if _valid(cand):
            yield cand
    for slot in ('on', 'every'):
        for i in reversed(range(len(scn[slot]))):
            if scn[slot][i].get('filters'):
                evs = [dict(e) for e in scn[slot]]
                evs[i]['filters'] = []
                yield {**scn, slot: evs}
        for i in reversed(range(len(scn[slot]))):
            yield {**scn, slot: scn[slot][:i] + scn[slot][i + 1:]}
    if scn['forms'] != ['auto', 'auto']:
        yield {**scn, 'forms': ['auto', 'auto']}


# ---------------------------------------------------------------- implementation run

def run_impl(scn):
    if scn['kind'] != 'P':
        return _run_once(scn, scn['ops'])
    storage = {}
    runs = [_run_once(scn, scn['ops'], storage), _run_once(scn, scn['ops2'], storage)]
    return {'lines': runs[0]['lines'] + runs[1]['lines'], 'trace': runs[0]['trace'] + runs[1]['trace'],
            'tags': runs[0]['tags'] + [t for t in runs[1]['tags'] if t.startswith('restored')],
            'nontrivial': runs[1]['nontrivial'], 'runs': runs}


def _run_once(scn, ops, storage=None):
    kind = scn['kind']
    assert _valid(scn), 'scenario needs a first value that is not UNDEF'
    name = 'f' if kind == 'C' else 's'
    del LOG[:]
    CTX['sender'] = None
    info = {}
    sim = Sim()

    def build(circuit):
        probes = [(Probe if i < 2 else PProbe)(f'p{i}') for i in range(NPROBES)]    # p2, p3: with the add-on
        res_ev, objects = resolved(scn), {}
        on = make_events(res_ev['o'], scn['forms'][0], probes, objects)
        if kind == 'S':
            every = make_events(res_ev['e'], scn['forms'][1], probes, objects)
            blk = Src(name, first=dec(ops[0]), on_output=on, on_every_output=every)
            CTX['sender'] = blk
            return blk
        if kind == 'P':
            circuit.set_persistent_data(storage)
            every = make_events(res_ev['e'], scn['forms'][1], probes, objects)
            cfg, kw = scn['cfg'], {'persistent': True, 'on_output': on, 'on_every_output': every}
            if scn['blk'] == 'input':
                blk = edzed.Input(name, initdef=dec(cfg['initdef']), **kw)
            elif scn['blk'] == 'counter':
                blk = edzed.Counter(name, initdef=cfg['initdef'], **kw)
            elif scn['blk'] == 'inputexp':
                blk = edzed.InputExp(name, duration=86400.0, expired=dec(cfg['expired']), initdef=dec(cfg['initdef']), **kw)
            else:
                blk = edzed.Timer(name, **kw)
            CTX['sender'] = mark(blk)
            return blk
        if kind == 'F':
            every = make_events(res_ev['e'], scn['forms'][1], probes, objects)
            cfg = scn['cfg']
            if scn['fsm'] == 'inputexp':
                blk = mark(edzed.InputExp(name, duration=cfg['duration'], expired=dec(cfg['expired']),
                                          initdef=dec(cfg['initdef']), on_output=on, on_every_output=every))
            elif scn['fsm'] == 'timer':
                blk = mark(edzed.Timer(name, t_on=cfg['t_on'], t_off=cfg['t_off'], restartable=cfg['restartable'],
                                       on_output=on, on_every_output=every))
            else:
                blk = MGen(name, initdef=cfg['initdef'], on_output=on, on_every_output=every)
            CTX['sender'] = blk
            return blk

        def func(n):
            v = dec(ops[n])
            LOG.append(('calc', v))
            return v
        inp = edzed.Input('n', initdef=0)
        blk = edzed.FuncBlock(name, func=func, on_output=on).connect(inp)
        CTX['sender'] = blk
        info['inp'] = inp
        return blk

    def stim(func, *args, **kwargs):
        """one stimulus; whatever the code under test raises is an OUTCOME, recorded in the log (the exception
        of an assignment is also in its begin/end record); False = the simulation is over"""
        try:
            func(*args, **kwargs)
        except Exception as err:
            LOG.append(('raised', err))
        if sim.circuit.error is not None:
            LOG.append(('aborted', sim.circuit.error))
            return False
        return True

    async def drive(sim, blk):
        LOG.append(('init_done', blk._output))
        alive = sim.circuit.error is None
        if kind == 'S':
            via = scn.get('via', 'event')
            for i, tok in enumerate(ops[1:]):
                if not alive:
                    break
                v = dec(tok)
                direct = via == 'direct' or (via == 'mixed' and i % 2 == 0) or v is UNDEF
                if direct:
                    alive = stim(blk.set_output, v)
                else:
                    alive = stim(edzed.ExtEvent(blk, 'set').send, v)
                if i % 7 == 3:
                    await vtime.settle(sim.loop)
        elif kind in ('F', 'P'):
            for op in ops:
                if not alive:
                    break
                if op[0] == 'wait':
                    await vtime.advance_to(sim.loop, sim.loop.now_us + op[1])
                    alive = stim(lambda: None)
                elif op[0] == 'put':
                    alive = stim(edzed.ExtEvent(blk, 'put').send, dec(op[1]))
                else:
                    alive = stim(edzed.ExtEvent(blk, op[1]).send)
        else:
            settle = scn.get('settle') or []
            await vtime.settle(sim.loop)
            alive = stim(lambda: None)
            for k in range(1, len(ops)):
                if not alive:
                    break
                alive = stim(edzed.ExtEvent(info['inp'], 'put').send, k)
                if k >= len(settle) or settle[k] or k == len(ops) - 1:
                    await vtime.settle(sim.loop)
                    alive = alive and stim(lambda: None)
        await vtime.settle(sim.loop)
        if alive:
            stim(lambda: None)

    ctor_exc = None
    try:
        sim.run(build, drive)
    except Exception as err:
        if CTX['sender'] is not None:
            raise
        ctor_exc = err              # the constructors refused a valid configuration: an outcome of the code under test
    finally:
        log = list(LOG)
        del LOG[:]
        sender, CTX['sender'] = CTX['sender'], None
    if ctor_exc is not None:
        res_ev = resolved(scn)
        return {'lines': [f"output reset {'C' if kind == 'C' else 'S'} {name} {evs_token(res_ev['o'])} {evs_token(res_ev['e'])}"],
                'trace': [f'err Ctor {type(ctor_exc).__name__}'], 'tags': [f'kind={kind}', 'ctor_refused'], 'nontrivial': False,
                'assignments': [], 'stray': [], 'name': name, 'final': UNDEF, 'planned': len(ops), 'transitions': 0,
                'raised': [], 'aborted': None, 'ctor_exc': ctor_exc}
    info['final'] = sender._output
    if sim.init_error is not None:
        # the initialisation failed in the code under test: an outcome, not a harness problem
        log.append(('raised', sim.init_error))
        log.append(('aborted', sim.circuit.error or sim.init_error))

    # cut the log into assignments
    assignments, stray, cur = [], [], None
    trans, ntrans = None, 0
    raised, aborted = [], None
    for rec in log:
        tag = rec[0]
        if tag in ('raised', 'aborted'):
            real = [a for a in assignments if not a.get('skip')]
            last = real[-1] if real else None
            if tag == 'aborted':
                aborted = rec[1]
                if last is not None and last.get('exc') is not None:
                    last['aborted'] = True
            elif last is None or last.get('exc') is None or not _same_exc(last['exc'], rec[1]):
                # an exception that does not come out of an assignment (UNDEF is refused with ValueError)
                raised.append(rec[1])
        elif tag == 'init_done':
            if rec[1] is not UNDEF and not [a for a in assignments if not a.get('skip')]:
                # the block has an output after its initialisation but never assigned it
                assignments.append({'value': rec[1], 'before': UNDEF, 'recs': [], 'has_value': True,
                                    'after': rec[1], 'ret': None, 'exc': None, 'phantom_init': True})
        elif tag == 'tbegin':
            trans = {'before': rec[1], 'n0': len(assignments)}
        elif tag == 'tend':
            _t, ok, val, _state, output, exc = rec
            inside = assignments[trans['n0']:] if trans is not None else []
            if exc is not None:
                if not any(a.get('exc') is not None for a in inside):
                    stray.append(('transition-raised', rec))
            elif ok and val is not UNDEF:
                ntrans += 1
                if not inside:
                    # the FSM made a transition but never assigned its output: a phantom record keeps
                    # the assignment in the history that model and oracle see
                    assignments.append({'value': val, 'before': trans['before'], 'recs': [], 'has_value': True,
                                        'after': output, 'ret': None, 'exc': None, 'phantom': True})
                elif len(inside) > 1 or not same(inside[0]['value'], val):
                    stray.append(('transition-assigned', [enc(a['value']) for a in inside], 'expected', enc(val)))
            elif inside:
                stray.append(('assignment-without-transition', [enc(a['value']) for a in inside]))
            elif ok:
                assignments.append({'skip': True})      # accepted, calc_output() is UNDEF: output left alone
            trans = None
        elif tag == 'begin':
            if kind == 'F' and trans is None:
                stray.append(('assignment-outside-transition', rec))
            if cur is not None:
                stray.append(('nested-begin', rec))
            cur = {'value': rec[1], 'before': rec[2], 'recs': [], 'has_value': kind != 'C'}
        elif tag == 'end':
            if cur is None:
                stray.append(('end-without-begin', rec))
                continue
            cur.update(after=rec[1], ret=rec[2], exc=rec[3])
            assignments.append(cur)
            cur = None
        elif cur is None:
            stray.append(('outside', rec))
            if assignments:
                assignments[-1].setdefault('late', []).append(rec)
        elif tag == 'calc':
            cur['value'] = rec[1]
            cur['has_value'] = True
        else:
            cur['recs'].append(rec)
    if cur is not None:
        stray.append(('unfinished', cur))

    res_ev = resolved(scn)
    lines = [f"output reset {'C' if kind == 'C' else 'S'} {name} {evs_token(res_ev['o'])} {evs_token(res_ev['e'])}"]
    trace = ['ok']
    ndeliv = 0
    records, assignments = assignments, [a for a in assignments if not a.get('skip')]
    for a in records:
        if a.get('skip'):
            lines.append('output fsm u')
            trace.append('skip')
            continue
        if not a['has_value']:
            raise RuntimeError('eval_block without calc_output')
        lines.append(('output fsm ' if kind == 'F' else 'output assign ') + enc(a['value']))
        if a['exc'] is not None:
            t = 'err ' + type(a['exc']).__name__ + (' aborted' if a.get('aborted') else '')
        else:
            t = f"ok {enc(a['after'])} r{'-' if kind != 'C' else int(bool(a['ret']))}"
        for rec in a['recs']:
            if rec[0] != 'fr':
                t += ' ' + act_str(rec)
            ndeliv += rec[0] == 'd'
        for rec in a.get('late', []):
            if rec[0] != 'fr':
                t += ' !late:' + act_str(rec)
        trace.append(t)
    lines.append('output out')
    trace.append(enc(info['final']))

    vals = [enc(a['value']) for a in assignments]
    eqni = any(x != y and a['value'] == b['value'] and a['value'] is not UNDEF
               for (x, a), (y, b) in zip(zip(vals, assignments), zip(vals[1:], assignments[1:])))
    nfil = sum(1 for e in scn['on'] + scn['every'] if e.get('filters'))
    n = len(ops)
    tags = [f'kind={kind}', f"fanout_on={len(scn['on'])}", f"fanout_every={len(scn['every']) if kind != 'C' else 0}",
            'filters=' + ('yes' if nfil else 'no'), f"via={scn.get('via')}",
            'len=' + ('1-4' if n <= 4 else '5-8' if n <= 8 else '9-30' if n <= 30 else '31+'),
            'equal_not_identical=' + ('yes' if eqni else 'no'),
            'undef_assigned=' + ('yes' if 'u' in vals else 'no')]
    if kind == 'F':
        unchanged = sum(1 for a in assignments if a['before'] == a['value'])
        tags += [f"fsm={scn['fsm']}", 'fsm_unchanged_transitions=' + ('yes' if unchanged else 'no')]
    nan_rep = any(a['value'] is b['value'] and a['value'] != a['value'] for a, b in zip(assignments, assignments[1:]))
    nan_any = any(a['value'] != a['value'] for a in assignments)
    tags.append('nan=' + ('same-object-repeated' if nan_rep else 'yes' if nan_any else 'no'))
    if kind == 'P':
        tags += [f"persistent={scn['blk']}"]
        if storage and any(k.endswith(f"'{name}'>") for k in storage) and ops is scn['ops2']:
            tags.append('restored_first_output=yes')
    return {'lines': lines, 'trace': trace, 'tags': tags, 'nontrivial': ndeliv > 0,
            'assignments': assignments, 'stray': stray, 'name': name, 'final': info['final'],
            'planned': len(ops), 'transitions': ntrans, 'raised': raised, 'aborted': aborted}


def _same_exc(a, b):
    """b is a, or b was raised because of a (edzed wraps handler errors, chains with __cause__/__context__)"""
    seen = 0
    while b is not None and seen < 10:
        if b is a:
            return True
        b = b.__cause__ or b.__context__
        seen += 1
    return False


def act_str(rec):
    tag = rec[0]
    if tag == 'q':
        return 'q'
    if tag == 'f':
        return f'f:{rec[1]}:{rec[2]}:{enc_data(rec[3])}'
    if tag == 'd':
        return f'd:{rec[1]}:{rec[2]}:{enc_data(rec[3])}:{enc(rec[4])}'
    return '?' + str(tag)


# ---------------------------------------------------------------- independent oracle

def _v(clause, what, **sig):
    return {'clause': clause, 'what': what, 'sig': sig}


def oracle(scn, res):
    if 'runs' not in res:
        return oracle_once(scn, res)
    first, second = res['runs']
    out_v = oracle_once(scn, first) + oracle_once(scn, second)
    if not out_v:
        # the second run starts from the state the first one saved: its first output is the restored one,
        # announced like any other first output (previous = UNDEF)
        asg = [a for a in second['assignments'] if not a.get('skip')]
        def eq(a, b):       # the saved STATE is restored: the new output equals the old one (1 may come back for 1.0)
            return a == b or (a != a and b != b)
        if not asg or asg[0]['before'] is not UNDEF or not eq(asg[0]['value'], first['final']):
            out_v.append(_v('first_output_announced',
                            f'second run over the same storage: the first run ended with the output '
                            f'{first["final"]!r}, the first assignment of the second run is '
                            f'{(asg[0]["before"], asg[0]["value"]) if asg else None!r}'))
    return out_v


def oracle_once(scn, res):
    """Recompute what the property promises from the list of assigned values alone."""
    if res.get('ctor_exc') is not None:
        return [_v('configuration_accepted', f'a valid configuration of output events (None / an Event / a sequence of '
                   f'Events, filters: callables) was refused: {res["ctor_exc"]!r:.300}')]
    out_v = []
    kind = scn['kind']
    name = res['name']
    res_ev = resolved(scn)
    on, every = res_ev['o'], res_ev['e']
    conf = {('o', i): e for i, e in enumerate(on)}
    conf.update({('e', i): e for i, e in enumerate(every)})
    asg = res['assignments']

    if res['stray'] and res['stray'][0][0] in ('transition-assigned', 'assignment-without-transition',
                                                'assignment-outside-transition', 'transition-raised'):
        out_v.append(_v('fsm_transition_is_one_assignment',
                        f'an accepted top-level FSM transition must assign calc_output() of the new state exactly '
                        f'once, other events nothing: {res["stray"][0]!r:.300}'))
    elif res['stray']:
        out_v.append(_v('synchronous_delivery',
                        f'{len(res["stray"])} record(s) outside an assignment, first: {res["stray"][0]!r:.300}'))
    if res['raised'] or (res['aborted'] is not None and not any(a.get('aborted') for a in asg)):
        out_v.append(_v('assignment_never_raises',
                        f'the block raised outside an assignment / the simulation was aborted: '
                        f'{[repr(e) for e in res["raised"]]!r:.300} aborted={res["aborted"]!r:.200}'))
    if kind == 'S' and len(asg) != res['planned'] and res['aborted'] is None:
        out_v.append(_v('synchronous_delivery', f'{res["planned"]} set_output calls, {len(asg)} completed'))

    # the history of the output, from the assigned values only
    cur = UNDEF
    changes = []            # (previous, value) of every change
    every_exp = []          # (previous, value) of every accepted assignment
    sent = {key: [] for key in conf}        # raw data of every send of each configured event
    for k, a in enumerate(asg):
        v = a['value']
        where = f'assignment #{k} ({enc(v)})'
        recs = [r for r in a['recs'] if r[0] != 'fr']
        if a.get('phantom_init'):
            out_v.append(_v('first_output_announced',
                            f'after its initialisation the block has the output {v!r} but no assignment was made '
                            f'(no set_output call): the change UNDEF -> {v!r} was not announced to its '
                            f'{len(on)} on_output / {len(every)} on_every_output event(s)'))
            break
        if k == 0 and a['before'] is not UNDEF:
            out_v.append(_v('first_output_announced', f'{where}: the first assignment of the run starts from '
                            f'{a["before"]!r}, not from UNDEF'))
            break
        if a.get('phantom') and (every or not (cur == v)):
            out_v.append(_v('every_output_one_per_assignment',
                            f'{where}: the FSM made an accepted transition to a state whose output is {v!r} but did '
                            f'not assign it (no set_output call; output before {a["before"]!r}): its '
                            f'{len(every)} on_every_output event(s) were not sent'))
            break
        if a['before'] is not cur:
            out_v.append(_v('stored_output', f'{where}: output before is {a["before"]!r}, expected the object {cur!r}'))
            break
        if v is UNDEF:
            if not isinstance(a['exc'], ValueError) or recs or a['after'] is not cur:
                out_v.append(_v('undef_refused', f'{where}: exc={a["exc"]!r}, records={recs!r:.200}, output {a["after"]!r}'))
                break
            continue
        if a['exc'] is not None:
            out_v.append(_v('assignment_never_raises',
                            f'{where}: the assignment of a value that is not UNDEF (output before: {cur!r}) raised '
                            f'{a["exc"]!r}' + ('; the simulation was aborted' if a.get('aborted') else '')
                            + f'; events sent before the exception: {len([r for r in recs if r[0] == "d"])}'))
            break
        changed = not (cur == v)
        new = v if changed else cur
        if changed:
            changes.append((cur, v))
        every_exp.append((cur, v))
        if a['after'] is not new:
            out_v.append(_v('stored_output', f'{where}: output afterwards {a["after"]!r}, expected the object {new!r}'
                            + ('' if changed else ' (an equal value keeps the stored object)')))
            break
        if kind == 'C' and bool(a['ret']) != changed:
            out_v.append(_v('enqueue_iff_changed', f'{where}: eval_block returned {a["ret"]!r}, changed={changed}'))
            break
        # enqueue: exactly when changed, before anything is sent
        nq = sum(1 for r in recs if r[0] == 'q')
        if nq != (1 if changed and kind != 'C' else 0) or (nq and recs[0][0] != 'q'):
            out_v.append(_v('enqueue_iff_changed', f'{where}: changed={changed}, queue records={nq}, '
                            f'first record {recs[0][0] if recs else None}'))
            break
        recs = [r for r in recs if r[0] != 'q']
        allr = [r for r in a['recs'] if r[0] != 'q']
        # which Event objects are used how often (a send starts with the first filter call, or is a bare delivery)
        exp_order = ([('o', i) for i in range(len(on))] if changed else []) + [('e', i) for i in range(len(every))]
        nofilt = {e['tag'] for e in on + every if not e.get('filters')}
        starts = [(r[1] if r[0] == 'f' else r[2]) for r in recs
                  if (r[0] == 'f' and r[2] == 0) or (r[0] == 'd' and r[2] in nofilt)]
        want = [conf[k]['tag'] for k in exp_order]
        if sorted(starts) != sorted(want):
            o_only = {e['tag'] for e in on} - {e['tag'] for e in every}
            e_only = {e['tag'] for e in every} - {e['tag'] for e in on}
            def count(tags, which):
                return sorted(t for t in tags if t in which)
            if count(starts, o_only) != count(want, o_only) and len(set(count(want, o_only))) == len(count(want, o_only)):
                clause = 'on_output_is_change_history'
            elif count(starts, e_only) != count(want, e_only) and len(set(count(want, e_only))) == len(count(want, e_only)):
                clause = 'every_output_one_per_assignment'
            else:
                clause = 'configured_order'
            out_v.append(_v(clause, f'{where}: changed={changed}: every configured event is sent once per trigger, an '
                            f'Event object listed k times k times: sent {starts}, configured {want}'))
            break
        if starts != want:
            out_v.append(_v('configured_order', f'{where}: order {starts}, expected {want}'))
            break
        # each event: data sent, filter pipeline, what the handler received, what it saw
        pos = 0
        bad = None
        for key in exp_order:
            ev = conf[key]
            expect_raw = {'previous': cur, 'value': v, 'source': name, 'trigger': 'output'}
            data = None
            nf = len(ev.get('filters') or [])
            rejected = False
            for j in range(nf):
                r = allr[pos] if pos < len(allr) else None
                if r is None or r[0] != 'f' or (r[1], r[2]) != (ev['tag'], j):
                    bad = _v('handler_receives_filter_output', f'{where}: event {key}: filter {j} not called in turn, got {r!r:.200}')
                    break
                inp = r[3]
                if j == 0:
                    data = inp
                    bad = _check_raw(where, key, inp, expect_raw)
                    if bad:
                        break
                    sent[key].append(inp)
                elif not same_data(inp, data):
                    bad = _v('handler_receives_filter_output', f'{where}: event {key}: filter {j} got {inp!r}, '
                             f'the previous filter left {data!r}')
                    break
                fr = allr[pos + 1] if pos + 1 < len(allr) else None
                if fr is None or fr[0] != 'fr':
                    bad = _v('handler_receives_filter_output', f'{where}: event {key}: filter {j} did not return')
                    break
                pos += 2
                data = fr[3]
                if data is None:
                    rejected = True
                    break
            if bad:
                break
            if rejected:
                continue
            r = allr[pos] if pos < len(allr) else None
            if nf and (r is None or r[0] != 'd' or r[2] != ev['tag']):
                bad = _v('handler_receives_filter_output', f'{where}: event {key}: the filters left the mapping {data!r} '
                         f'(a returned mapping of any size, also an empty one, is the new data, not a rejection) '
                         f'but the handler was not called, got {r!r:.200}')
                break
            if r is None or r[0] != 'd' or r[2] != ev['tag'] or r[1] != f"p{ev['dest']}":
                bad = _v('configured_order', f'{where}: event {key}: expected a delivery of {ev["tag"]} to '
                         f'p{ev["dest"]}, got {r!r:.200}')
                break
            pos += 1
            got = r[3]
            if nf == 0:
                bad = _check_raw(where, key, got, expect_raw)
                if bad:
                    break
                sent[key].append(got)
            elif not same_data(got, data):
                bad = _v('handler_receives_filter_output', f'{where}: event {key}: handler got {got!r}, the filters left {data!r}')
                break
            if r[4] is not new:
                bad = _v('delivery_sees_new_output', f'{where}: event {key}: the sender\'s output during the delivery '
                         f'was {r[4]!r}, expected {new!r}')
                break
        if not bad and pos != len(allr):
            bad = _v('configured_order', f'{where}: unexpected extra records {allr[pos:]!r:.300}')
        if bad:
            out_v.append(bad)
            break
        cur = new
    else:
        # whole-history statements, per configured event
        for key, ev in conf.items():
            got = [(d.get('previous'), d.get('value')) for d in sent[key]]
            exp = changes if key[0] == 'o' else every_exp
            clause = 'on_output_is_change_history' if key[0] == 'o' else 'every_output_one_per_assignment'
            if len(got) != len(exp) or any(not (g[0] is e[0] and g[1] is e[1]) for g, e in zip(got, exp)):
                out_v.append(_v(clause, f'event {key}: sent {[(enc(a), enc(b)) for a, b in got]!r:.300}, '
                                f'expected {[(enc(a), enc(b)) for a, b in exp]!r:.300}'))
                break
            if key[0] == 'o':
                if got and got[0][0] is not UNDEF:
                    out_v.append(_v('chaining', f'event {key}: first previous is {got[0][0]!r}'))
                    break
                if any(got[j + 1][0] is not got[j][1] for j in range(len(got) - 1)):
                    out_v.append(_v('chaining', f'event {key}: previous of a delivery is not the value of the one before'))
                    break
                if any(p == v for p, v in got):
                    out_v.append(_v('on_output_is_change_history', f'event {key}: an event without a change'))
                    break
        if res['final'] is not cur:
            out_v.append(_v('stored_output', f'final output {res["final"]!r}, expected {cur!r}'))
    return out_v


def _check_raw(where, key, data, expect):
    if set(data) != set(expect):
        return _v('source_and_trigger', f'{where}: event {key}: data items {sorted(data)}')
    if data['source'] != expect['source'] or data['trigger'] != 'output':
        return _v('source_and_trigger', f'{where}: event {key}: source={data["source"]!r} trigger={data["trigger"]!r}')
    if data['previous'] is not expect['previous']:
        return _v('chaining' if key[0] == 'o' else 'every_output_one_per_assignment',
                  f'{where}: event {key}: previous={data["previous"]!r}, the output before was '
                  f'{expect["previous"]!r} (expected that very object)')
    if data['value'] is not expect['value']:
        return _v('on_output_is_change_history' if key[0] == 'o' else 'every_output_one_per_assignment',
                  f'{where}: event {key}: value={data["value"]!r}, assigned was {expect["value"]!r} '
                  '(expected that very object)')
    return None
