"""C09 -- the first error stops the simulation and is the one that gets reported.

Correspondence with lean/EdzedModel/ErrorReg.lean: scripted error sources of every kind are fired
at chosen instants (several in one instant, in every order) into a REAL simulation (run_forever as a
task, or edzed.run() with supporting coroutines) on the virtual-time loop; after every source and after
every settle the caller-visible result, Circuit.is_ready() and Circuit.error are compared with the model,
at the end the exceptions out of run_forever / shutdown() / run(); the outcome of the driver's wait_init()
(awaited from before the start: ok / EdzedInvalidState / AttributeError after an abort before the start) is
compared with the model's `waitInitReply`.
"""
import asyncio
import itertools
import os
import signal

import edzed

from .. import vtime
from ..runner import shrink_ops

ID = 'C09'
RULE = ("histories of 1..3 instants with 1..3 error sources each (handler error from an external event, parameter "
        "error, unknown event, ControlBlock abort/shutdown events, abort() calls with ordinary and cancellation "
        "errors, a CBlock function raising, a CBlock whose on_output event hits a raising handler, a failing "
        "monitored block task, bare simtask.cancel(), shutdown() in a task, SIGTERM and failing/ending supporting "
        "coroutines in run() mode); the handler errors come in every exception family SBlock.event tells apart (generic, "
        "EdzedCircuitError, EdzedInvalidState, EdzedUnknownEvent and TypeError raised by the handler itself -- next to an "
        "unknown event type and wrong parameters) and on both routes (ExtEvent with a catching sender / through the "
        "simulator task); optionally abort() before the start, a failing synchronous init routine, or one that fails EARLY "
        "(reached through an event with a catching sender at the first yield of the start-up or during the async init), "
        "optionally with blocks whose async init / state restoration / stop / stop_async fail, a persistent block that "
        "is still uninitialised when the states are saved, two asynchronous clean-ups of which the one with the "
        "shorter timeout times out (all harmless); all "
        "orderings of all pairs of source kinds in one instant are enumerated (thorough: all ordered triples and quadruples in one instant and all [a],[b,c] two-instant histories as well), "
        "multi-instant histories are random; distinct = hash of (lines, trace); non-trivial = at least one fatal source fired")
ASSUMPTIONS = [
    "at most one raising evaluation is armed per instant (with two, the simulator's choice depends on set order)",
    "a second external cancellation during clean-up is excluded (DESIGN.md section 6)",
    "asyncio rules assumed by the model (FIFO wake-up order, deferred cancellation) are validated, not proved",
]
EXHAUSTIVE = {'quick': False, 'thorough': False}

IMMEDIATE = ('handlerErr', 'paramErr', 'unknownEvt', 'nestedUnknown', 'fsmSelfUnknown', 'ctrlAbort', 'ctrlShutdown',
             'abortX', 'abortC')
DEFERRED = ('armCalc', 'armCalcHandler', 'rawCancel', 'monTrigger', 'shutdownTask')
RUN_ONLY = ('supFail', 'sigterm')
# the exception families SBlock.event can tell apart: the handler's own code raises …  ('handlerErr' / 'armCalcHandler'
# without a suffix = 'g'); delivered from outside the simulator task (an ExtEvent whose sender catches) and through it
# (the on_output event of a CBlock evaluated by the simulator)
FAMILIES = {'g': RuntimeError, 'c': edzed.EdzedCircuitError, 'i': edzed.EdzedInvalidState,
            'u': edzed.EdzedUnknownEvent, 't': TypeError}
IMMEDIATE_FAM = tuple('handlerErr' + f.upper() for f in 'ciut') + ('ctrlAbortText',)
DEFERRED_FAM = tuple('armCalcHandler' + f.upper() for f in 'ciut')
FATAL = ('handlerErr', 'ctrlAbort', 'ctrlAbortText', 'ctrlShutdown', 'abortX', 'abortC', 'armCalc', 'armCalcHandler',
         'rawCancel', 'monTrigger', 'shutdownTask', 'supFail', 'sigterm')
EARLY_ID = 950


def split_kind(kind):
    """'handlerErrC' -> ('handlerErr', 'c')"""
    for base in ('handlerErr', 'armCalcHandler'):
        if kind.startswith(base):
            return base, (kind[len(base):].lower() or 'g')
    return kind, None


def is_fatal(s):
    """s: a numbered source.  A handler that raises EdzedUnknownEvent ITSELF declares the event unknown (that is how
    `_event()` reports unknown types): reported to the caller only -- unless it happens inside the simulator task,
    where every exception ends the simulation"""
    if s[0] == 'handlerErr':
        return s[2] != 'u'
    return s[0] in FATAL
NSUP = 3        # supporting coroutines in run mode: #0 is the driver, #1 and #2 can fail


def _number(instants):
    """give every source its own exception id (1, 2, ...)"""
    k = itertools.count(1)
    out = []
    for inst in instants:
        row = []
        for kind in inst:
            base, fam = split_kind(kind)
            if fam is not None:
                row.append([base, next(k), fam])
            elif kind == 'supFail':
                row.append([kind, None, next(k)])     # index assigned below
            elif kind in ('paramErr', 'unknownEvt', 'nestedUnknown', 'fsmSelfUnknown', 'ctrlShutdown', 'ctrlAbortText', 'abortC', 'rawCancel', 'shutdownTask', 'sigterm'):
                row.append([kind])
            else:
                row.append([kind, next(k)])
        out.append(row)
    sup = itertools.cycle([1, 2])
    used = set()
    for row in out:
        for s in row:
            if s[0] == 'supFail':
                i = next(sup)
                if i in used:
                    i = 3 - i
                s[1] = i
                used.add(i)
    return out


def _valid(instants, mode):
    flat = [k for inst in instants for k in inst]
    if mode != 'run' and any(k in RUN_ONLY for k in flat):
        return False
    if flat.count('fsmSelfUnknown') > 1:
        return False        # the FSM is left half-way by the first one
    if flat.count('supFail') > 2 or flat.count('rawCancel') > 1 or flat.count('sigterm') > 1:
        return False
    for inst in instants:
        if sum(1 for k in inst if k.startswith('armCalc')) > 1:
            return False
    if flat.count('armCalc') > 1 or sum(1 for k in flat if k.startswith('armCalcHandler')) > 1 or flat.count('monTrigger') > 2:
        return False
    return True


def scenarios(rng, tier):
    kinds_f = IMMEDIATE + DEFERRED
    kinds_r = kinds_f + RUN_ONLY
    # every single source, every ordered pair in one instant, in both modes
    for mode, kinds in (('forever', kinds_f), ('run', kinds_r)):
        for a in kinds:
            yield mk(mode, [[a]])
        for a, b in itertools.product(kinds, repeat=2):
            if _valid([[a, b]], mode):
                yield mk(mode, [[a, b]])
                if tier == 'thorough':
                    yield mk(mode, [[a], [b]])
    # every exception family of a handler error, alone and paired (both orders) with every other kind, both routes
    for mode, kinds in (('forever', kinds_f), ('run', kinds_r)):
        for x in IMMEDIATE_FAM + DEFERRED_FAM:
            yield mk(mode, [[x]])
            for b in kinds:
                for inst in ([x, b], [b, x]):
                    if _valid([inst], mode):
                        yield mk(mode, [inst])
    # a synchronous init routine failing EARLY: reached through an event with a catching sender at the first yield of
    # the start-up (step marker 0; forever mode only) / during the asynchronous initialisation (marker 1)
    for mode, phases in (('forever', (0, 1)), ('run', (1,))):
        for ph in phases:
            yield mk(mode, [], early_init=ph)
            yield mk(mode, [['handlerErr']], early_init=ph)
            yield mk(mode, [['abortX', 'shutdownTask']], early_init=ph)
            yield mk(mode, [], early_init=ph, harmless=['asyncinit', 'restore'])
    # start-up variants
    for mode in ('forever', 'run'):
        yield mk(mode, [], pre_abort='x')
        yield mk(mode, [], pre_abort='c')
        yield mk(mode, [], init_err=True)
        yield mk(mode, [['handlerErr']], pre_abort='x')
        yield mk(mode, [], pre_abort='x', init_err=True)
        yield mk(mode, [], init_err=True, harmless=['lateuninit'])
        yield mk(mode, [['handlerErr']], init_err=True, harmless=['lateuninit', 'twostop'])
        for h in (['asyncinit'], ['restore'], ['stop'], ['stopasync'], ['asyncinit', 'restore', 'stop', 'stopasync'],
                  ['lateuninit'], ['twostop'], ['lateuninit', 'twostop', 'restore']):
            yield mk(mode, [], harmless=h)
            yield mk(mode, [['abortX']], harmless=h)
            yield mk(mode, [['shutdownTask']], harmless=h)
            yield mk(mode, [['paramErr', 'unknownEvt']], harmless=h)
            yield mk(mode, [['handlerErr']], harmless=h)
            yield mk(mode, [['abortC']], harmless=h)
    if tier == 'thorough':
        # every ordered triple of source kinds in one instant, in both modes
        for mode, kinds in (('forever', kinds_f), ('run', kinds_r)):
            for rep in (3, 4):
                for tup in itertools.product(kinds, repeat=rep):
                    if _valid([list(tup)], mode):
                        yield mk(mode, [list(tup)])
            for a, b, c in itertools.product(kinds, repeat=3):      # two instants: [a] then [b, c]
                if _valid([[a], [b, c]], mode):
                    yield mk(mode, [[a], [b, c]])
    n = 600 if tier == 'quick' else 60000
    for _ in range(n):
        mode = rng.choice(['forever', 'run'])
        kinds = (kinds_r if mode == 'run' else kinds_f) + IMMEDIATE_FAM + DEFERRED_FAM
        for _try in range(20):
            instants = [[rng.choice(kinds) for _ in range(rng.choice([1, 2, 2, 3]))]
                        for _ in range(rng.choice([1, 2, 2, 3]))]
            if _valid(instants, mode):
                break
        else:
            continue
        harmless = [h for h in ('asyncinit', 'restore', 'stop', 'stopasync', 'lateuninit', 'twostop')
                    if rng.random() < 0.15]
        pre = rng.choice([None] * 12 + ['x', 'c'])
        init_err = rng.random() < 0.04
        early = None
        if pre is None and not init_err and rng.random() < 0.05:
            early = rng.choice([0, 1]) if mode == 'forever' else 1
        yield mk(mode, instants, pre_abort=pre, init_err=init_err, harmless=harmless, early_init=early)


def mk(mode, instants, pre_abort=None, init_err=False, harmless=(), early_init=None):
    return {'mode': mode, 'ops': _number(instants), 'pre_abort': pre_abort, 'init_err': bool(init_err),
            'harmless': list(harmless), 'early_init': early_init}


def shrink(scn):
    ops = scn['ops']
    for i in reversed(range(len(ops))):
        yield {**scn, 'ops': ops[:i] + ops[i + 1:]}
        for j in reversed(range(len(ops[i]))):
            if len(ops[i]) > 1:
                yield {**scn, 'ops': ops[:i] + [ops[i][:j] + ops[i][j + 1:]] + ops[i + 1:]}
    if scn['harmless']:
        yield {**scn, 'harmless': []}
    if scn['pre_abort']:
        yield {**scn, 'pre_abort': None}
    if scn.get('early_init') is not None:
        yield {**scn, 'early_init': None}


# ---------------------------------------------------------------- encoding of exceptions

def enc_err(e):
    if e is None:
        return '-'
    if isinstance(e, asyncio.CancelledError):
        msg = str(e.args[0]) if e.args else ''
        if msg == '':
            return 'c0'
        if msg == 'shutdown':
            return 'c1'
        if 'shutdown requested by' in msg:
            return 'c2'
        if msg.startswith('Signal'):
            return 'c4'
        return 'c?' + msg
    if isinstance(e, Exception) and str(e).startswith('src'):
        return 'x' + str(e)[3:]         # the exception object of a scripted source, whatever its class
    if isinstance(e, edzed.EdzedCircuitError):
        cause = e.__cause__
        cid = enc_err(cause)[1:] if cause is not None and str(cause).startswith('src') else '?'
        msg = str(e)
        if msg.endswith(': not initialized'):
            return 'ni'
        if 'during handling of event' in msg:
            return 'w' + cid
        if 'error reported by' in msg and cause is None:
            return 'rt'         # the reported error was not an exception: no __cause__
        if 'error reported by' in msg:
            return 'r' + cid
        return 'E:' + msg[:60]
    if isinstance(e, RuntimeError) and str(e).startswith('src'):
        return 'x' + str(e)[3:]
    return type(e).__name__ + ':' + str(e)[:60]


def enc_rf(e):
    return 'c' if isinstance(e, asyncio.CancelledError) else enc_err(e)


def reply_of(exc):
    if exc is None:
        return 'ok'
    if str(exc).startswith('src'):
        return 'raised:' + enc_err(exc)     # a scripted exception, whatever its class
    if isinstance(exc, edzed.EdzedInvalidState):
        return 'InvalidState'
    if isinstance(exc, edzed.EdzedUnknownEvent):
        return 'UnknownEvent'
    if isinstance(exc, TypeError):
        return 'TypeError'
    if isinstance(exc, AttributeError):
        return 'AttributeError'
    return 'raised:' + enc_err(exc)


# ---------------------------------------------------------------- the circuit

class Boom(edzed.SBlock):
    """handlers that raise inside"""

    def _event_boom(self, *, eid, fam='g', **_data):
        raise FAMILIES[fam](f'src{eid}')

    def _event_boom2(self, *, value, **_data):
        if value:
            eid, fam = value
            raise FAMILIES[fam](f'src{eid}')

    def init_regular(self):
        self.set_output(None)


class SelfUnknown(edzed.FSM):
    STATES = ['a', 'b']
    EVENTS = [('go', 'a', 'b'), ('back', 'b', 'a')]

    def enter_b(self):
        self.event('nonexistent')


class Mon(edzed.AddonMainTask, edzed.SBlock):
    """monitored main task failing on request; with fut=True the failing monitored task awaits a plain FUTURE
    instead of a coroutine (`_create_monitored_task(coro: Awaitable, ...)` in docs/new_sblocks.rst: a Future, the
    result of asyncio.gather() or any object with __await__ is a legal argument)"""

    def __init__(self, *args, eid, fut=False, **kwargs):
        self.eid = eid
        self.fut = fut
        self.ev = None
        self.aux = None
        super().__init__(*args, **kwargs)

    def start(self):
        self.ev = asyncio.Event()
        super().start()
        if self.fut:
            self.auxfut = asyncio.get_running_loop().create_future()
            self.aux = self._create_monitored_task(self.auxfut, name=f"edzed: aux task of {self.name}")

    def trigger(self):
        if self.fut:
            if not self.auxfut.done():
                self.auxfut.set_exception(RuntimeError(f'src{self.eid}'))
        else:
            self.ev.set()

    async def _maintask(self):
        await self.ev.wait()
        raise RuntimeError(f'src{self.eid}')

    async def stop_async(self):
        if self.aux is not None:
            self.aux.cancel()
            try:
                await self.aux
            except BaseException:   # its error (if any) has been delivered to the simulator already
                pass
        await super().stop_async()

    def init_regular(self):
        self.set_output(None)


class BadInit(edzed.SBlock):
    def init_regular(self):
        raise RuntimeError('src900')


class EarlyBad(edzed.SBlock):
    """its synchronous init routine fails when it is called for the first time (a second attempt would succeed);
    reached EARLY through an event"""
    def __init__(self, *args, **kwargs):
        self.init_calls = 0
        super().__init__(*args, **kwargs)

    def init_regular(self):
        self.init_calls += 1
        if self.init_calls == 1:
            raise RuntimeError(f'src{EARLY_ID}')
        self.set_output(0)

    def _event_put(self, *, value, **_data):
        self.set_output(value)


class SlowInit(edzed.AddonAsync, edzed.SBlock):
    """keeps the start-up in its asynchronous phase for 10 ms"""
    async def init_async(self):
        await asyncio.sleep(0.01)
        self.set_output(1)


class BadAsyncInit(edzed.AddonAsync, edzed.SBlock):
    async def init_async(self):
        raise RuntimeError('src901')

    def init_from_value(self, value):
        self.set_output(value)


class BadRestore(edzed.AddonPersistence, edzed.SBlock):
    def _restore_state(self, state):
        raise RuntimeError('src902')

    def get_state(self):
        return self.output

    def init_from_value(self, value):
        self.set_output(value)


class BadStop(edzed.SBlock):
    def init_regular(self):
        self.set_output(None)

    def stop(self):
        super().stop()
        raise RuntimeError('src903')


class BadStopAsync(edzed.AddonAsync, edzed.SBlock):
    def init_regular(self):
        self.set_output(None)

    async def stop_async(self):
        await asyncio.sleep(0.01)
        raise RuntimeError('src904')


class LatePersist(edzed.AddonPersistence, edzed.SBlock):
    """persistent block created AFTER the block whose init routine fails: still uninitialised when the
    simulation is stopped by that error, so get_state() raises while the states are saved (harmless: logged)"""
    def init_regular(self):
        self.set_output(7)

    def get_state(self):
        if not self.is_initialized():
            raise edzed.EdzedInvalidState(f"get_state() on uninitialized block {self}")
        return self.output

    def _restore_state(self, state):
        self.set_output(state)


class SlowStop(edzed.AddonAsync, edzed.SBlock):
    """clean-up of a given duration; with a shorter stop_timeout it is a (harmless) timeout"""
    def __init__(self, *args, duration, **kwargs):
        self._dur = duration
        super().__init__(*args, **kwargs)

    def init_regular(self):
        self.set_output(None)

    async def stop_async(self):
        await asyncio.sleep(self._dur)


def _raise_if(v):
    if v:
        raise RuntimeError(f'src{v}')
    return 0


def build(scn):
    edzed.reset_circuit()
    circuit = edzed.get_circuit()
    ctx = {'circuit': circuit, 'mon': {}}
    ctx['boom'] = Boom('boom')
    edzed.ControlBlock('_ctrl', comment="Simulation Control Block", _reserved=True)
    ctx['inp'] = edzed.Input('inp', initdef=0)
    ctx['nu_b'] = edzed.Input('nu_b', initdef=0)
    ctx['nu_a'] = edzed.Input(
        'nu_a', initdef=0, on_output=edzed.Event('nu_b', 'nonexistent', efilter=edzed.not_from_undef))
    ctx['nu_n'] = 0
    ctx['fsm'] = SelfUnknown('fsm')
    ctx['trig'] = edzed.Input('trig', initdef=0)
    edzed.FuncBlock('fcalc', func=_raise_if).connect('trig')
    ctx['trig2'] = edzed.Input('trig2', initdef=0)
    edzed.FuncBlock('fh', func=lambda v: v, on_output=edzed.Event('boom', 'boom2')).connect('trig2')
    for inst in scn['ops']:
        for s in inst:
            if s[0] == 'monTrigger':
                ctx['mon'][s[1]] = Mon(f'mon{s[1]}', eid=s[1], fut=(s[1] % 2 == 0))
    h = scn['harmless']
    if 'asyncinit' in h:
        BadAsyncInit('bad_ai', initdef=1, init_timeout=1)
    if 'restore' in h:
        circuit.set_persistent_data({"<BadRestore 'bad_rs'>": 5})
        BadRestore('bad_rs', persistent=True, initdef=1)
    if 'stop' in h:
        BadStop('bad_stop')
    if 'stopasync' in h:
        BadStopAsync('bad_sa', stop_timeout=1)
    if 'twostop' in h:
        # the routine with the LONGER timeout ends after the shorter timeout has elapsed, while the
        # short-timeout routine is still running (times out)
        SlowStop('slow_a', duration=0.2, stop_timeout=0.05)
        SlowStop('slow_b', duration=0.1, stop_timeout=1.0)
    if scn['init_err']:
        BadInit('bad_init')
    if scn.get('early_init') is not None:
        ctx['early'] = EarlyBad('bad_early')
        if scn['early_init'] == 1:
            SlowInit('slow_init', init_timeout=1)
    if 'lateuninit' in h:
        if circuit.persistent_dict is None:
            circuit.set_persistent_data({})
        LatePersist('late_p', persistent=True)
    return ctx


# ---------------------------------------------------------------- running one scenario

class Rec:
    def __init__(self, scn):
        self.lines = [f"errreg reset {1 if scn['mode'] == 'run' else 0} 0"]
        self.trace = ['ok']
        self.obs = []          # (label, ready, error object) at every observation point
        self.fired = []        # sources that actually fired, in order, with the caller's view
        self.aborts = []       # exceptions passed to Circuit.abort(), in order
        self.started = False
        self.after_fire = []   # Circuit.error right after each fired source
        # the `error` item of a 'ctrlAbortText' event: a string, the default (item missing), or a BaseException that is
        # not an Exception -- none of them becomes the `__cause__`
        self.text_report = 'reported text'

    def add(self, line, reply, circuit):
        self.lines.append('errreg op ' + line)
        self.trace.append(f"{reply} ready={1 if circuit.is_ready() else 0} err={enc_err(circuit.error)}")
        self.obs.append((line, circuit.is_ready(), circuit.error))


def fire(rec, ctx, s, sups):
    """execute one scripted source synchronously; returns the protocol line and the caller's reply"""
    circuit = ctx['circuit']
    kind = s[0]
    exc = None
    try:
        if kind == 'handlerErr':
            edzed.ExtEvent(ctx['boom'], 'boom').send(eid=s[1], fam=s[2])
        elif kind == 'paramErr':
            edzed.ExtEvent(ctx['inp'], 'put').send()
        elif kind == 'unknownEvt':
            edzed.ExtEvent(ctx['inp'], 'nonexistent').send(1)
        elif kind == 'nestedUnknown':
            ctx['nu_n'] += 1
            edzed.ExtEvent(ctx['nu_a'], 'put').send(ctx['nu_n'])
        elif kind == 'fsmSelfUnknown':
            edzed.ExtEvent(ctx['fsm'], 'go').send()
        elif kind == 'ctrlAbortText':
            edzed.ExtEvent('_ctrl', 'abort').send(error=rec.text_report)
        elif kind == 'ctrlAbort':
            edzed.ExtEvent('_ctrl', 'abort').send(error=RuntimeError(f'src{s[1]}'))
        elif kind == 'ctrlShutdown':
            edzed.ExtEvent('_ctrl', 'shutdown').send()
        elif kind == 'abortX':
            circuit.abort(RuntimeError(f'src{s[1]}'))
        elif kind == 'abortC':
            circuit.abort(asyncio.CancelledError('shutdown'))
        elif kind == 'armCalc':
            edzed.ExtEvent(ctx['trig'], 'put').send(s[1])
        elif kind == 'armCalcHandler':
            edzed.ExtEvent(ctx['trig2'], 'put').send((s[1], s[2]))
        elif kind == 'rawCancel':
            # an external cancellation of a simulation that is already stopping would abort the
            # clean-up; that case is excluded (DESIGN.md section 6)
            if circuit.error is not None or circuit._simtask is None:
                return
            circuit._simtask.cancel()
        elif kind == 'monTrigger':
            if ctx['mon'][s[1]].ev is None:     # the block was never started
                return
            ctx['mon'][s[1]].trigger()
        elif kind == 'supFail':
            sups[s[1]]['eid'] = s[2]
            sups[s[1]]['ev'].set()
        elif kind == 'shutdownTask':
            ctx.setdefault('shut_tasks', []).append(asyncio.create_task(circuit.shutdown()))
        elif kind == 'sigterm':
            os.kill(os.getpid(), signal.SIGTERM)
        else:
            raise AssertionError(kind)
    except (Exception, asyncio.CancelledError) as err:
        exc = err
    line = {
        'abortX': lambda: f'abort x{s[1]}', 'abortC': lambda: 'abort c1',
        'supFail': lambda: f'supFail {s[1]} {s[2]}',
    }.get(kind, lambda: ' '.join(str(x) for x in s))()
    rec.fired.append((s, reply_of(exc)))
    rec.after_fire.append(enc_err(circuit.error))
    rec.add(line, reply_of(exc), circuit)


async def quiesce(loop):
    await vtime.settle(loop)


def run_impl(scn):
    ctx = build(scn)
    circuit = ctx['circuit']
    rec = Rec(scn)
    orig_abort = circuit.abort

    def logging_abort(exc):
        rec.aborts.append((exc, circuit.error))
        return orig_abort(exc)
    circuit.abort = logging_abort
    res = {'rf': None, 'sd': None, 'run': None, 'driver_cancelled': False, 'simtask_done_before_shutdown': None}
    pre = scn['pre_abort']
    if pre:
        e = RuntimeError('src800') if pre == 'x' else asyncio.CancelledError('shutdown')
        circuit.abort(e)
        rec.add('abort x800' if pre == 'x' else 'abort c1', 'ok', circuit)
    start_line = 'start ' + ('900' if scn['init_err'] else '-')

    async def early(phase):
        """an external event reaches the uninitialised block during the start-up; its early initialisation fails in
        the synchronous routine; the sender catches the exception"""
        if phase == 1:
            await asyncio.sleep(0.005)
        exc = None
        try:
            edzed.ExtEvent(ctx['early'], 'put').send(1)
        except Exception as err:
            exc = err
        res['early_reply'] = reply_of(exc)
        res['early_marker'] = ctx['early'].init_steps_completed
        rec.lines.append(f'errreg eop earlyInitFail {EARLY_ID}')
        rec.trace.append(reply_of(exc))

    async def script(loop, sups):
        """the driver: returns normally at the end of the script"""
        if scn.get('early_init') == 1:
            ctx['early_task'] = asyncio.create_task(early(1))
        try:
            await circuit.wait_init()
        except Exception as err:    # start-up failed (InvalidState; AttributeError after an abort before the start)
            wi = reply_of(err)
        else:
            wi = 'ok'
        # what wait_init() reported (the model answers from the state before the start; a driver cancelled inside
        # wait_init() by run() never gets here)
        rec.lines.append('errreg waitinit ' + ('900' if scn['init_err'] else '-'))
        rec.trace.append(wi)
        await quiesce(loop)
        rec.add(start_line, 'ok', circuit)
        rec.started = True
        rec.add('settle', 'ok', circuit)
        for inst in scn['ops']:
            loop.set_us(loop.now_us + 1000)
            for s in inst:
                fire(rec, ctx, s, sups)
            await quiesce(loop)
            rec.add('settle', 'ok', circuit)

    if scn['mode'] == 'forever':
        async def main(loop):
            simtask = asyncio.create_task(circuit.run_forever())
            if scn.get('early_init') == 0:
                ctx['early_task'] = asyncio.create_task(early(0))
            await script(loop, {})
            await vtime.advance_to(loop, loop.now_us + 3_000_000)     # let asynchronous clean-up finish
            res['simtask_done_before_shutdown'] = simtask.done()
            rec.add('shutdownTask', 'ok', circuit)
            try:
                await circuit.shutdown()
            except (Exception, asyncio.CancelledError) as err:
                res['sd'] = err
            await quiesce(loop)
            rec.add('settle', 'ok', circuit)
            try:
                await simtask
            except (Exception, asyncio.CancelledError) as err:
                res['rf'] = err
            for t in ctx.get('shut_tasks', []):
                try:
                    await t
                except (Exception, asyncio.CancelledError) as err:
                    res.setdefault('sd_tasks', []).append(err)
                else:
                    res.setdefault('sd_tasks', []).append(None)
    else:
        async def main(loop):
            sups = {i: {'ev': asyncio.Event(), 'eid': None} for i in (1, 2)}

            async def driver():
                try:
                    await script(loop, sups)
                except asyncio.CancelledError:
                    res['driver_cancelled'] = True
                    raise

            def mksup(i):
                async def sup():
                    await sups[i]['ev'].wait()
                    if sups[i]['eid'] is not None:
                        raise RuntimeError(f"src{sups[i]['eid']}")
                sup.__name__ = f'sup{i}'
                return sup()
            try:
                await edzed.run(driver(), mksup(1), mksup(2))
            except (Exception, asyncio.CancelledError) as err:
                res['run'] = err
            if not rec.started:
                # the driver was cancelled before it could observe the start
                rec.lines.append('errreg sop ' + start_line)
                rec.trace.append('ok')
            if res['driver_cancelled'] or not rec.lines[-1].endswith('settle'):
                # the driver was cut short: its last settle observation is missing
                pass
            else:
                rec.lines.append('errreg sop supEnd 0')
                rec.trace.append('ok')
            rec.add('settle', 'ok', circuit)
            st = circuit._simtask
            if st is not None and st.done():
                res['rf'] = st.exception() if not st.cancelled() else asyncio.CancelledError()
            for t in ctx.get('shut_tasks', []):
                if t.done() and not t.cancelled():
                    res.setdefault('sd_tasks', []).append(t.exception())
            try:
                await circuit.shutdown()
            except (Exception, asyncio.CancelledError) as err:
                res['sd'] = err

    saved = signal.getsignal(signal.SIGTERM)
    try:
        vtime.run(main)
    finally:
        signal.signal(signal.SIGTERM, saved)
    # post-mortem: is the circuit still not ready?
    rec.lines.append(f"errreg result {NSUP if scn['mode'] == 'run' else '-'}")
    rec.trace.append(f"rf={enc_rf(res['rf'])} sd={enc_err(res['sd'])} run={enc_err(res['run'])}")
    fatal = any(is_fatal(s) for s, _ in rec.fired) or bool(pre) or scn['init_err'] or scn.get('early_init') is not None
    tags = [f"mode={scn['mode']}", f"instants={len(scn['ops'])}"]
    tags += [f"first={scn['ops'][0][0][0]}" if scn['ops'] else 'first=-']
    tags += ['fatal' if fatal else 'harmless-only']
    if scn['harmless']:
        tags.append('with-harmless-failures')
    if scn.get('early_init') is not None:
        tags.append(f"early-init-failure-phase{scn['early_init']}")
    tags += sorted({f'family={s[2]}:{s[0]}' for s, _ in rec.fired if s[0] in ('handlerErr', 'armCalcHandler')})
    if res['driver_cancelled']:
        tags.append('driver-cancelled')
    return {'lines': rec.lines, 'trace': rec.trace, 'tags': tags, 'nontrivial': fatal,
            'obs': [(a, b, enc_err(c), id(c)) for a, b, c in rec.obs],
            'fired': rec.fired, 'obs_after_fire': rec.after_fire, 'aborts': [(enc_err(e), enc_err(cur)) for e, cur in rec.aborts],
            'final_error': enc_err(circuit.error), 'final_error_id': id(circuit.error),
            'rf': enc_rf(res['rf']), 'rf_id': id(res['rf']), 'sd': enc_err(res['sd']), 'run': enc_err(res['run']),
            'sd_tasks': [enc_err(e) for e in res.get('sd_tasks', [])],
            'early_reply': res.get('early_reply'), 'early_marker': res.get('early_marker'),
            'early_calls': ctx['early'].init_calls if 'early' in ctx else None,
            'ready_end': circuit.is_ready(), 'done_before_shutdown': res['simtask_done_before_shutdown'],
            'driver_cancelled': res['driver_cancelled']}


# ---------------------------------------------------------------- independent oracle

def expected_winner(scn):
    """first error delivered to the simulator, from the script alone (asyncio reasoning: immediate sources act in
    the caller's stack; deferred ones in the next loop iteration in the order their tasks were woken; a cancel()
    requested on the simulation task before it runs beats the evaluation it was woken for)"""
    if scn['pre_abort']:
        return 'x800' if scn['pre_abort'] == 'x' else 'c1'
    if scn['init_err']:
        return 'x900'
    if scn.get('early_init') is not None:
        return 'ni'     # the failed init step is never attempted again: the block is found uninitialised
    for inst in scn['ops']:
        imm = {'handlerErr': 'w', 'ctrlAbort': 'r', 'abortX': 'x'}
        for s in inst:
            if s[0] == 'ctrlAbortText':
                return 'rt'
            if s[0] == 'handlerErr' and s[2] == 'u':
                continue        # the handler itself says "unknown event": reported to the caller only
            if s[0] in imm:
                return imm[s[0]] + str(s[1])
            if s[0] == 'ctrlShutdown':
                return 'c2'
            if s[0] == 'abortC':
                return 'c1'
        # deferred sources act in the next loop iteration, in the order in which their tasks were woken; the
        # simulation task is woken by the first output change of an SBlock (nestedUnknown changes an Input) or
        # cancel(); when it runs, a requested cancellation beats the evaluation it was woken for
        order, sim_seen = [], False
        for s in inst:
            if s[0] in ('nestedUnknown', 'armCalc', 'armCalcHandler', 'rawCancel'):
                if not sim_seen:
                    sim_seen = True
                    order.append('sim')
            elif s[0] in ('monTrigger', 'shutdownTask', 'sigterm'):
                order.append(s)
        for item in order:
            if item == 'sim':
                if any(x[0] == 'rawCancel' for x in inst):
                    return 'c0'
                calc = [x for x in inst if x[0] in ('armCalc', 'armCalcHandler')]
                if calc:
                    # inside the simulator task every exception ends the simulation; an error inside a HANDLER is
                    # recorded (wrapped) before -- except the handler's own EdzedUnknownEvent
                    direct = calc[0][0] == 'armCalc' or calc[0][2] == 'u'
                    return ('x' if direct else 'w') + str(calc[0][1])
            elif item[0] == 'monTrigger':
                return f'x{item[1]}'
            elif item[0] == 'shutdownTask':
                return 'c1'
            elif item[0] == 'sigterm':
                return 'c4'
        if any(s[0] == 'supFail' for s in inst):
            return 'c1'         # run() stops the simulation with a cancellation
    return 'c1'                 # nothing fatal: the final shutdown() / end of the driver


def oracle(scn, res):
    out = []
    obs = res['obs']
    # (a) once set, Circuit.error is never replaced and never returns to None; not ready from then on
    first = None
    for label, ready, err, ident in obs:
        if first is None:
            if err != '-':
                first = (err, ident)
        else:
            if (err, ident) != first:
                out.append({'clause': 'first_error_wins', 'what': f'Circuit.error changed from {first[0]} to {err} at "{label}"'})
                break
        if err != '-' and ready:
            out.append({'clause': 'not_ready_forever', 'what': f'is_ready() is True with error {err} at "{label}"'})
            break
    # (b) the reported error is the first one delivered
    want = expected_winner(scn)
    if res['final_error'] != want:
        out.append({'clause': 'first_error_wins',
                    'what': f"Circuit.error is {res['final_error']}, the first error delivered was {want}"})
    # (c) run_forever raises Circuit.error itself; shutdown() re-raises it unless it is a cancellation
    fe = 'c' if res['final_error'].startswith('c') else res['final_error']
    if res['rf'] != fe or (res['rf'] not in ('-', 'c') and res['rf_id'] != res['final_error_id']):
        out.append({'clause': 'run_forever_raises_error', 'what': f"run_forever raised {res['rf']}, Circuit.error {res['final_error']}"})
    want_sd = '-' if res['final_error'].startswith('c') else res['final_error']
    if res['sd'] != want_sd or any(x != want_sd for x in res['sd_tasks']):
        out.append({'clause': 'cancel_is_normal_stop' if want_sd == '-' else 'shutdown_reraises',
                    'what': f"shutdown() -> {res['sd']} {res['sd_tasks']}, expected {want_sd}"})
    # (d) run(): simulator's error, else the first failing supporting task, else None
    if scn['mode'] == 'run':
        sup = sorted((s[1], s[2]) for inst in scn['ops'] for s in inst if s[0] == 'supFail'
                     and any(f[0] == s for f in res['fired']))
        want_run = want_sd if want_sd != '-' else (f'x{sup[0][1]}' if sup else '-')
        if res['run'] != want_run:
            out.append({'clause': 'run_result', 'what': f"run() -> {res['run']}, expected {want_run}"})
    # (e) a fatal source terminates the simulation by itself; harmless ones never do
    if scn['mode'] == 'forever':
        fatal_fired = (any(is_fatal(s) and r != 'InvalidState' for s, r in res['fired']) or scn['pre_abort']
                       or scn['init_err'] or scn.get('early_init') is not None)
        if bool(fatal_fired) != bool(res['done_before_shutdown']):
            out.append({'clause': 'classification',
                        'what': f"fatal source fired: {bool(fatal_fired)}, simulation ended by itself: {res['done_before_shutdown']}"})
    # (f) callers: harmless kinds are reported to the caller only
    for s, r in res['fired']:
        if s[0] == 'paramErr' and r not in ('TypeError', 'InvalidState'):
            out.append({'clause': 'classification', 'what': f'paramErr -> {r}'})
        if s[0] == 'unknownEvt' and r not in ('UnknownEvent', 'InvalidState'):
            out.append({'clause': 'classification', 'what': f'unknownEvt -> {r}'})
        if s[0] == 'handlerErr' and r not in (f'raised:x{s[1]}', 'InvalidState'):
            out.append({'clause': 'classification', 'what': f'handlerErr -> {r}'})
        if s[0] in ('nestedUnknown', 'fsmSelfUnknown') and r != 'InvalidState':
            # an exception raised INSIDE a handler (by the internal event it sends) must terminate the simulation
            i = res['fired'].index((s, r))
            after = res['obs_after_fire'][i]
            if after == '-':
                out.append({'clause': 'classification',
                            'what': f'{s[0]}: an internal event of an unknown type raised EdzedUnknownEvent inside '
                                    f'a handler; the caller got {r} but the simulation was not aborted',
                            'sig': {'shape': 'on_output_event_unknown_type' if s[0] == 'nestedUnknown'
                                    else 'fsm_entry_action_unknown_event_to_self'}})
    if res['ready_end']:
        out.append({'clause': 'not_ready_forever', 'what': 'is_ready() is True after the simulation has stopped'})
    # (g) a synchronous init routine that failed (also EARLY, with a sender that swallowed the exception) is fatal
    # and is not given a second chance
    if scn.get('early_init') is not None:
        if res['early_reply'] != f'raised:x{EARLY_ID}':
            out.append({'clause': 'classification', 'what': f"the early event was answered with {res['early_reply']}"})
        if res['early_calls'] != 1:
            out.append({'clause': 'failed_init_not_retried',
                        'what': f"init_regular() of the block whose early initialisation failed was called {res['early_calls']} times"})
        if res['final_error'] in ('-',) or res['final_error'].startswith('c'):
            out.append({'clause': 'classification',
                        'what': f"a failed synchronous init routine did not stop the simulation (Circuit.error {res['final_error']})"})
    return out
