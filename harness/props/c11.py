"""C11 -- a block never handles two events at once.

Correspondence with lean/EdzedModel/Dispatch.lean + an independent oracle of the property.

A scenario is a circuit of probe blocks (scripted handlers), Inputs and Counters wired by
on_output / on_every_output / explicitly sent events (with filters and EventCond), the circuit's
start-up (events are already exchanged during the initialisation: early initialisation of a
destination under `_enable_event`), OutputFuncs sending on_success / on_error events from inside their
handler, a sequence of external events (ExtEvent or a direct
`blk.event()` call with any object as event type) and a follow-up event to every block.
"""
import inspect
import sys
import itertools
import re

import asyncio

import edzed
import edzed.fsm

from .. import vtime

from ..enc import enc, enc_data
from ..simrun import Sim

ID = 'C11'
RULE = ("hand-written seed circuits (self-loop, 2/3-cycles, diamond, every harmless outcome, early "
        "initialisation with a loop back, malformed event types) + random event graphs over 1..4 blocks "
        "(probe blocks with scripted handlers a/b/need/ping – a quarter of their sends inside try/except that swallows the exception –, Input with/without initdef and allowed set, "
        "Counter with/without modulo, table-driven FSMs with 2..3 states, events e0/e1 with per-state and any-state "
        "rules and 'no transition' targets, Goto, scripted entry/exit actions (entry actions may send the one "
        "documented chained event to the FSM itself, two of them, or an endless chain), on_enter/on_exit/on_notrans/"
        "on_output events with filters (a quarter of the first on_enter/on_exit events straight back to the FSM), "
        "timed states with zero or positive duration whose expiry is delivered on the virtual loop (`tick`), OutputFunc with a returning/failing function and 0..2 on_success / 0..1 on_error "
        "events sent from inside its handler, a quarter of the first on_success events looping straight back), "
        "Repeat blocks (destination: the next block, a random block or itself; repeated type mostly one the destination knows; count None/0/1/2; "
        "interval 0.7 s on the virtual clock: the op `adv` lets the time pass so that the main tasks re-send, one protocol line `resend` per repetition in the real order), "
        "FSM cond_EVENT callbacks for a third of the events (0..1 statements: send / try-send an explicit event, raise, a direct event() call to any block; "
        "then a constant or the truth value of the data item `value`), a third of the Inputs / Counters / FSMs persistent with an (empty) storage and sync_state, "
        "0..2 on_output, 0..1 on_every_output and 0..2 explicitly sent "
        "events per block with random destination (self-loops, cycles, diamonds), event type (known, "
        "unknown, EventCond incl. nested and None branches), 0..2 filters; start-up of the circuit, "
        "then every external sequence of length <= 2 (quick: a random subset) / <= 3 over an alphabet of "
        "6..9 events per circuit or random sequences of length <= 4, then a follow-up event to every "
        "block; a case is distinct by its (lines, trace) hash and non-trivial when a handler was entered")
ASSUMPTIONS = [
    "scripted handlers either propagate the exceptions of the events they send or swallow all of them "
    "(try/except Exception: pass around one send); OutputFunc catches only the exceptions of its function",
    "values are ints/bools, so that Counter arithmetic never sees a non-number",
    "FSM: the `duration` data item is a number or absent (0 / negative = zero delay; strings with units and INF_TIME are "
    "outside the scenarios); user-defined calc_output is not modelled (the output is the state name); the "
    "event data item `sdata` is left out; timers fire one at a time in the order the event loop delivers them "
    "(recorded from the implementation); cond_EVENT callbacks are scripts given as keyword arguments (no cond methods)",
    "Repeat: WHEN the main task re-sends and with which counter is the implementation's (C18); the model validates the "
    "counter (previous + 1, within count) and computes the delivery; the repeated type is a string; the queue itself is "
    "not compared (only what is re-sent)",
    "persistence: the storage is an empty dict (nothing is restored); saves are observed at get_state() and do not "
    "change the dispatch state; restoring and expiry are C06's",
]
EXHAUSTIVE = {'quick': False, 'thorough': False}

LOG = []        # enter/exit log shared by all blocks of the running scenario
REFUSED = []    # blocks that refused a recursive event, in order
SWALLOWED = []  # (block, exception kind): a probe handler caught the exception of an event it sent
EXC_EXITS = []  # exception kinds that left an event handler
DEEP = []       # handler entries at a nesting depth that no documented window allows
BUSY_OK = []    # blocks whose event() returned normally although their handler was running (probe depth > 0)
SAVES = []      # (block, _event_active, probe depth) at every get_state() call (the persistent-state save)
COND_TAGS = set()
COND_BAD = []   # a cond_EVENT callback that ran while its FSM was not locked
NOT_TOP = []    # a Repeat block forwarded outside of its own handler / re-sent while some block was locked
REPEAT_INTERVAL_US = 700_000


# ---------------------------------------------------------------- real blocks with probes

class Overflow(BaseException):
    """raised by a probe at nesting depth 4: stops a runaway recursion of a broken implementation
    (a BaseException, so that no handler in between catches it)"""


class _Traced:
    """mix-in: nesting depth per block, enter/exit log"""

    def _c11_enter(self, data):
        self._c11_depth = getattr(self, '_c11_depth', 0) + 1
        self._c11_max = max(getattr(self, '_c11_max', 0), self._c11_depth)
        v = data.get('value', edzed.UNDEF)
        item = f"+{self.name}:{self._c11_depth}:{'-' if v is edzed.UNDEF else enc(v)}"
        LOG.append(item)
        # depth 2 is legal only for an FSM whose (single) running handler is inside its entry action /
        # timer start, i.e. inside the documented chained-transition window
        if self._c11_depth > 1 and not (self._c11_depth == 2 and getattr(self, '_c11_window', 0) > 0):
            DEEP.append(item)
        if self._c11_depth > 3:
            self._c11_depth -= 1
            raise Overflow(self.name)

    def event(self, etype, /, **data):
        """observe (not alter) a refusal at the block that raises it, whoever catches it later"""
        depth = getattr(self, '_c11_depth', 0)
        in_window = depth == 1 and getattr(self, '_c11_window', 0) > 0
        try:
            ret = super().event(etype, **data)
            if depth > 0:
                if not in_window:
                    BUSY_OK.append(self.name)
                elif ret is True:
                    # an accepted (parked) transition request: one per window
                    self._c11_chained += 1
                    if self._c11_chained > 1:
                        BUSY_OK.append(self.name + ':second-chained-request')
            return ret
        except edzed.EdzedCircuitError as err:
            if 'Forbidden recursive' in str(err) and not getattr(err, '_c11_seen', False):
                err._c11_seen = True
                REFUSED.append(self.name)
            raise

    def get_state(self):
        """observe the save of the persistent state (AddonPersistence.event -> save_persistent_state)"""
        SAVES.append((self.name, bool(self._event_active), getattr(self, '_c11_depth', 0), getattr(self, '_c11_window', 0)))
        return super().get_state()

    def _c11_exit(self, ok):
        self._c11_depth -= 1
        LOG.append(f"-{self.name}" + ('' if ok else '!'))
        if not ok:
            EXC_EXITS.append(kind_of(sys.exc_info()[1]))


class _Scripted:
    """mix-in: interpreter of the scripts (self.extra = the explicitly sent events)"""

    def _run(self, acts):
        for act in acts:
            if act[0] == 'o':
                self.set_output(act[1])
            elif act[0] == 's':
                ev = self.extra[act[1]]
                if act[2] is None:
                    ev.send(self)
                else:
                    ev.send(self, value=act[2])
            elif act[0] == 't':
                ev = self.extra[act[1]]
                try:
                    if act[2] is None:
                        ev.send(self)
                    else:
                        ev.send(self, value=act[2])
                except Exception as err:    # pylint: disable=broad-except
                    SWALLOWED.append((self.name, kind_of(err)))
            elif act[0] == 'r':
                raise RuntimeError('scripted failure')
            elif act[0] == 'e':
                self.circuit.findblock(f'b{act[1]}').event(py_etype(act[2]))
            else:
                raise AssertionError(act)



class PB(_Traced, _Scripted, edzed.SBlock):
    """probe block: what the handlers do is given by scripts"""

    def __init__(self, *args, scripts, extra, **kwargs):
        self.scripts = scripts
        self.extra = extra
        super().__init__(*args, **kwargs)

    def _handler(self, key, data):
        self._c11_enter(data)
        ok = False
        try:
            self._run(self.scripts[key])
            ok = True
            return None
        finally:
            self._c11_exit(ok)

    def init_regular(self):
        self._run(self.scripts['init'])

    def _event_a(self, **data):
        return self._handler('a', data)

    def _event_b(self, **data):
        return self._handler('b', data)

    def _event_need(self, *, value, **data):
        return self._handler('need', dict(data, value=value))

    def _event_ping(self, **data):
        return self._handler('ping', data)


class _FsmProbe(_Traced, _Scripted):
    """mix-in for the generated FSM classes: enter/exit log around FSM._event, window marker around the
    entry actions and the start of the timer (both run inside `with self._enable_event`)"""

    _c11_window = 0
    _c11_chained = 0

    def _event(self, etype, data):
        self._c11_enter(data)
        ok = False
        try:
            ret = super()._event(etype, data)
            ok = True
            return ret
        finally:
            self._c11_exit(ok)

    def _c11_in_window(self, func):
        self._c11_window += 1
        self._c11_chained = 0
        try:
            return func()
        finally:
            self._c11_window -= 1

    def _start_timer(self, duration, timed_event):
        return self._c11_in_window(lambda: super(_FsmProbe, self)._start_timer(duration, timed_event))

    def _timer_expired(self, timed_event):
        TIMER_HOOK[0](self, lambda: super(_FsmProbe, self)._timer_expired(timed_event))


TIMER_HOOK = [None]
RESEND_HOOK = [None, None]      # (record a repetition, flush the record of a failed one)


class _EvProxy:
    """stands for `Repeat._repeated_event`: observes (not alters) the sends of the block"""

    def __init__(self, blk, ev):
        self._blk, self._ev = blk, ev

    @property
    def etype(self):
        return self._ev.etype

    def send(self, source, /, **data):
        blk = self._blk
        rep = data.get('repeat', 0)
        if getattr(blk, '_c11_depth', 0) > 0 or not rep:
            # the synchronous forward: must come from inside the block's own handler, guard set
            if not (getattr(blk, '_c11_depth', 0) == 1 and blk._event_active):
                NOT_TOP.append(f"{blk.name}: forward outside of its handler (depth {getattr(blk, '_c11_depth', 0)}, "
                               f"_event_active={blk._event_active})")
            return self._ev.send(source, **data)
        # a repetition sent by the main task
        try:
            ret = self._ev.send(source, **data)
        except (Exception, Overflow) as err:    # pylint: disable=broad-except
            RESEND_HOOK[0](blk, rep, err)
            raise
        RESEND_HOOK[0](blk, rep, None)
        return ret


class TRepeat(_Traced, edzed.Repeat):
    """edzed.Repeat with probes: enter/exit log around Repeat._event, one protocol line per repetition"""

    def _event(self, etype, data):
        self._c11_enter(data)
        ok = False
        try:
            ret = super()._event(etype, data)
            ok = True
            return ret
        finally:
            self._c11_exit(ok)

    def set_output(self, value):
        if getattr(self, '_c11_depth', 0) > 0 or not value:
            return super().set_output(value)
        # the main task begins a repetition: it runs outside of every handler
        locked = [b.name for b in self.circuit.getblocks(edzed.SBlock) if b._event_active]
        if locked:
            NOT_TOP.append(f"{self.name}: repetition {value} begins while {locked} are locked")
        try:
            return super().set_output(value)
        except (Exception, Overflow) as err:    # pylint: disable=broad-except
            RESEND_HOOK[0](self, value, err)
            raise

    async def _task_monitor(self, coro, is_service=False):
        try:
            return await super()._task_monitor(coro, is_service)
        finally:
            RESEND_HOOK[1](self)


def make_fsm(i, b, slots, kw):
    n = b['n']
    timers = {f's{k}': (t[1], py_etype(t[0])) for k, t in enumerate(b['timed']) if t is not None}
    states = [f's{k}' for k in range(n) if f's{k}' not in timers]
    events = [(ev, None if fr is None else [f's{fr}'], None if to is None else f's{to}') for ev, fr, to in b['trans']]
    cls = type(f'F{i}', (_FsmProbe, edzed.FSM), {'STATES': states, 'TIMERS': timers, 'EVENTS': events})
    for k in range(n):
        if b['enter'][k]:
            kw[f'enter_s{k}'] = (lambda acts: lambda: blk._c11_in_window(lambda: blk._run(acts)))(b['enter'][k])
        if b['exit'][k]:
            kw[f'exit_s{k}'] = (lambda acts: lambda: blk._run(acts))(b['exit'][k])
        if slots.get(f'en{k}'):
            kw[f'on_enter_s{k}'] = slots[f'en{k}']
        if slots.get(f'ex{k}'):
            kw[f'on_exit_s{k}'] = slots[f'ex{k}']
    for ev, (acts, cv) in b.get('conds', {}).items():
        def cond(ev=ev, acts=acts, cv=cv):
            # user code inside the handler: the FSM must be locked (and no window is open for it)
            if not blk._event_active:
                COND_BAD.append(f"{blk.name}: cond_{ev} called with _event_active=False")
            try:
                blk._run(acts)
            except BaseException:
                COND_TAGS.add('cond=exc')
                raise
            ret = cv[1] if cv[0] == 'c' else edzed.fsm_event_data.get().get(cv[1])
            COND_TAGS.add(f'cond={bool(ret)}' + (':sends' if acts else ''))
            return ret
        kw[f'cond_{ev}'] = cond
    blk = cls(f'b{i}', initdef='s0', on_notrans=slots.get('nt', []), **kw)
    blk.extra = slots['x']
    return blk


def instrument(base):
    """subclass of a library block whose handlers log enter/exit; the wrappers have the SAME required
    keyword-only parameters as the real handlers (read from the code), so that a call that does not
    bind fails exactly where it fails in the original"""
    ns = {}
    for etype, orig in base._ct_handlers.items():
        params = list(inspect.signature(orig).parameters.values())[1:]
        req = [p.name for p in params if p.kind is p.KEYWORD_ONLY and p.default is p.empty]
        has_kw = any(p.kind is p.VAR_KEYWORD for p in params)
        sig = ', '.join(['self', '*'] + req) if req else 'self'
        if has_kw:
            sig += ', **data'
            merged = 'dict(data' + ''.join(f', {r}={r}' for r in req) + ')'
        else:
            merged = 'dict(' + ', '.join(f'{r}={r}' for r in req) + ')'
        src = (f"def _event_{etype}({sig}):\n"
               f"    return self._c11_call(_orig, {merged})\n")
        scope = {'_orig': orig}
        exec(src, scope)       # pylint: disable=exec-used
        ns[f'_event_{etype}'] = scope[f'_event_{etype}']

    def _c11_call(self, orig, data):
        self._c11_enter(data)
        ok = False
        try:
            ret = orig(self, **data)
            ok = True
            return ret
        finally:
            self._c11_exit(ok)
    ns['_c11_call'] = _c11_call
    return type('T' + base.__name__, (_Traced, base), ns)


TInput = instrument(edzed.Input)
TCounter = instrument(edzed.Counter)
TOutputFunc = instrument(edzed.OutputFunc)


def py_func(spec):
    if spec == 'v':
        return lambda value: value
    if spec == 'f':
        def fail(value):
            raise RuntimeError('output function failed')
        return fail
    const = spec[1]
    return lambda value: const

FILTERS = {
    'a': lambda data: True,
    'r': lambda data: False,
    'v': lambda data: data.get('value'),
    'w': lambda data: not data.get('value'),
    'd': lambda data: {k: v for k, v in data.items() if k != 'value'},
    'u': lambda data: data.get('previous') is not edzed.UNDEF,
}


def py_filter(f):
    if isinstance(f, list):
        val = f[1]
        return lambda data: {**data, 'value': val}
    return FILTERS[f]


def py_etype(et):
    k = et[0]
    if k == 'n':
        return et[1]
    if k == '0':
        return None
    if k == 'e':
        return ''
    if k == 'x':
        return 5
    if k == 'g':
        return edzed.fsm.Goto(f's{et[1]}')
    return edzed.EventCond(py_etype(et[1]), py_etype(et[2]))


def enc_etype(et):
    k = et[0]
    if k == 'n':
        return 'n:' + et[1]
    if k == 'g':
        return f'g{et[1]}'
    if k == 'c':
        return f'c/{enc_etype(et[1])}/{enc_etype(et[2])}'
    return k


def enc_act(a):
    if a[0] == 'o':
        return 'o' + enc(a[1])
    if a[0] in 'st':
        return f'{a[0]}{a[1]}:' + ('-' if a[2] is None else enc(a[2]))
    if a[0] == 'r':
        return 'r'
    return f'e{a[1]}:{enc_etype(a[2])}'


def enc_script(acts):
    return ';'.join(enc_act(a) for a in acts) if acts else '-'


def enc_filters(fl):
    return ','.join('s' + enc(f[1]) if isinstance(f, list) else f for f in fl) if fl else '-'


def def_lines(scn):
    lines = [f"dispatch reset {len(scn['blocks'])}"]
    for i, b in enumerate(scn['blocks']):
        if b['kind'] == 'probe':
            lines.append(f"dispatch blk {i} probe {enc_script(b['init'])} {enc_script(b['a'])} "
                         f"{enc_script(b['b'])} {enc_script(b['need'])}")
        elif b['kind'] == 'input':
            initdef = 'u' if b['initdef'] is None else enc(b['initdef'])
            allowed = '-' if b['allowed'] is None else ','.join(enc(v) for v in b['allowed'])
            lines.append(f"dispatch blk {i} input {initdef} {allowed}")
        elif b['kind'] == 'fsm':
            tr = ','.join(f"{ev}:{'*' if fr is None else fr}:{'-' if to is None else to}" for ev, fr, to in b['trans']) or '-'
            tm = '|'.join('-' if t is None else f'{enc_etype(t[0])}@{t[1]}' for t in b['timed'])
            lines.append(f"dispatch blk {i} fsm {b['n']} {tr} {'|'.join(enc_script(x) for x in b['enter'])} "
                         f"{'|'.join(enc_script(x) for x in b['exit'])} {tm}")
            for ev, (acts, cv) in b.get('conds', {}).items():
                lines.append(f"dispatch cond {i} {ev} {enc_script(acts)} "
                             + (f"c{int(bool(cv[1]))}" if cv[0] == 'c' else f"k{cv[1]}"))
        elif b['kind'] == 'repeat':
            lines.append(f"dispatch blk {i} repeat {b['dest']} n:{b['etype']} {'n' if b['count'] is None else b['count']}")
        elif b['kind'] == 'outfunc':
            f = b['func']
            lines.append(f"dispatch blk {i} outfunc {f if isinstance(f, str) else 'c' + enc(f[1])}")
        else:
            lines.append(f"dispatch blk {i} counter {'n' if b['mod'] is None else enc(b['mod'])} {enc(b['initdef'])}")
    for src, slot, dest, et, fl in scn['edges']:
        lines.append(f"dispatch edge {src} {slot} {dest} {enc_etype(et)} {enc_filters(fl)}")
    return lines


def build(scn):
    blocks = []
    for i, b in enumerate(scn['blocks']):
        slots = {'o': [], 'e': [], 'x': [], 's': [], 'r': []}
        for src, slot, dest, et, fl in scn['edges']:
            if src == i:
                slots.setdefault(slot, []).append(edzed.Event(f'b{dest}', py_etype(et), efilter=[py_filter(f) for f in fl]))
        kw = {'on_output': slots['o'], 'on_every_output': slots['e']}
        if b.get('persistent'):
            kw['persistent'] = True         # sync_state=True: the state is saved after every event
        if b['kind'] == 'probe':
            blk = PB(f'b{i}', scripts={'init': b['init'], 'a': b['a'], 'b': b['b'], 'need': b['need'], 'ping': []},
                     extra=slots['x'], **kw)
        elif b['kind'] == 'input':
            if b['initdef'] is not None:
                kw['initdef'] = b['initdef']
            if b['allowed'] is not None:
                kw['allowed'] = b['allowed']
            blk = TInput(f'b{i}', **kw)
        elif b['kind'] == 'fsm':
            blk = make_fsm(i, b, slots, kw)
        elif b['kind'] == 'repeat':
            blk = TRepeat(f'b{i}', dest=f"b{b['dest']}", etype=b['etype'], count=b['count'],
                          interval=REPEAT_INTERVAL_US / 1e6, **kw)
            blk._repeated_event = _EvProxy(blk, blk._repeated_event)
        elif b['kind'] == 'outfunc':
            blk = TOutputFunc(f'b{i}', func=py_func(b['func']), on_success=slots['s'], on_error=slots['r'], **kw)
        else:
            blk = TCounter(f'b{i}', modulo=b['mod'], initdef=b['initdef'], **kw)
        blocks.append(blk)
    return blocks


KINDS = (
    (edzed.EdzedUnknownEvent, 'UnknownEvent'),
    (edzed.EdzedCircuitError, 'CircuitError'),
    (edzed.EdzedInvalidState, 'InvalidState'),
    (TypeError, 'TypeError'),
    (ValueError, 'ValueError'),
    (RuntimeError, 'RuntimeError'),
)


def kind_of(exc):
    if exc is None:
        return '-'
    for cls, name in KINDS:
        if isinstance(exc, cls):
            return name
    return 'Other'


INIT = {0: 'z', -1: 'y', 1: 'p', -2: 'r', 2: 'd'}


def fsm_str(b):
    if not isinstance(b, edzed.FSM):
        return '-,-'
    st = b.state
    timer = b._active_timer
    return (f"{'-' if st is edzed.UNDEF else st[1:]},{'T' if timer is not None and not timer.cancelled() else '-'}"
            + ('A' if b._fsm_event_active else '') + ('N' if b._next_event is not None else ''))


def state_str(circuit, blocks):
    return (' '.join(f"{enc(b.output)},{int(b._event_active)},{INIT[b.init_steps_completed]},{fsm_str(b)}"
                     for b in blocks)
            + f" err={kind_of(circuit.error)} stk=0")


def followups(scn):
    out = []
    for i, b in enumerate(scn['blocks']):
        # harmless events that pass the guard: ping / a call that does not bind / an unknown type
        out.append(['raw', i, ['n', {'probe': 'ping', 'outfunc': 'zz', 'fsm': 'zz', 'repeat': 'zz'}.get(b['kind'], 'put')], {}])
    return out


def run_impl(scn):
    lines = def_lines(scn)
    trace = ['ok'] * len(lines)
    steps = []          # what the oracle sees
    sim = Sim()
    ctx = {}
    del LOG[:]
    del REFUSED[:]
    del BUSY_OK[:]
    del SWALLOWED[:]
    del EXC_EXITS[:]
    del DEEP[:]
    del NOT_TOP[:]
    del COND_BAD[:]
    del SAVES[:]
    COND_TAGS.clear()

    def build_circuit(circuit):
        if any(b.get('persistent') for b in scn['blocks']):
            circuit.set_persistent_data({})     # an empty storage: nothing to restore, every event saves
        ctx['blocks'] = build(scn)
        return ctx['blocks']

    def record(line, op, res, exc):
        blocks = ctx['blocks']
        items = list(LOG)
        del LOG[:]
        refused = ','.join('!' + n for n in REFUSED) if REFUSED else '-'
        del REFUSED[:]
        state = state_str(sim.circuit, blocks)
        lines.append(line)
        trace.append(f"{res} | {','.join(items) if items else '-'} | {refused} | {state}")
        busy_ok = list(BUSY_OK)
        del BUSY_OK[:]
        swallowed = list(SWALLOWED)
        del SWALLOWED[:]
        exc_exits = list(EXC_EXITS)
        del EXC_EXITS[:]
        deep = list(DEEP)
        del DEEP[:]
        not_top = list(NOT_TOP)
        del NOT_TOP[:]
        cond_bad = list(COND_BAD)
        del COND_BAD[:]
        saves = list(SAVES)
        del SAVES[:]
        if saves:
            COND_TAGS.add('saved')
        if any(x[2] and x[3] for x in saves):
            COND_TAGS.add('saved:inside-chained-transition-window')
        steps.append({'saves': saves, 'cond_bad': cond_bad, 'not_top': not_top, 'deep': deep, 'op': op, 'res': res, 'items': items, 'refused': refused, 'busy_ok': busy_ok, 'swallowed': swallowed, 'exc_exits': exc_exits,
                      'active': [b.name for b in blocks if b._event_active],
                      'error': kind_of(sim.circuit.error),
                      'maxdepth': max((getattr(b, '_c11_max', 0) for b in blocks), default=0)})

    def run_event(line, opinfo, call):
        try:
            ret = call()
            if isinstance(ret, tuple) and ret and ret[0] == 'error':
                ret = ('error',)        # OutputFunc: ('error', <exception object>)
            res, exc = 'ret ' + enc(ret), None
        except (Exception, Overflow) as err:    # pylint: disable=broad-except
            res, exc = 'exc ' + kind_of(err), err
        record(line, opinfo, res, exc)

    def timer_hook(blk, fire):
        # a timer of an FSM fires (called by the event loop): one protocol line per firing, in the real order
        d = int(blk.name[1:])
        run_event(f"dispatch tick {d}", {'kind': 'tick', 'd': d, 'follow': False}, fire)

    TIMER_HOOK[0] = timer_hook

    def resend_hook(blk, rep, err):
        # a repetition was sent by the main task of a Repeat block (called where it ends)
        d = int(blk.name[1:])
        if err is None:
            record(f"dispatch resend {d} {rep}", {'kind': 'resend', 'd': d, 'follow': False}, 'ret n', None)
        else:
            # the task is about to die; the record is completed when its monitor has seen the exception
            ctx.setdefault('pending', {})[blk.name] = (d, rep, err)

    def resend_flush(blk):
        pend = ctx.get('pending', {}).pop(blk.name, None)
        if pend is not None:
            d, rep, err = pend
            record(f"dispatch resend {d} {rep}", {'kind': 'resend', 'd': d, 'follow': False}, 'exc ' + kind_of(err), err)

    RESEND_HOOK[0] = resend_hook
    RESEND_HOOK[1] = resend_flush

    def stop_line():
        ctx['stopped'] = True
        lines.append('dispatch stop')
        trace.append('stopped ' + state_str(sim.circuit, ctx['blocks']))

    async def do_ops(ops, follow, loop):
        blocks = ctx['blocks']
        for op in ops:
            kind = op[0]
            if kind == 'adv':
                # let the virtual time pass: the main tasks of the Repeat blocks re-send (and FSM timers fire)
                if loop is None:
                    continue
                if sim.circuit.error is None:
                    await vtime.advance_to(loop, round(loop.time() * 1e6) + REPEAT_INTERVAL_US)
                    await vtime.settle(loop)
                if sim.circuit.error is not None and not ctx.get('stopped'):
                    while not sim.simtask.done():
                        await asyncio.sleep(0)
                    stop_line()
                continue
            if kind == 'tick':
                # let the earliest timer fire (virtual time); once the simulation has been aborted, yielding
                # to the loop lets the simulation task finish: all blocks are stopped, the timers cancelled
                if loop is None:
                    continue
                if sim.circuit.error is not None:
                    if not ctx.get('stopped'):
                        while not sim.simtask.done():
                            await asyncio.sleep(0)
                        stop_line()
                    continue
                whens = [b._active_timer.when() for b in blocks
                         if isinstance(b, edzed.FSM) and b._active_timer is not None and not b._active_timer.cancelled()]
                if not whens:
                    continue
                await vtime.advance_to(loop, round(min(whens) * 1e6))
                await vtime.settle(loop)
                if sim.circuit.error is not None and not ctx.get('stopped'):
                    while not sim.simtask.done():
                        await asyncio.sleep(0)
                    stop_line()
                continue
            _, d, et, data = op
            if kind == 'ext':
                run_event(f"dispatch ext {d} {et} {enc_data(data)}", {'kind': kind, 'd': d, 'follow': follow},
                          lambda: edzed.ExtEvent(blocks[d], et).send(**data))
            else:
                run_event(f"dispatch raw {d} {enc_etype(et)} {enc_data(data)}", {'kind': kind, 'd': d, 'follow': follow},
                          lambda: blocks[d].event(py_etype(et), **data))

    async def drive(sim, blocks):
        # the start-up went well
        record('dispatch init', {'kind': 'init'}, 'ret n' if sim.circuit.error is None else 'exc ' + kind_of(sim.circuit.error), None)
        await do_ops(scn['ops'], False, sim.loop)
        await do_ops(followups(scn), True, sim.loop)

    sim.run(build_circuit, drive)
    if sim.init_error is not None:
        # start-up failed; the simulation task has finished (blocks stopped), the blocks still process events
        err = sim.circuit.error
        record('dispatch init', {'kind': 'init'}, 'exc ' + kind_of(err), err)
        ctx['stopped'] = True

        async def post(_loop):
            await do_ops(scn['ops'], False, None)
            await do_ops(followups(scn), True, None)
        vtime.run(post)
    entered = sum(1 for s in steps for it in s['items'] if it.startswith('+'))
    tags = [f"n={len(scn['blocks'])}", f"init={'ok' if sim.init_error is None else 'failed'}"]
    for s in steps:
        if s['op']['kind'] != 'init' and not s['op']['follow']:
            tags.append('res=' + s['res'].split()[0] + ('' if s['res'].startswith('ret') else ':' + s['res'].split()[1]))
        if s['refused'] != '-':
            tags.append('refused')
        if s['op']['kind'] == 'resend':
            tags.append('resend=' + s['res'].split()[0] + ('' if s['res'].startswith('ret') else ':' + s['res'].split()[1])
                        + (':refused' if s['refused'] != '-' else ''))
    tags = sorted(set(tags) | COND_TAGS)
    return {'lines': lines, 'trace': trace, 'steps': steps, 'tags': tags, 'nontrivial': entered > 0}


# ---------------------------------------------------------------- oracle

def oracle(scn, res):
    """the property, checked on what the real blocks did (nothing here comes from the model)"""
    out = []
    err_before = '-'
    for i, s in enumerate(res['steps']):
        op = s['op']
        # 1. nesting depth per block (measured by the probes) never exceeds 1
        deep = s['deep']
        if deep:
            out.append({'clause': 'no_nested_handling',
                        'what': f"step {i} {op}: handler entered while the block was handling an event: {deep}"})
        # the save never runs with the block locked, nor inside a handler of the block – except when that handler is
        # suspended in the documented chained-transition window (the nested event()'s own wrapper saves)
        bad_saves = [x for x in s['saves'] if x[1] or (x[2] and not x[3])]
        if bad_saves:
            out.append({'clause': 'save_outside_guard',
                        'what': f"step {i} {op}: get_state() of a block that was inside event(): {bad_saves}"})
        if s['cond_bad']:
            out.append({'clause': 'cond_callback_runs_locked',
                        'what': f"step {i} {op}: {s['cond_bad']}"})
        if s['not_top']:
            out.append({'clause': 'repeat_resend_is_top_level',
                        'what': f"step {i} {op}: {s['not_top']}"})
        if s['busy_ok']:
            out.append({'clause': 'recursion_is_refused_and_aborts',
                        'what': f"step {i} {op}: an event addressed to a block that was handling an event was "
                                f"not refused: {s['busy_ok']}"})
        # 2. no block stays locked after a top-level delivery, whatever its outcome
        if s['active']:
            out.append({'clause': 'guard_balanced',
                        'what': f"step {i} {op} -> {s['res']}: _event_active left set on {s['active']}"})
        # 3. the follow-up event is accepted by every block
        #    (refused at once = by the addressed block itself, before anything else happened)
        if op['kind'] != 'init' and op['follow'] and s['refused'].split(',')[0] == f"!b{op['d']}" and not s['items']:
            out.append({'clause': 'follow_up_accepted',
                        'what': f"step {i}: block b{op['d']} refuses a new event: {s['res']}"})
        # 4. the simulation is stopped exactly when documented: an exception other than
        #    EdzedUnknownEvent left an event handler (whether or not a caller catches it afterwards);
        #    an event was refused by a busy block (whoever catches that exception); a failed start-up
        failed = s['res'].startswith('exc')
        expect = any(k != 'UnknownEvent' for k in s['exc_exits']) or s['refused'] != '-'
        if op['kind'] in ('init', 'resend'):
            # a failed start-up; an exception ending the main task of a block (its monitor aborts)
            expect = expect or failed
        else:
            if s['refused'] != '-' and not failed and not s['swallowed']:
                out.append({'clause': 'recursion_is_refused_and_aborts',
                            'what': f"step {i} {op}: recursive event refused ({s['refused']}) but the sender "
                                    f"of the outer event got no exception: {s['res']}"})
            if s['refused'] != '-' and not (err_before != '-' or s['error'] != '-'):
                out.append({'clause': 'recursion_is_refused_and_aborts',
                            'what': f"step {i} {op}: recursive event refused ({s['refused']}) but the simulation goes on"
                                    + (f"; the exception was caught by {s['swallowed']}" if s['swallowed'] else ''),
                            'sig': {'swallowed': bool(s['swallowed'])}})
        if err_before == '-':
            if expect and s['error'] == '-':
                out.append({'clause': 'error_in_handler_aborts',
                            'what': f"step {i} {op} -> {s['res']} {s['items']}: simulation not stopped"})
            if not expect and s['error'] != '-':
                out.append({'clause': 'harmless_outcomes_do_not_abort',
                            'what': f"step {i} {op} -> {s['res']} {s['items']}: simulation stopped ({s['error']})"})
        elif s['error'] == '-':
            out.append({'clause': 'first_error_kept', 'what': f"step {i}: Circuit.error was reset"})
        err_before = s['error']
    return out[:4]


# ---------------------------------------------------------------- generator

def N(s):
    return ['n', s]


def probe(init=None, a=None, b=None, need=None):
    return {'kind': 'probe', 'init': [['o', 0]] if init is None else init, 'a': a or [], 'b': b or [], 'need': need or []}


def inp(initdef=0, allowed=None):
    return {'kind': 'input', 'initdef': initdef, 'allowed': allowed}


def cnt(mod=None, initdef=0):
    return {'kind': 'counter', 'mod': mod, 'initdef': initdef}


def fsm(n, trans, enter=None, exit_=None, timed=None, conds=None):
    return {'kind': 'fsm', 'n': n, 'trans': trans, 'timed': timed or [None] * n, 'conds': conds or {},
            'enter': enter or [[] for _ in range(n)], 'exit': exit_ or [[] for _ in range(n)]}


def outf(func='v'):
    return {'kind': 'outfunc', 'func': func}


def rpt(dest, etype='put', count=None):
    return {'kind': 'repeat', 'dest': dest, 'etype': etype, 'count': count}


def seeds():
    E = lambda d, name, data=None: ['ext', d, name, data or {}]
    R = lambda d, et, data=None: ['raw', d, et, data or {}]
    # FSM cond_EVENT callbacks: constant false = rejected (nothing locked, no abort); the value of a data item;
    # a callback sending an event that loops back to the FSM (through another block / directly): refused;
    # a callback inside the chained-transition window (entry action sends e1, cond_e1 false: request not parked)
    yield {'blocks': [fsm(2, [['e0', None, 1], ['e1', None, 0]], conds={'e0': [[], ['c', False]], 'e1': [[], ['k', 'value']]})],
           'edges': [], 'ops': [E(0, 'e0'), R(0, ['g', 1]), E(0, 'e1'), E(0, 'e1', {'value': 0}), E(0, 'e1', {'value': 2})]}
    yield {'blocks': [fsm(2, [['e0', None, 1], ['e1', None, 0]], conds={'e0': [[['s', 0, 1]], ['c', True]]}), inp()],
           'edges': [[0, 'x', 1, N('put'), []], [1, 'o', 0, N('e1'), ['u']]], 'ops': [E(0, 'e0')]}
    yield {'blocks': [fsm(2, [['e0', None, 1], ['e1', None, 0]], conds={'e0': [[['e', 0, N('e1')]], ['c', True]]})],
           'edges': [], 'ops': [E(0, 'e0'), E(0, 'e1')]}
    yield {'blocks': [fsm(2, [['e0', None, 1], ['e1', None, 0]], conds={'e0': [[['t', 0, None]], ['c', False]]})],
           'edges': [[0, 'x', 0, N('e1'), []]], 'ops': [E(0, 'e0'), E(0, 'e1')]}
    yield {'blocks': [fsm(2, [['e0', 0, 1], ['e1', 1, 0]], enter=[[], [['e', 0, N('e1')]]],
                          conds={'e1': [[], ['k', 'value']]}), cnt()],
           'edges': [], 'ops': [E(0, 'e0'), E(0, 'e1', {'value': 1}), E(0, 'e0', {'value': 1})]}
    yield {'blocks': [fsm(2, [['e0', None, 1], ['e1', None, 0]], conds={'e1': [[['r']], ['c', True]]}, timed=[None, [N('e1'), 1]])],
           'edges': [], 'ops': [E(0, 'e0'), ['tick'], E(0, 'e0')]}
    # persistent blocks (empty storage, sync_state): the state is saved after each event, outside the guard;
    # a cycle through a persistent Input; a handler error disables persistence and is re-raised
    yield {'blocks': [{**inp(), 'persistent': True}, {**cnt(), 'persistent': True}],
           'edges': [[0, 'o', 1, N('inc'), ['u']], [1, 'o', 0, N('put'), ['u']]],
           'ops': [E(1, 'dec'), E(0, 'put'), E(0, 'put', {'value': 1}), E(1, 'inc')]}
    yield {'blocks': [{**fsm(2, [['e0', None, 1], ['e1', None, 0]], enter=[[], [['r']]]), 'persistent': True},
                      {**inp(), 'persistent': True}],
           'edges': [[1, 'o', 0, N('e0'), ['u']]], 'ops': [E(0, 'e1'), E(1, 'put', {'value': 1}), R(1, N('put'), {'value': 2})]}
    # the `duration` item of an event: 0 makes the expiry of the timed state a chained transition
    yield {'blocks': [fsm(2, [['e0', 0, 1], ['e1', 1, 0]], timed=[None, [N('e1'), 2]]), cnt()],
           'edges': [[0, 'en0', 1, N('inc'), []], [0, 'ex1', 0, N('e0'), ['v']]],
           'ops': [E(0, 'e0', {'duration': 0}), E(0, 'e0', {'duration': 1}), ['tick'], E(0, 'e0'), R(0, ['g', 1], {'duration': 0}),
                   E(0, 'e0', {'duration': 0, 'value': 1})]}
    A = ['adv']
    # Repeat: forwards from inside its handler, re-sends from its main task (count 2: two repetitions)
    yield {'blocks': [rpt(1, 'put', 2), inp()], 'edges': [], 'ops': [E(0, 'put', {'value': 1}), A, A, A, E(0, 'zz'), E(0, 'put', {'value': 2}), A]}
    # ... A -> Repeat -> A: a recursion on A (refused at the forward, nothing queued: no repetition)
    yield {'blocks': [inp(), rpt(0, 'put')], 'edges': [[0, 'o', 1, N('put'), ['u']]], 'ops': [E(0, 'put', {'value': 1}), A, A]}
    # ... Repeat -> A -> the same Repeat: a recursion on the Repeat
    yield {'blocks': [rpt(1, 'put'), inp()], 'edges': [[1, 'o', 0, N('put'), ['u']]], 'ops': [E(0, 'put', {'value': 1}), A]}
    # ... a Repeat repeating to itself
    yield {'blocks': [rpt(0, 'put')], 'edges': [], 'ops': [E(0, 'put', {'value': 1}), A]}
    # ... the loop is closed only at the first repetition: Repeat's own output event (output 0 -> 1) reaches
    #     the destination's sender; the re-send itself finds clean flags
    yield {'blocks': [rpt(1, 'inc'), cnt(), probe(a=[['s', 0, None]])],
           'edges': [[0, 'o', 2, N('a'), ['u', 'v']], [2, 'x', 0, N('inc'), []]], 'ops': [E(0, 'inc'), A, A]}
    # ... the destination refuses the forward (unknown type / missing parameter): nothing queued, no abort
    yield {'blocks': [rpt(1, 'zz'), inp(), rpt(1, 'put', 1)], 'edges': [], 'ops': [E(0, 'zz'), A, E(2, 'put'), A, E(2, 'put', {'value': 3}), A, A]}
    # ... the destination fails at a repetition only (Counter modulo: TypeError never; probe raising on value 1)
    yield {'blocks': [rpt(1, 'need', None), probe(need=[['o', 1], ['s', 0, None]]), inp()],
           'edges': [[1, 'x', 2, N('put'), []], [2, 'o', 0, N('need'), ['u']]], 'ops': [E(0, 'need', {'value': 5}), A]}
    # ... Repeat -> Repeat -> Input, and an FSM driven by repetitions
    yield {'blocks': [rpt(1, 'put', 1), rpt(2, 'put', 1), inp()], 'edges': [], 'ops': [E(0, 'put', {'value': 1}), A, A, A]}
    yield {'blocks': [rpt(1, 'e0', 3), fsm(2, [['e0', None, 1], ['e1', 1, 0]], timed=[None, [N('e1'), 1]])],
           'edges': [[1, 'en1', 0, N('e0'), ['v']]], 'ops': [E(0, 'e0'), A, A, ['tick'], A]}
    # ... the loop is met by the repetition only: the FSM has no transition for the repeated event in its new
    #     state and reports that (on_notrans) to the Repeat, which forwards it to the busy FSM
    yield {'blocks': [rpt(1, 'e0'), fsm(2, [['e0', 0, 1], ['e0', 1, None]])], 'edges': [[1, 'nt', 0, N('e0'), []]],
           'ops': [E(0, 'e0'), A, A, E(0, 'e0')]}
    # ... an exception that does not abort by itself (unknown type at a repetition: the FSM has left the state
    #     that knows... no: unknown is per class) -> a missing parameter at the repetition is impossible too;
    #     a probe destination whose handler raises at the second call
    yield {'blocks': [rpt(1, 'a', 2), probe(a=[['s', 0, None]]), cnt(mod=None, initdef=0), probe(a=[['r']])],
           'edges': [[1, 'x', 2, N('inc'), []], [2, 'o', 3, ['c', N('a'), ['0']], [['s', 0], 'w', ['s', 1]]]],
           'ops': [E(0, 'a'), A, A]}
    # OutputFunc: on_success loops straight back (through a filter only) / through another block;
    # a failing function whose on_error event loops back; no loop
    yield {'blocks': [outf()], 'edges': [[0, 's', 0, N('put'), [['s', 2]]]], 'ops': [E(0, 'put', {'value': 1})]}
    yield {'blocks': [outf(), inp()], 'edges': [[0, 's', 1, N('put'), []], [1, 'o', 0, N('put'), ['u']]],
           'ops': [E(0, 'put', {'value': 1}), E(1, 'put', {'value': 1})]}
    yield {'blocks': [outf('f'), probe(a=[['s', 0, 1]])], 'edges': [[0, 'r', 1, N('a'), []], [1, 'x', 0, N('put'), []]],
           'ops': [E(0, 'put', {'value': 1})]}
    yield {'blocks': [outf(['c', 3]), outf('f'), cnt()],
           'edges': [[0, 's', 1, N('put'), []], [1, 'r', 2, N('inc'), []], [0, 's', 2, ['c', N('inc'), ['0']], ['v']]],
           'ops': [E(0, 'put', {'value': 0}), E(0, 'put'), E(1, 'put', {'value': 1})]}
    # FSM: the documented chained transition (entry action of s1 sends e1 to the FSM itself)
    yield {'blocks': [fsm(2, [['e0', 0, 1], ['e1', 1, 0]], enter=[[], [['e', 0, N('e1')]]])], 'edges': [],
           'ops': [E(0, 'e0'), E(0, 'e0', {'value': 1}), E(0, 'e1')]}
    # ... an on_enter event leading back to the FSM is NOT the chained transition: refused
    yield {'blocks': [fsm(2, [['e0', 0, 1], ['e1', None, 0]]), probe(a=[['s', 0, None]])],
           'edges': [[0, 'en1', 1, N('a'), []], [1, 'x', 0, N('e1'), []]], 'ops': [E(0, 'e0')]}
    yield {'blocks': [fsm(2, [['e0', 0, 1], ['e1', None, 0]])], 'edges': [[0, 'en1', 0, N('e1'), ['a']]], 'ops': [E(0, 'e0')]}
    # ... the initial transition is an event too: on_enter / on_output of the initial state back to the FSM
    yield {'blocks': [fsm(2, [['e0', None, 1]])], 'edges': [[0, 'en0', 0, N('e0'), []]], 'ops': [E(0, 'e0')]}
    yield {'blocks': [fsm(2, [['e0', None, 1]]), inp()], 'edges': [[0, 'o', 1, N('put'), []], [1, 'o', 0, N('e0'), []]],
           'ops': [E(0, 'e0')]}
    # ... a timed state: the expiry is an event as well (on_exit of the timed state back to the FSM)
    yield {'blocks': [fsm(2, [['e0', 0, 1], ['e1', None, 0]], timed=[None, [N('e1'), 1]])],
           'edges': [[0, 'ex1', 0, N('e0'), []]], 'ops': [E(0, 'e0'), ['tick'], E(0, 'e0')]}
    yield {'blocks': [fsm(2, [['e0', 0, 1], ['e1', None, 0]], timed=[None, [N('e1'), 1]]), cnt()],
           'edges': [[0, 'ex1', 1, N('inc'), []], [0, 'en0', 1, N('put'), []]], 'ops': [E(0, 'e0'), ['tick'], E(0, 'e0'), ['tick'], ['tick']]}
    # ... zero delay = chained; two requests in one window; endless chain; no transition; unknown; Goto
    yield {'blocks': [fsm(3, [['e0', 0, 1], ['e1', 1, 2]], timed=[None, [N('e1'), 0], [['g', 0], 2]])], 'edges': [],
           'ops': [E(0, 'e0'), ['tick']]}
    yield {'blocks': [fsm(2, [['e0', 0, 1], ['e1', None, 0]], enter=[[], [['e', 0, N('e1')], ['e', 0, N('e1')]]])], 'edges': [],
           'ops': [E(0, 'e0'), E(0, 'e0')]}
    yield {'blocks': [fsm(2, [['e0', None, 0]], enter=[[['e', 0, N('e0')]], []])], 'edges': [], 'ops': [E(0, 'e0')]}
    yield {'blocks': [fsm(2, [['e0', 0, 1], ['e0', 1, None], ['e1', 0, 0]]), inp()],
           'edges': [[0, 'nt', 1, N('put'), []], [0, 'nt', 0, N('e0'), []]],
           'ops': [E(0, 'e1'), E(0, 'e0'), E(0, 'e0'), E(0, 'zz'), R(0, ['g', 0]), R(0, ['g', 1]), R(1, ['g', 0])]}
    # a handler that catches the exceptions of the events it sends: A -> B(try/except) -> A, and a
    # self-loop inside try/except: the refusal must stop the simulation although nobody sees the exception
    yield {'blocks': [probe(a=[['s', 0, None]]), probe(a=[['t', 0, None], ['o', 4]])],
           'edges': [[0, 'x', 1, N('a'), []], [1, 'x', 0, N('a'), []]], 'ops': [E(0, 'a'), E(1, 'a')]}
    yield {'blocks': [probe(a=[['t', 0, 1], ['t', 1, 2]]), inp()],
           'edges': [[0, 'x', 0, N('b'), []], [0, 'x', 1, N('put'), ['d']]], 'ops': [E(0, 'a')]}
    # swallowed harmless errors (unknown event, call that does not bind) and a swallowed handler error
    yield {'blocks': [probe(a=[['t', 0, None], ['t', 1, None], ['t', 2, 0]], need=[['r']]), cnt()],
           'edges': [[0, 'x', 1, N('zz'), []], [0, 'x', 1, N('put'), []], [0, 'x', 0, N('zz'), []]],
           'ops': [E(0, 'a'), E(1, 'inc')]}
    yield {'blocks': [probe(a=[['t', 0, 1]]), probe(need=[['r']])], 'edges': [[0, 'x', 1, N('need'), []]],
           'ops': [E(0, 'a'), E(0, 'a')]}
    # self-loop through on_output
    yield {'blocks': [probe(a=[['o', 1]])], 'edges': [[0, 'o', 0, N('a'), []]], 'ops': [E(0, 'a'), E(0, 'a')]}
    # 2-cycle and 3-cycle through explicitly sent events
    yield {'blocks': [probe(a=[['s', 0, 1]]), probe(a=[['s', 0, None]])],
           'edges': [[0, 'x', 1, N('a'), []], [1, 'x', 0, N('a'), []]], 'ops': [E(0, 'a'), E(1, 'a')]}
    yield {'blocks': [probe(a=[['s', 0, 1]]), probe(b=[['s', 0, None]]), inp()],
           'edges': [[0, 'x', 1, N('b'), []], [1, 'x', 2, N('put'), [['s', 7]]], [2, 'o', 0, N('a'), []]],
           'ops': [E(0, 'a'), E(2, 'put', {'value': 3})]}
    # diamond: b0 -> b1, b2 -> b3 (no recursion: the second arrival comes after the first has finished)
    yield {'blocks': [inp(), probe(a=[['s', 0, 1]]), probe(a=[['s', 0, 2]]), cnt(mod=3)],
           'edges': [[0, 'o', 1, N('a'), []], [0, 'o', 2, N('a'), []], [1, 'x', 3, N('inc'), []], [2, 'x', 3, N('inc'), []]],
           'ops': [E(0, 'put', {'value': 1}), E(0, 'put', {'value': 2})]}
    # every harmless outcome at top level and nested
    yield {'blocks': [probe(a=[['s', 0, 1], ['s', 1, 0], ['s', 2, 1]], need=[['o', 5]]), inp(allowed=[0, 1])],
           'edges': [[0, 'x', 1, N('put'), ['r']], [0, 'x', 1, ['c', N('put'), ['0']], []], [0, 'x', 1, N('put'), ['v']]],
           'ops': [E(0, 'a'), E(0, 'zz'), E(0, 'need'), E(1, 'put'), E(1, 'put', {'value': 9}), E(0, 'need', {'value': 1})]}
    # nested parameter error / nested unknown event / handler error
    yield {'blocks': [probe(a=[['s', 0, None]], b=[['s', 1, 1]], need=[['r']]), cnt()],
           'edges': [[0, 'x', 1, N('put'), []], [0, 'x', 1, N('zz'), []]],
           'ops': [E(0, 'b'), E(0, 'a'), E(0, 'need', {'value': 0})]}
    yield {'blocks': [probe(need=[['r']]), cnt()], 'edges': [], 'ops': [E(0, 'need', {'value': 0}), E(1, 'inc')]}
    # malformed event types: the checks precede the guard
    yield {'blocks': [probe(), inp(), cnt()], 'edges': [],
           'ops': [R(0, ['e']), R(1, ['x']), R(2, ['0']), R(0, ['c', ['e'], ['x']]), R(0, ['c', ['0'], ['0']])]}
    yield {'blocks': [probe(a=[['e', 1, ['e']]]), probe(a=[['e', 0, ['x']]])], 'edges': [], 'ops': [E(0, 'a'), E(1, 'a')]}
    # early initialisation: b0's start-up sends an event to the uninitialised b1 ...
    #  ... whose handler loops back to b1 (must be refused although _enable_event was used)
    yield {'blocks': [inp(initdef=1), probe(a=[['s', 0, 1]])],
           'edges': [[0, 'o', 1, N('a'), []], [1, 'x', 1, N('b'), []]], 'ops': [E(0, 'put', {'value': 2})]}
    #  ... whose initialisation sends an event to itself (allowed: initialisation by an event)
    yield {'blocks': [inp(initdef=1), inp(initdef=2), probe(init=[['o', 1]])],
           'edges': [[0, 'o', 1, N('put'), []], [1, 'o', 2, N('a'), []], [2, 'o', 2, N('b'), []]],
           'ops': [E(0, 'put', {'value': 5}), E(1, 'put', {'value': 5})]}
    #  ... and the loop goes through the block that is being initialised by the simulator
    yield {'blocks': [probe(init=[['o', 1]], a=[['o', 2]]), probe(init=[['o', 3]], a=[['s', 0, 1]])],
           'edges': [[0, 'o', 1, N('a'), []], [1, 'x', 0, N('a'), []]], 'ops': [E(1, 'a'), E(0, 'a')]}
    # uninitialised input waiting for an event; never initialised
    yield {'blocks': [inp(initdef=None), inp(initdef=3)], 'edges': [[1, 'o', 0, N('put'), []]], 'ops': [E(0, 'put', {'value': 1})]}
    yield {'blocks': [inp(initdef=None), probe()], 'edges': [], 'ops': [R(0, N('put'), {'value': 1}), R(0, N('put'))]}
    # failure inside an early initialisation (raise in init_regular of the destination)
    yield {'blocks': [probe(a=[['s', 0, 1]]), probe(init=[['r']])], 'edges': [[0, 'o', 1, N('a'), []]], 'ops': [R(1, N('a')), R(0, N('a'))]}


VALUES = [0, 1, 2, 3, True, False]


def rand_etype(rng, kind, depth=0, nst=2, own=None):
    if kind == 'fsm' and rng.random() < 0.15:
        return ['g', rng.randrange(nst)]
    if kind == 'repeat':
        # mostly the type the block repeats
        return N(own if rng.random() < 0.8 else 'zz') if rng.random() < 0.8 or depth >= 2 else \
            ['c', N(own), ['0'] if rng.random() < 0.5 else N(own)]
    names = {'fsm': ['e0', 'e0', 'e0', 'e1', 'e1', 'zz'],
             'probe': ['a', 'a', 'b', 'b', 'need', 'ping', 'zz'],
             'input': ['put', 'put', 'put', 'zz'],
             'counter': ['inc', 'inc', 'dec', 'put', 'reset', 'zz'],
             'outfunc': ['put', 'put', 'put', 'put', 'zz']}[kind]
    r = rng.random()
    if r < 0.72 or depth >= 2:
        return N(rng.choice(names))

    def branch():
        q = rng.random()
        if q < 0.35:
            return ['0']
        if q < 0.40:
            return [rng.choice(['e', 'x'])]
        return rand_etype(rng, kind, depth + 1, nst)
    return ['c', branch(), branch()]


def rand_filters(rng):
    fl = []
    for _ in range(rng.choice([0, 0, 0, 1, 1, 2])):
        f = rng.choice(['a', 'r', 'v', 'v', 'w', 'd', 's'])
        fl.append(['s', rng.choice(VALUES)] if f == 's' else f)
    return fl


def rand_circuit(rng):
    """style 'quiet' (60 %): the output events of the start-up are filtered out (not_from_undef) and every
    block initialises by itself, so that the circuit starts and the loops are met by the external events;
    otherwise events (and loops) occur already during the initialisation"""
    quiet = rng.random() < 0.6
    n = rng.choice([1, 2, 2, 3, 3, 3, 4])
    kinds = [rng.choice(['probe', 'probe', 'probe', 'input', 'input', 'counter', 'outfunc', 'outfunc', 'fsm', 'fsm', 'fsm',
                         'repeat', 'repeat', 'repeat'])
             for _ in range(n)]
    nst = [rng.choice([2, 2, 3]) for _ in range(n)]     # number of states of the FSMs
    # Repeat blocks: destination (a fifth: the next block of the backbone, sometimes itself), the repeated type
    # (mostly one the destination knows; a Repeat feeding a Repeat uses that block's type), count
    rdest = [(i + 1) % n if rng.random() < 0.4 else rng.randrange(n) for i in range(n)]
    KNOWN = {'fsm': ['e0', 'e0', 'e1'], 'probe': ['a', 'a', 'b', 'need', 'ping'], 'input': ['put'],
             'counter': ['inc', 'inc', 'dec', 'put', 'reset'], 'outfunc': ['put'], 'repeat': ['put', 'a']}
    rtype = [None] * n
    for i in range(n):
        if kinds[i] == 'repeat':
            rtype[i] = rng.choice(KNOWN[kinds[rdest[i]]]) if rng.random() < 0.9 else 'zz'
    for i in range(n):
        if kinds[i] == 'repeat' and kinds[rdest[i]] == 'repeat' and rng.random() < 0.8:
            rtype[i] = rtype[rdest[i]]
    edges, nextra = [], [0] * n
    # a backbone cycle or chain makes loops likely
    shape = rng.random()
    for i in range(n):
        for slot, cnt_ in (('o', rng.choice([0, 1, 1, 2])), ('e', rng.choice([0, 0, 0, 1])),
                           ('x', rng.choice([0, 1, 2]) if kinds[i] in ('probe', 'fsm') else 0),
                           *[(f'en{k}', rng.choice([0, 0, 1, 1, 2])) for k in range(nst[i]) if kinds[i] == 'fsm'],
                           *[(f'ex{k}', rng.choice([0, 0, 0, 1])) for k in range(nst[i]) if kinds[i] == 'fsm'],
                           ('nt', rng.choice([0, 0, 1]) if kinds[i] == 'fsm' else 0),
                           ('s', rng.choice([0, 1, 1, 2]) if kinds[i] == 'outfunc' else 0),
                           ('r', rng.choice([0, 1]) if kinds[i] == 'outfunc' else 0)):
            for k in range(cnt_):
                if (slot == 's' or slot[:2] in ('en', 'ex')) and k == 0 and rng.random() < 0.25:
                    dest = i                    # on_success / on_enter / on_exit straight back to the block
                elif shape < 0.4 and k == 0:
                    dest = (i + 1) % n
                else:
                    dest = rng.randrange(n)
                fl = rand_filters(rng)
                if quiet and slot in 'oe':
                    fl.insert(rng.randrange(len(fl) + 1), 'u')
                edges.append([i, slot, dest, rand_etype(rng, kinds[dest], 0, nst[dest], rtype[dest]), fl])
                if slot == 'x':
                    nextra[i] += 1
    blocks = []
    for i, k in enumerate(kinds):
        if k == 'probe':
            def script(maxlen=3):
                acts = []
                for _ in range(rng.choice([0, 1, 1, 2, maxlen])):
                    r = rng.random()
                    if r < 0.45:
                        acts.append(['o', rng.choice(VALUES)])
                    elif r < 0.85 and nextra[i]:
                        acts.append(['s' if rng.random() < 0.75 else 't', rng.randrange(nextra[i]),
                                     rng.choice(VALUES + [None, None])])
                    elif r < 0.90:
                        acts.append(['r'])
                    elif r < 0.96:
                        d = rng.randrange(n)
                        acts.append(['e', d, rand_etype(rng, kinds[d], 0, nst[d], rtype[d]) if rng.random() < 0.6 else [rng.choice(['e', 'x', '0'])]])
                return acts
            r = rng.random()
            init = [['o', rng.choice(VALUES)]] if r < 0.75 or quiet else (
                [] if r < 0.82 else [['o', rng.choice(VALUES)]] + script(2))
            blocks.append(probe(init=init, a=script(), b=script(), need=script()))
        elif k == 'fsm':
            ns = nst[i]
            trans = []
            for ev in ('e0', 'e1'):
                for fr in list(range(ns)) + [None]:
                    if rng.random() < (0.6 if ev == 'e0' else 0.4):
                        trans.append([ev, fr, None if rng.random() < 0.1 else rng.randrange(ns)])
            if not trans:
                trans.append(['e0', None, rng.randrange(ns)])
            evs = sorted({t[0] for t in trans})
            timed = []
            for st in range(ns):
                if rng.random() < 0.3:
                    tev = ['n', rng.choice(evs)] if rng.random() < 0.7 else ['g', rng.randrange(ns)]
                    timed.append([tev, rng.choice([0, 1, 1, 2])])
                else:
                    timed.append(None)

            def fscript(window):
                if rng.random() < 0.65:
                    return []
                acts = []
                for _ in range(rng.choice([1, 1, 2])):
                    r = rng.random()
                    if r < 0.4 and window:
                        # the documented chained transition: an event to the FSM itself from the entry action
                        acts.append(['e', i, ['n', rng.choice(evs)] if rng.random() < 0.8 else ['g', rng.randrange(ns)]])
                    elif r < 0.85 and nextra[i]:
                        acts.append(['s' if rng.random() < 0.75 else 't', rng.randrange(nextra[i]),
                                     rng.choice(VALUES + [None, None])])
                    elif r < 0.9:
                        acts.append(['r'])
                return acts
            conds = {}
            for ev in evs:
                if rng.random() < 0.35:
                    acts = []
                    if rng.random() < 0.45:
                        r = rng.random()
                        if r < 0.65 and nextra[i]:
                            acts.append(['s' if rng.random() < 0.7 else 't', rng.randrange(nextra[i]),
                                         rng.choice(VALUES + [None, None])])
                        elif r < 0.75:
                            acts.append(['r'])
                        elif r < 0.9:
                            d = rng.randrange(n)
                            acts.append(['e', d, rand_etype(rng, kinds[d], 0, nst[d], rtype[d])])
                    q = rng.random()
                    conds[ev] = [acts, ['c', True] if q < 0.4 else ['c', False] if q < 0.65 else ['k', 'value']]
            blocks.append({'kind': 'fsm', 'n': ns, 'trans': trans, 'timed': timed, 'conds': conds,
                           'persistent': rng.random() < 0.35,
                           'enter': [fscript(True) for _ in range(ns)], 'exit': [fscript(False) for _ in range(ns)]})
        elif k == 'repeat':
            blocks.append(rpt(rdest[i], rtype[i], rng.choice([None, None, 0, 1, 2])))
        elif k == 'outfunc':
            blocks.append(outf(rng.choice(['v', 'v', 'v', 'f', ['c', rng.choice(VALUES)]])))
        elif k == 'input':
            allowed = None if rng.random() < 0.7 else [0, 1, 2]
            initdef = rng.choice([0, 1, 2]) if rng.random() < 0.8 or quiet else None
            blocks.append({**inp(initdef=initdef, allowed=allowed), 'persistent': rng.random() < 0.35})
        else:
            blocks.append({**cnt(mod=rng.choice([None, None, 3]), initdef=rng.choice([0, 1])), 'persistent': rng.random() < 0.35})
    return {'blocks': blocks, 'edges': edges}


def alphabet(rng, circ):
    """external events offered to a circuit"""
    ops = []
    for i, b in enumerate(circ['blocks']):
        k = b['kind']
        if k == 'probe':
            ops += [['ext', i, 'a', {}], ['ext', i, 'b', {'value': rng.choice(VALUES)}],
                    ['ext', i, rng.choice(['need', 'zz']), rng.choice([{}, {'value': 1}])]]
        elif k == 'fsm':
            if any(t is not None for t in b['timed']):
                # the `duration` item: overrides the timed state's default (0 = expiry chained at once)
                ops += [['ext', i, rng.choice(['e0', 'e1']), {'duration': rng.choice([0, 0, 1, 2])}],
                        ['raw', i, ['g', rng.choice([k for k, t in enumerate(b['timed']) if t is not None])],
                         {'duration': rng.choice([0, 1])}]]
            ops += [['ext', i, 'e0', {}], ['ext', i, rng.choice(['e0', 'e1']), {'value': rng.choice(VALUES)}],
                    ['ext', i, rng.choice(['e1', 'zz']), {}], ['raw', i, ['g', rng.randrange(b['n'])], {}]]
            if any(t is not None and t[1] > 0 for t in b['timed']):
                ops += [['tick'], ['tick']]
        elif k == 'repeat':
            ops += [['ext', i, b['etype'], {'value': rng.choice(VALUES)}], ['ext', i, b['etype'], rng.choice([{}, {'value': rng.choice(VALUES)}])],
                    ['ext', i, rng.choice([b['etype'], 'zz']), {}], ['adv'], ['adv'], ['adv']]
        elif k == 'outfunc':
            ops += [['ext', i, 'put', {'value': rng.choice(VALUES)}], ['ext', i, 'put', {'value': rng.choice(VALUES)}],
                    ['ext', i, rng.choice(['put', 'zz']), {}]]
        elif k == 'input':
            ops += [['ext', i, 'put', {'value': rng.choice(VALUES)}], ['ext', i, 'put', {'value': rng.choice(VALUES)}],
                    ['ext', i, rng.choice(['put', 'zz']), {}]]
        else:
            ops += [['ext', i, 'inc', rng.choice([{}, {'amount': 2}])], ['ext', i, rng.choice(['dec', 'reset']), {}],
                    ['ext', i, 'put', rng.choice([{}, {'value': rng.choice([0, 1, 2, 3])}])]]
    i = rng.randrange(len(circ['blocks']))
    ops.append(['raw', i, rng.choice([['e'], ['x'], ['0'], ['c', ['0'], ['0']],
                                      ['c', rand_etype(rng, circ['blocks'][i]['kind'], own=circ['blocks'][i].get('etype')), ['0']]]),
                rng.choice([{}, {'value': 1}])])
    return ops


def scenarios(rng, tier):
    yield from seeds()
    ncirc, nseq = (2500, 5) if tier == 'quick' else (20000, 8)
    for c in range(ncirc):
        circ = rand_circuit(rng)
        alpha = alphabet(rng, circ)
        if tier == 'thorough' and len(circ['blocks']) <= 2 and c % 8 == 0:
            # all sequences up to length 3 over the circuit's alphabet
            for ln in (1, 2, 3):
                for seq in itertools.product(alpha, repeat=ln):
                    yield {**circ, 'ops': [list(o) for o in seq]}
            continue
        if len(circ['blocks']) <= 2 and c % 12 == 0:
            for seq in itertools.product(alpha, repeat=2):
                yield {**circ, 'ops': [list(o) for o in seq]}
            continue
        yield {**circ, 'ops': []}
        reps = [i for i, b in enumerate(circ['blocks']) if b['kind'] == 'repeat']
        for _ in range(3 if reps else 0):
            # an event for a Repeat block, time for its repetitions, another event, more time
            i = rng.choice(reps)
            ev = ['ext', i, circ['blocks'][i]['etype'], rng.choice([{}, {'value': rng.choice(VALUES)}, {'value': rng.choice(VALUES)}])]
            yield {**circ, 'ops': [ev, ['adv'], ['adv'], list(rng.choice(alpha)), ['adv']][:rng.choice([2, 3, 5])]}
        for _ in range(nseq):
            yield {**circ, 'ops': [list(rng.choice(alpha)) for _ in range(rng.choice([1, 2, 3, 3, 4]))]}


def shrink(scn):
    ops = scn['ops']
    for i in reversed(range(len(ops))):
        yield {**scn, 'ops': ops[:i] + ops[i + 1:]}
    edges = scn['edges']
    for i in reversed(range(len(edges))):
        # removing an explicitly sent event would renumber the scripts' indexes: keep those
        if edges[i][1] != 'x':
            yield {**scn, 'edges': edges[:i] + edges[i + 1:]}
    for i, e in enumerate(edges):
        if e[4]:
            yield {**scn, 'edges': edges[:i] + [e[:4] + [[]]] + edges[i + 1:]}
    for i, b in enumerate(scn['blocks']):
        if b['kind'] == 'probe':
            for key in ('a', 'b', 'need'):
                for j in range(len(b[key])):
                    nb = {**b, key: b[key][:j] + b[key][j + 1:]}
                    yield {**scn, 'blocks': scn['blocks'][:i] + [nb] + scn['blocks'][i + 1:]}
