"""C11 -- a block never handles two events at once.

Correspondence with lean/EdzedModel/Dispatch.lean + an independent oracle of the property.

A scenario is a circuit of probe blocks (scripted handlers), Inputs and Counters wired by
on_output / on_every_output / explicitly sent events (with filters and EventCond), the circuit's
start-up (events are already exchanged during the initialisation: early initialisation of a
destination under `_enable_event`), OutputFuncs sending on_success / on_error events from inside their
handler, a sequence of external events (ExtEvent or a direct
`blk.event()` call with any object as event type) and a follow-up event to every block.
"""
import inspect
import sys
import itertools
import re

import edzed

from ..enc import enc, enc_data
from ..simrun import Sim

ID = 'C11'
RULE = ("hand-written seed circuits (self-loop, 2/3-cycles, diamond, every harmless outcome, early "
        "initialisation with a loop back, malformed event types) + random event graphs over 1..4 blocks "
        "(probe blocks with scripted handlers a/b/need/ping – a quarter of their sends inside try/except that swallows the exception –, Input with/without initdef and allowed set, "
        "Counter with/without modulo, OutputFunc with a returning/failing function and 0..2 on_success / 0..1 on_error "
        "events sent from inside its handler, a quarter of the first on_success events looping straight back), 0..2 on_output, 0..1 on_every_output and 0..2 explicitly sent "
        "events per block with random destination (self-loops, cycles, diamonds), event type (known, "
        "unknown, EventCond incl. nested and None branches), 0..2 filters; start-up of the circuit, "
        "then every external sequence of length <= 2 (quick: a random subset) / <= 3 over an alphabet of "
        "6..9 events per circuit or random sequences of length <= 4, then a follow-up event to every "
        "block; a case is distinct by its (lines, trace) hash and non-trivial when a handler was entered")
ASSUMPTIONS = [
    "scripted handlers either propagate the exceptions of the events they send or swallow all of them "
    "(try/except Exception: pass around one send); OutputFunc catches only the exceptions of its function",
    "values are ints/bools, so that Counter arithmetic never sees a non-number",
    "FSM chained transitions (the FSM-internal window, `_fsm_event_active/_next_event`) and Repeat are not "
    "part of this model; the `_enable_event` mechanism itself is exercised through early initialisation",
]
EXHAUSTIVE = {'quick': False, 'thorough': False}

LOG = []        # enter/exit log shared by all blocks of the running scenario
REFUSED = []    # blocks that refused a recursive event, in order
SWALLOWED = []  # (block, exception kind): a probe handler caught the exception of an event it sent
EXC_EXITS = []  # exception kinds that left an event handler
BUSY_OK = []    # blocks whose event() returned normally although their handler was running (probe depth > 0)


# ---------------------------------------------------------------- real blocks with probes

class Overflow(BaseException):
    """raised by a probe at nesting depth 4: stops a runaway recursion of a broken implementation
    (a BaseException, so that no handler in between catches it)"""


class _Traced:
    """mix-in: nesting depth per block, enter/exit log"""

    def _c11_enter(self, data):
        self._c11_depth = getattr(self, '_c11_depth', 0) + 1
        self._c11_max = max(getattr(self, '_c11_max', 0), self._c11_depth)
        v = data.get('value', edzed.UNDEF)
        LOG.append(f"+{self.name}:{self._c11_depth}:{'-' if v is edzed.UNDEF else enc(v)}")
        if self._c11_depth > 3:
            self._c11_depth -= 1
            raise Overflow(self.name)

    def event(self, etype, /, **data):
        """observe (not alter) a refusal at the block that raises it, whoever catches it later"""
        busy = getattr(self, '_c11_depth', 0) > 0
        try:
            ret = super().event(etype, **data)
            if busy:
                BUSY_OK.append(self.name)
            return ret
        except edzed.EdzedCircuitError as err:
            if 'Forbidden recursive' in str(err) and not getattr(err, '_c11_seen', False):
                err._c11_seen = True
                REFUSED.append(self.name)
            raise

    def _c11_exit(self, ok):
        self._c11_depth -= 1
        LOG.append(f"-{self.name}" + ('' if ok else '!'))
        if not ok:
            EXC_EXITS.append(kind_of(sys.exc_info()[1]))


class PB(_Traced, edzed.SBlock):
    """probe block: what the handlers do is given by scripts"""

    def __init__(self, *args, scripts, extra, **kwargs):
        self.scripts = scripts
        self.extra = extra
        super().__init__(*args, **kwargs)

    def _run(self, acts):
        for act in acts:
            if act[0] == 'o':
                self.set_output(act[1])
            elif act[0] == 's':
                ev = self.extra[act[1]]
                if act[2] is None:
                    ev.send(self)
                else:
                    ev.send(self, value=act[2])
            elif act[0] == 't':
                ev = self.extra[act[1]]
                try:
                    if act[2] is None:
                        ev.send(self)
                    else:
                        ev.send(self, value=act[2])
                except Exception as err:    # pylint: disable=broad-except
                    SWALLOWED.append((self.name, kind_of(err)))
            elif act[0] == 'r':
                raise RuntimeError('scripted failure')
            elif act[0] == 'e':
                self.circuit.findblock(f'b{act[1]}').event(py_etype(act[2]))
            else:
                raise AssertionError(act)

    def _handler(self, key, data):
        self._c11_enter(data)
        ok = False
        try:
            self._run(self.scripts[key])
            ok = True
            return None
        finally:
            self._c11_exit(ok)

    def init_regular(self):
        self._run(self.scripts['init'])

    def _event_a(self, **data):
        return self._handler('a', data)

    def _event_b(self, **data):
        return self._handler('b', data)

    def _event_need(self, *, value, **data):
        return self._handler('need', dict(data, value=value))

    def _event_ping(self, **data):
        return self._handler('ping', data)


def instrument(base):
    """subclass of a library block whose handlers log enter/exit; the wrappers have the SAME required
    keyword-only parameters as the real handlers (read from the code), so that a call that does not
    bind fails exactly where it fails in the original"""
    ns = {}
    for etype, orig in base._ct_handlers.items():
        params = list(inspect.signature(orig).parameters.values())[1:]
        req = [p.name for p in params if p.kind is p.KEYWORD_ONLY and p.default is p.empty]
        has_kw = any(p.kind is p.VAR_KEYWORD for p in params)
        sig = ', '.join(['self', '*'] + req) if req else 'self'
        if has_kw:
            sig += ', **data'
            merged = 'dict(data' + ''.join(f', {r}={r}' for r in req) + ')'
        else:
            merged = 'dict(' + ', '.join(f'{r}={r}' for r in req) + ')'
        src = (f"def _event_{etype}({sig}):\n"
               f"    return self._c11_call(_orig, {merged})\n")
        scope = {'_orig': orig}
        exec(src, scope)       # pylint: disable=exec-used
        ns[f'_event_{etype}'] = scope[f'_event_{etype}']

    def _c11_call(self, orig, data):
        self._c11_enter(data)
        ok = False
        try:
            ret = orig(self, **data)
            ok = True
            return ret
        finally:
            self._c11_exit(ok)
    ns['_c11_call'] = _c11_call
    return type('T' + base.__name__, (_Traced, base), ns)


TInput = instrument(edzed.Input)
TCounter = instrument(edzed.Counter)
TOutputFunc = instrument(edzed.OutputFunc)


def py_func(spec):
    if spec == 'v':
        return lambda value: value
    if spec == 'f':
        def fail(value):
            raise RuntimeError('output function failed')
        return fail
    const = spec[1]
    return lambda value: const

FILTERS = {
    'a': lambda data: True,
    'r': lambda data: False,
    'v': lambda data: data.get('value'),
    'w': lambda data: not data.get('value'),
    'd': lambda data: {k: v for k, v in data.items() if k != 'value'},
    'u': lambda data: data.get('previous') is not edzed.UNDEF,
}


def py_filter(f):
    if isinstance(f, list):
        val = f[1]
        return lambda data: {**data, 'value': val}
    return FILTERS[f]


def py_etype(et):
    k = et[0]
    if k == 'n':
        return et[1]
    if k == '0':
        return None
    if k == 'e':
        return ''
    if k == 'x':
        return 5
    return edzed.EventCond(py_etype(et[1]), py_etype(et[2]))


def enc_etype(et):
    k = et[0]
    if k == 'n':
        return 'n:' + et[1]
    if k == 'c':
        return f'c/{enc_etype(et[1])}/{enc_etype(et[2])}'
    return k


def enc_act(a):
    if a[0] == 'o':
        return 'o' + enc(a[1])
    if a[0] in 'st':
        return f'{a[0]}{a[1]}:' + ('-' if a[2] is None else enc(a[2]))
    if a[0] == 'r':
        return 'r'
    return f'e{a[1]}:{enc_etype(a[2])}'


def enc_script(acts):
    return ';'.join(enc_act(a) for a in acts) if acts else '-'


def enc_filters(fl):
    return ','.join('s' + enc(f[1]) if isinstance(f, list) else f for f in fl) if fl else '-'


def def_lines(scn):
    lines = [f"dispatch reset {len(scn['blocks'])}"]
    for i, b in enumerate(scn['blocks']):
        if b['kind'] == 'probe':
            lines.append(f"dispatch blk {i} probe {enc_script(b['init'])} {enc_script(b['a'])} "
                         f"{enc_script(b['b'])} {enc_script(b['need'])}")
        elif b['kind'] == 'input':
            initdef = 'u' if b['initdef'] is None else enc(b['initdef'])
            allowed = '-' if b['allowed'] is None else ','.join(enc(v) for v in b['allowed'])
            lines.append(f"dispatch blk {i} input {initdef} {allowed}")
        elif b['kind'] == 'outfunc':
            f = b['func']
            lines.append(f"dispatch blk {i} outfunc {f if isinstance(f, str) else 'c' + enc(f[1])}")
        else:
            lines.append(f"dispatch blk {i} counter {'n' if b['mod'] is None else enc(b['mod'])} {enc(b['initdef'])}")
    for src, slot, dest, et, fl in scn['edges']:
        lines.append(f"dispatch edge {src} {slot} {dest} {enc_etype(et)} {enc_filters(fl)}")
    return lines


def build(scn):
    blocks = []
    for i, b in enumerate(scn['blocks']):
        slots = {'o': [], 'e': [], 'x': [], 's': [], 'r': []}
        for src, slot, dest, et, fl in scn['edges']:
            if src == i:
                slots[slot].append(edzed.Event(f'b{dest}', py_etype(et), efilter=[py_filter(f) for f in fl]))
        kw = {'on_output': slots['o'], 'on_every_output': slots['e']}
        if b['kind'] == 'probe':
            blk = PB(f'b{i}', scripts={'init': b['init'], 'a': b['a'], 'b': b['b'], 'need': b['need'], 'ping': []},
                     extra=slots['x'], **kw)
        elif b['kind'] == 'input':
            if b['initdef'] is not None:
                kw['initdef'] = b['initdef']
            if b['allowed'] is not None:
                kw['allowed'] = b['allowed']
            blk = TInput(f'b{i}', **kw)
        elif b['kind'] == 'outfunc':
            blk = TOutputFunc(f'b{i}', func=py_func(b['func']), on_success=slots['s'], on_error=slots['r'], **kw)
        else:
            blk = TCounter(f'b{i}', modulo=b['mod'], initdef=b['initdef'], **kw)
        blocks.append(blk)
    return blocks


KINDS = (
    (edzed.EdzedUnknownEvent, 'UnknownEvent'),
    (edzed.EdzedCircuitError, 'CircuitError'),
    (edzed.EdzedInvalidState, 'InvalidState'),
    (TypeError, 'TypeError'),
    (ValueError, 'ValueError'),
    (RuntimeError, 'RuntimeError'),
)


def kind_of(exc):
    if exc is None:
        return '-'
    for cls, name in KINDS:
        if isinstance(exc, cls):
            return name
    return 'Other'


INIT = {0: 'z', -1: 'y', 1: 'p', -2: 'r', 2: 'd'}


def state_str(circuit, blocks):
    return (' '.join(f"{enc(b.output)},{int(b._event_active)},{INIT[b.init_steps_completed]}" for b in blocks)
            + f" err={kind_of(circuit.error)} stk=0")


def followups(scn):
    out = []
    for i, b in enumerate(scn['blocks']):
        # harmless events that pass the guard: ping / a call that does not bind / an unknown type
        out.append(['raw', i, ['n', {'probe': 'ping', 'outfunc': 'zz'}.get(b['kind'], 'put')], {}])
    return out


def run_impl(scn):
    lines = def_lines(scn)
    trace = ['ok'] * len(lines)
    steps = []          # what the oracle sees
    sim = Sim()
    ctx = {}
    del LOG[:]
    del REFUSED[:]
    del BUSY_OK[:]
    del SWALLOWED[:]
    del EXC_EXITS[:]

    def build_circuit(circuit):
        ctx['blocks'] = build(scn)
        return ctx['blocks']

    def record(line, op, res, exc):
        blocks = ctx['blocks']
        items = list(LOG)
        del LOG[:]
        refused = ','.join('!' + n for n in REFUSED) if REFUSED else '-'
        del REFUSED[:]
        state = state_str(sim.circuit, blocks)
        lines.append(line)
        trace.append(f"{res} | {','.join(items) if items else '-'} | {refused} | {state}")
        busy_ok = list(BUSY_OK)
        del BUSY_OK[:]
        swallowed = list(SWALLOWED)
        del SWALLOWED[:]
        exc_exits = list(EXC_EXITS)
        del EXC_EXITS[:]
        steps.append({'op': op, 'res': res, 'items': items, 'refused': refused, 'busy_ok': busy_ok, 'swallowed': swallowed, 'exc_exits': exc_exits,
                      'active': [b.name for b in blocks if b._event_active],
                      'error': kind_of(sim.circuit.error),
                      'maxdepth': max((getattr(b, '_c11_max', 0) for b in blocks), default=0)})

    def do_ops(ops, follow):
        blocks = ctx['blocks']
        for op in ops:
            kind, d, et, data = op
            if kind == 'ext':
                line = f"dispatch ext {d} {et} {enc_data(data)}"
            else:
                line = f"dispatch raw {d} {enc_etype(et)} {enc_data(data)}"
            try:
                if kind == 'ext':
                    ret = edzed.ExtEvent(blocks[d], et).send(**data)
                else:
                    ret = blocks[d].event(py_etype(et), **data)
                if isinstance(ret, tuple) and ret and ret[0] == 'error':
                    ret = ('error',)        # OutputFunc: ('error', <exception object>)
                res, exc = 'ret ' + enc(ret), None
            except (Exception, Overflow) as err:    # pylint: disable=broad-except
                res, exc = 'exc ' + kind_of(err), err
            record(line, {'kind': kind, 'd': d, 'follow': follow}, res, exc)

    async def drive(sim, blocks):
        # the start-up went well
        record('dispatch init', {'kind': 'init'}, 'ret n', None)
        do_ops(scn['ops'], False)
        do_ops(followups(scn), True)

    sim.run(build_circuit, drive)
    if sim.init_error is not None:
        # start-up failed; the simulation task has finished, the blocks still process events
        err = sim.circuit.error
        record('dispatch init', {'kind': 'init'}, 'exc ' + kind_of(err), err)
        do_ops(scn['ops'], False)
        do_ops(followups(scn), True)
    entered = sum(1 for s in steps for it in s['items'] if it.startswith('+'))
    tags = [f"n={len(scn['blocks'])}", f"init={'ok' if sim.init_error is None else 'failed'}"]
    for s in steps:
        if s['op']['kind'] != 'init' and not s['op']['follow']:
            tags.append('res=' + s['res'].split()[0] + ('' if s['res'].startswith('ret') else ':' + s['res'].split()[1]))
        if s['refused'] != '-':
            tags.append('refused')
    tags = sorted(set(tags))
    return {'lines': lines, 'trace': trace, 'steps': steps, 'tags': tags, 'nontrivial': entered > 0}


# ---------------------------------------------------------------- oracle

def oracle(scn, res):
    """the property, checked on what the real blocks did (nothing here comes from the model)"""
    out = []
    err_before = '-'
    for i, s in enumerate(res['steps']):
        op = s['op']
        # 1. nesting depth per block (measured by the probes) never exceeds 1
        deep = [it for it in s['items'] if it.startswith('+') and int(it.split(':')[1]) > 1]
        if deep:
            out.append({'clause': 'no_nested_handling',
                        'what': f"step {i} {op}: handler entered while the block was handling an event: {deep}"})
        if s['busy_ok']:
            out.append({'clause': 'recursion_is_refused_and_aborts',
                        'what': f"step {i} {op}: an event addressed to a block that was handling an event was "
                                f"not refused: {s['busy_ok']}"})
        # 2. no block stays locked after a top-level delivery, whatever its outcome
        if s['active']:
            out.append({'clause': 'guard_balanced',
                        'what': f"step {i} {op} -> {s['res']}: _event_active left set on {s['active']}"})
        # 3. the follow-up event is accepted by every block
        #    (refused at once = by the addressed block itself, before anything else happened)
        if op['kind'] != 'init' and op['follow'] and s['refused'].split(',')[0] == f"!b{op['d']}" and not s['items']:
            out.append({'clause': 'follow_up_accepted',
                        'what': f"step {i}: block b{op['d']} refuses a new event: {s['res']}"})
        # 4. the simulation is stopped exactly when documented: an exception other than
        #    EdzedUnknownEvent left an event handler (whether or not a caller catches it afterwards);
        #    an event was refused by a busy block (whoever catches that exception); a failed start-up
        failed = s['res'].startswith('exc')
        expect = any(k != 'UnknownEvent' for k in s['exc_exits']) or s['refused'] != '-'
        if op['kind'] == 'init':
            expect = expect or failed
        else:
            if s['refused'] != '-' and not failed and not s['swallowed']:
                out.append({'clause': 'recursion_is_refused_and_aborts',
                            'what': f"step {i} {op}: recursive event refused ({s['refused']}) but the sender "
                                    f"of the outer event got no exception: {s['res']}"})
            if s['refused'] != '-' and not (err_before != '-' or s['error'] != '-'):
                out.append({'clause': 'recursion_is_refused_and_aborts',
                            'what': f"step {i} {op}: recursive event refused ({s['refused']}) but the simulation goes on"
                                    + (f"; the exception was caught by {s['swallowed']}" if s['swallowed'] else ''),
                            'sig': {'swallowed': bool(s['swallowed'])}})
        if err_before == '-':
            if expect and s['error'] == '-':
                out.append({'clause': 'error_in_handler_aborts',
                            'what': f"step {i} {op} -> {s['res']} {s['items']}: simulation not stopped"})
            if not expect and s['error'] != '-':
                out.append({'clause': 'harmless_outcomes_do_not_abort',
                            'what': f"step {i} {op} -> {s['res']} {s['items']}: simulation stopped ({s['error']})"})
        elif s['error'] == '-':
            out.append({'clause': 'first_error_kept', 'what': f"step {i}: Circuit.error was reset"})
        err_before = s['error']
    return out[:4]


# ---------------------------------------------------------------- generator

def N(s):
    return ['n', s]


def probe(init=None, a=None, b=None, need=None):
    return {'kind': 'probe', 'init': [['o', 0]] if init is None else init, 'a': a or [], 'b': b or [], 'need': need or []}


def inp(initdef=0, allowed=None):
    return {'kind': 'input', 'initdef': initdef, 'allowed': allowed}


def cnt(mod=None, initdef=0):
    return {'kind': 'counter', 'mod': mod, 'initdef': initdef}


def outf(func='v'):
    return {'kind': 'outfunc', 'func': func}


def seeds():
    E = lambda d, name, data=None: ['ext', d, name, data or {}]
    R = lambda d, et, data=None: ['raw', d, et, data or {}]
    # OutputFunc: on_success loops straight back (through a filter only) / through another block;
    # a failing function whose on_error event loops back; no loop
    yield {'blocks': [outf()], 'edges': [[0, 's', 0, N('put'), [['s', 2]]]], 'ops': [E(0, 'put', {'value': 1})]}
    yield {'blocks': [outf(), inp()], 'edges': [[0, 's', 1, N('put'), []], [1, 'o', 0, N('put'), ['u']]],
           'ops': [E(0, 'put', {'value': 1}), E(1, 'put', {'value': 1})]}
    yield {'blocks': [outf('f'), probe(a=[['s', 0, 1]])], 'edges': [[0, 'r', 1, N('a'), []], [1, 'x', 0, N('put'), []]],
           'ops': [E(0, 'put', {'value': 1})]}
    yield {'blocks': [outf(['c', 3]), outf('f'), cnt()],
           'edges': [[0, 's', 1, N('put'), []], [1, 'r', 2, N('inc'), []], [0, 's', 2, ['c', N('inc'), ['0']], ['v']]],
           'ops': [E(0, 'put', {'value': 0}), E(0, 'put'), E(1, 'put', {'value': 1})]}
    # a handler that catches the exceptions of the events it sends: A -> B(try/except) -> A, and a
    # self-loop inside try/except: the refusal must stop the simulation although nobody sees the exception
    yield {'blocks': [probe(a=[['s', 0, None]]), probe(a=[['t', 0, None], ['o', 4]])],
           'edges': [[0, 'x', 1, N('a'), []], [1, 'x', 0, N('a'), []]], 'ops': [E(0, 'a'), E(1, 'a')]}
    yield {'blocks': [probe(a=[['t', 0, 1], ['t', 1, 2]]), inp()],
           'edges': [[0, 'x', 0, N('b'), []], [0, 'x', 1, N('put'), ['d']]], 'ops': [E(0, 'a')]}
    # swallowed harmless errors (unknown event, call that does not bind) and a swallowed handler error
    yield {'blocks': [probe(a=[['t', 0, None], ['t', 1, None], ['t', 2, 0]], need=[['r']]), cnt()],
           'edges': [[0, 'x', 1, N('zz'), []], [0, 'x', 1, N('put'), []], [0, 'x', 0, N('zz'), []]],
           'ops': [E(0, 'a'), E(1, 'inc')]}
    yield {'blocks': [probe(a=[['t', 0, 1]]), probe(need=[['r']])], 'edges': [[0, 'x', 1, N('need'), []]],
           'ops': [E(0, 'a'), E(0, 'a')]}
    # self-loop through on_output
    yield {'blocks': [probe(a=[['o', 1]])], 'edges': [[0, 'o', 0, N('a'), []]], 'ops': [E(0, 'a'), E(0, 'a')]}
    # 2-cycle and 3-cycle through explicitly sent events
    yield {'blocks': [probe(a=[['s', 0, 1]]), probe(a=[['s', 0, None]])],
           'edges': [[0, 'x', 1, N('a'), []], [1, 'x', 0, N('a'), []]], 'ops': [E(0, 'a'), E(1, 'a')]}
    yield {'blocks': [probe(a=[['s', 0, 1]]), probe(b=[['s', 0, None]]), inp()],
           'edges': [[0, 'x', 1, N('b'), []], [1, 'x', 2, N('put'), [['s', 7]]], [2, 'o', 0, N('a'), []]],
           'ops': [E(0, 'a'), E(2, 'put', {'value': 3})]}
    # diamond: b0 -> b1, b2 -> b3 (no recursion: the second arrival comes after the first has finished)
    yield {'blocks': [inp(), probe(a=[['s', 0, 1]]), probe(a=[['s', 0, 2]]), cnt(mod=3)],
           'edges': [[0, 'o', 1, N('a'), []], [0, 'o', 2, N('a'), []], [1, 'x', 3, N('inc'), []], [2, 'x', 3, N('inc'), []]],
           'ops': [E(0, 'put', {'value': 1}), E(0, 'put', {'value': 2})]}
    # every harmless outcome at top level and nested
    yield {'blocks': [probe(a=[['s', 0, 1], ['s', 1, 0], ['s', 2, 1]], need=[['o', 5]]), inp(allowed=[0, 1])],
           'edges': [[0, 'x', 1, N('put'), ['r']], [0, 'x', 1, ['c', N('put'), ['0']], []], [0, 'x', 1, N('put'), ['v']]],
           'ops': [E(0, 'a'), E(0, 'zz'), E(0, 'need'), E(1, 'put'), E(1, 'put', {'value': 9}), E(0, 'need', {'value': 1})]}
    # nested parameter error / nested unknown event / handler error
    yield {'blocks': [probe(a=[['s', 0, None]], b=[['s', 1, 1]], need=[['r']]), cnt()],
           'edges': [[0, 'x', 1, N('put'), []], [0, 'x', 1, N('zz'), []]],
           'ops': [E(0, 'b'), E(0, 'a'), E(0, 'need', {'value': 0})]}
    yield {'blocks': [probe(need=[['r']]), cnt()], 'edges': [], 'ops': [E(0, 'need', {'value': 0}), E(1, 'inc')]}
    # malformed event types: the checks precede the guard
    yield {'blocks': [probe(), inp(), cnt()], 'edges': [],
           'ops': [R(0, ['e']), R(1, ['x']), R(2, ['0']), R(0, ['c', ['e'], ['x']]), R(0, ['c', ['0'], ['0']])]}
    yield {'blocks': [probe(a=[['e', 1, ['e']]]), probe(a=[['e', 0, ['x']]])], 'edges': [], 'ops': [E(0, 'a'), E(1, 'a')]}
    # early initialisation: b0's start-up sends an event to the uninitialised b1 ...
    #  ... whose handler loops back to b1 (must be refused although _enable_event was used)
    yield {'blocks': [inp(initdef=1), probe(a=[['s', 0, 1]])],
           'edges': [[0, 'o', 1, N('a'), []], [1, 'x', 1, N('b'), []]], 'ops': [E(0, 'put', {'value': 2})]}
    #  ... whose initialisation sends an event to itself (allowed: initialisation by an event)
    yield {'blocks': [inp(initdef=1), inp(initdef=2), probe(init=[['o', 1]])],
           'edges': [[0, 'o', 1, N('put'), []], [1, 'o', 2, N('a'), []], [2, 'o', 2, N('b'), []]],
           'ops': [E(0, 'put', {'value': 5}), E(1, 'put', {'value': 5})]}
    #  ... and the loop goes through the block that is being initialised by the simulator
    yield {'blocks': [probe(init=[['o', 1]], a=[['o', 2]]), probe(init=[['o', 3]], a=[['s', 0, 1]])],
           'edges': [[0, 'o', 1, N('a'), []], [1, 'x', 0, N('a'), []]], 'ops': [E(1, 'a'), E(0, 'a')]}
    # uninitialised input waiting for an event; never initialised
    yield {'blocks': [inp(initdef=None), inp(initdef=3)], 'edges': [[1, 'o', 0, N('put'), []]], 'ops': [E(0, 'put', {'value': 1})]}
    yield {'blocks': [inp(initdef=None), probe()], 'edges': [], 'ops': [R(0, N('put'), {'value': 1}), R(0, N('put'))]}
    # failure inside an early initialisation (raise in init_regular of the destination)
    yield {'blocks': [probe(a=[['s', 0, 1]]), probe(init=[['r']])], 'edges': [[0, 'o', 1, N('a'), []]], 'ops': [R(1, N('a')), R(0, N('a'))]}


VALUES = [0, 1, 2, 3, True, False]


def rand_etype(rng, kind, depth=0):
    names = {'probe': ['a', 'a', 'b', 'b', 'need', 'ping', 'zz'],
             'input': ['put', 'put', 'put', 'zz'],
             'counter': ['inc', 'inc', 'dec', 'put', 'reset', 'zz'],
             'outfunc': ['put', 'put', 'put', 'put', 'zz']}[kind]
    r = rng.random()
    if r < 0.72 or depth >= 2:
        return N(rng.choice(names))

    def branch():
        q = rng.random()
        if q < 0.35:
            return ['0']
        if q < 0.40:
            return [rng.choice(['e', 'x'])]
        return rand_etype(rng, kind, depth + 1)
    return ['c', branch(), branch()]


def rand_filters(rng):
    fl = []
    for _ in range(rng.choice([0, 0, 0, 1, 1, 2])):
        f = rng.choice(['a', 'r', 'v', 'v', 'w', 'd', 's'])
        fl.append(['s', rng.choice(VALUES)] if f == 's' else f)
    return fl


def rand_circuit(rng):
    """style 'quiet' (60 %): the output events of the start-up are filtered out (not_from_undef) and every
    block initialises by itself, so that the circuit starts and the loops are met by the external events;
    otherwise events (and loops) occur already during the initialisation"""
    quiet = rng.random() < 0.6
    n = rng.choice([1, 2, 2, 3, 3, 3, 4])
    kinds = [rng.choice(['probe', 'probe', 'probe', 'input', 'input', 'counter', 'outfunc', 'outfunc']) for _ in range(n)]
    edges, nextra = [], [0] * n
    # a backbone cycle or chain makes loops likely
    shape = rng.random()
    for i in range(n):
        for slot, cnt_ in (('o', rng.choice([0, 1, 1, 2])), ('e', rng.choice([0, 0, 0, 1])),
                           ('x', rng.choice([0, 1, 2]) if kinds[i] == 'probe' else 0),
                           ('s', rng.choice([0, 1, 1, 2]) if kinds[i] == 'outfunc' else 0),
                           ('r', rng.choice([0, 1]) if kinds[i] == 'outfunc' else 0)):
            for k in range(cnt_):
                if slot == 's' and k == 0 and rng.random() < 0.25:
                    dest = i                    # on_success straight back to the OutputFunc
                elif shape < 0.4 and k == 0:
                    dest = (i + 1) % n
                else:
                    dest = rng.randrange(n)
                fl = rand_filters(rng)
                if quiet and slot in 'oe':
                    fl.insert(rng.randrange(len(fl) + 1), 'u')
                edges.append([i, slot, dest, rand_etype(rng, kinds[dest]), fl])
                if slot == 'x':
                    nextra[i] += 1
    blocks = []
    for i, k in enumerate(kinds):
        if k == 'probe':
            def script(maxlen=3):
                acts = []
                for _ in range(rng.choice([0, 1, 1, 2, maxlen])):
                    r = rng.random()
                    if r < 0.45:
                        acts.append(['o', rng.choice(VALUES)])
                    elif r < 0.85 and nextra[i]:
                        acts.append(['s' if rng.random() < 0.75 else 't', rng.randrange(nextra[i]),
                                     rng.choice(VALUES + [None, None])])
                    elif r < 0.90:
                        acts.append(['r'])
                    elif r < 0.96:
                        d = rng.randrange(n)
                        acts.append(['e', d, rand_etype(rng, kinds[d]) if rng.random() < 0.6 else [rng.choice(['e', 'x', '0'])]])
                return acts
            r = rng.random()
            init = [['o', rng.choice(VALUES)]] if r < 0.75 or quiet else (
                [] if r < 0.82 else [['o', rng.choice(VALUES)]] + script(2))
            blocks.append(probe(init=init, a=script(), b=script(), need=script()))
        elif k == 'outfunc':
            blocks.append(outf(rng.choice(['v', 'v', 'v', 'f', ['c', rng.choice(VALUES)]])))
        elif k == 'input':
            allowed = None if rng.random() < 0.7 else [0, 1, 2]
            initdef = rng.choice([0, 1, 2]) if rng.random() < 0.8 or quiet else None
            blocks.append(inp(initdef=initdef, allowed=allowed))
        else:
            blocks.append(cnt(mod=rng.choice([None, None, 3]), initdef=rng.choice([0, 1])))
    return {'blocks': blocks, 'edges': edges}


def alphabet(rng, circ):
    """external events offered to a circuit"""
    ops = []
    for i, b in enumerate(circ['blocks']):
        k = b['kind']
        if k == 'probe':
            ops += [['ext', i, 'a', {}], ['ext', i, 'b', {'value': rng.choice(VALUES)}],
                    ['ext', i, rng.choice(['need', 'zz']), rng.choice([{}, {'value': 1}])]]
        elif k == 'outfunc':
            ops += [['ext', i, 'put', {'value': rng.choice(VALUES)}], ['ext', i, 'put', {'value': rng.choice(VALUES)}],
                    ['ext', i, rng.choice(['put', 'zz']), {}]]
        elif k == 'input':
            ops += [['ext', i, 'put', {'value': rng.choice(VALUES)}], ['ext', i, 'put', {'value': rng.choice(VALUES)}],
                    ['ext', i, rng.choice(['put', 'zz']), {}]]
        else:
            ops += [['ext', i, 'inc', rng.choice([{}, {'amount': 2}])], ['ext', i, rng.choice(['dec', 'reset']), {}],
                    ['ext', i, 'put', rng.choice([{}, {'value': rng.choice([0, 1, 2, 3])}])]]
    i = rng.randrange(len(circ['blocks']))
    ops.append(['raw', i, rng.choice([['e'], ['x'], ['0'], ['c', ['0'], ['0']],
                                      ['c', rand_etype(rng, circ['blocks'][i]['kind']), ['0']]]),
                rng.choice([{}, {'value': 1}])])
    return ops


def scenarios(rng, tier):
    yield from seeds()
    ncirc, nseq = (2500, 5) if tier == 'quick' else (20000, 8)
    for c in range(ncirc):
        circ = rand_circuit(rng)
        alpha = alphabet(rng, circ)
        if tier == 'thorough' and len(circ['blocks']) <= 2 and c % 8 == 0:
            # all sequences up to length 3 over the circuit's alphabet
            for ln in (1, 2, 3):
                for seq in itertools.product(alpha, repeat=ln):
                    yield {**circ, 'ops': [list(o) for o in seq]}
            continue
        if len(circ['blocks']) <= 2 and c % 12 == 0:
            for seq in itertools.product(alpha, repeat=2):
                yield {**circ, 'ops': [list(o) for o in seq]}
            continue
        yield {**circ, 'ops': []}
        for _ in range(nseq):
            yield {**circ, 'ops': [list(rng.choice(alpha)) for _ in range(rng.choice([1, 2, 3, 3, 4]))]}


def shrink(scn):
    ops = scn['ops']
    for i in reversed(range(len(ops))):
        yield {**scn, 'ops': ops[:i] + ops[i + 1:]}
    edges = scn['edges']
    for i in reversed(range(len(edges))):
        # removing an explicitly sent event would renumber the scripts' indexes: keep those
        if edges[i][1] != 'x':
            yield {**scn, 'edges': edges[:i] + edges[i + 1:]}
    for i, e in enumerate(edges):
        if e[4]:
            yield {**scn, 'edges': edges[:i] + [e[:4] + [[]]] + edges[i + 1:]}
    for i, b in enumerate(scn['blocks']):
        if b['kind'] == 'probe':
            for key in ('a', 'b', 'need'):
                for j in range(len(b[key])):
                    nb = {**b, key: b[key][:j] + b[key][j + 1:]}
                    yield {**scn, 'blocks': scn['blocks'][:i] + [nb] + scn['blocks'][i + 1:]}
