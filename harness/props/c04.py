"""
C04 -- timed FSM states: correspondence with lean/EdzedModel/FsmTimer.lean + independent oracle.

A scenario is one FSM block (a dynamically created generic FSM class, edzed.Timer or
edzed.InputExp) in a real circuit run by the real simulator task on the virtual-time loop, a
script of stimuli placed on the virtual clock (B = before the timers of that instant, T = as a
loop timer of the same instant, A = after them), a shutdown with other blocks sending events to
the FSM from their stop() (the clean-up), and an after-run of 3x the longest duration.

Observed: a time-stamped sequential log (entry/exit actions, on_enter/on_exit/on_output/on_notrans
events received by a probe block, and arm / cancel / fire of the loop's TimerHandles whose
callback belongs to the FSM), and after every step a snapshot (state, output, get_state() timer,
the loop's pending non-cancelled handles of the FSM).
"""
import asyncio
import heapq
import itertools

import edzed

from .. import vtime
from ..enc import enc
from ..runner import shrink_ops

ID = 'C04'
RULE = ("one FSM block per scenario: random generic timed FSM classes (2-4 states, specific/any-state/None "
        "rules, timed events by name or Goto, class default / t_STATE / per-event durations from "
        "{None, INF, 0, negative, d1, d2, strings with units, unparsable}, conditions incl. one the environment "
        "toggles, entry actions sending an event to the FSM itself), edzed.Timer (t_on/t_off/t_period, "
        "restartable or not, both initial states) and edzed.InputExp; 3-14 stimuli placed 1 us before / exactly "
        "at (placements B, T, A) / 1 us after the expiry instants reachable from the chosen durations; shutdown "
        "with 0-3 other blocks sending events to the FSM from their stop(); after-run of 3x the longest "
        "duration; a saved state restored before the initdef (Timer and generic FSM: state timed / untimed / "
        "unknown, expiry none / past / future, calc_output regular / raising / returning UNDEF during the restore, "
        "initdef timed / untimed; 12 % of the random scenarios get a random saved state). thorough adds the "
        "exhaustive enumeration of Timer configurations x event sequences <= 3 x "
        "placements around the expiry. distinct = hash of (lines, trace); non-trivial = at least one timer "
        "fired or was cancelled")
ASSUMPTIONS = [
    "asyncio's call_later/TimerHandle.cancel are trusted to fire a non-cancelled handle at `when` and never a "
    "cancelled one (the virtual-time loop runs the real asyncio scheduling code with an integer us clock)",
    "durations are integral microseconds (floats k/1e6) and unit strings from a fixed table; the conversion of "
    "unit strings itself is C19's subject",
    "the time stamp of a saved state is exact in microseconds (the virtual wall clock of the restore scenarios "
    "starts at the epoch, so that float seconds carry no rounding error); the block is restored at loop time 0",
    "user callbacks are represented by scripts (conditions: constant / environment flag / state test; entry "
    "action: send one event to the FSM itself)",
]
EXHAUSTIVE = {'quick': False, 'thorough': False}

D1, D2 = 300_000, 700_000
STRS = {'1m30s': 90_000_000, '0.5s': 500_000, '2': 2_000_000, '0s': 0, '0m1,25s': 1_250_000, 'PT3S': 3_000_000}
BAD = 'abc'
INF = float('inf')


# ----------------------------------------------------------------------------- encodings

def dur_py(d):
    """scenario duration -> the Python value handed to edzed"""
    if d is None:
        return None
    if d == 'inf':
        return INF
    if d == 'bad':
        return BAD
    if isinstance(d, list):
        return d[1]
    if d % 1_000_000 == 0 and (d // 1_000_000) % 2 == 1:
        return d // 1_000_000       # an int number of seconds now and then
    return d / 1e6


def dur_us(d):
    """scenario duration -> None | 'inf' | 'bad' | int microseconds"""
    if isinstance(d, list):
        return STRS[d[1]]
    return d


def dur_tok(d):
    d = dur_us(d)
    return '-' if d is None else str(d)


def tev_py(tev):
    return edzed.Goto(tev[1]) if tev[0] == 'G' else tev[1]


def tev_tok(tev):
    return f'{tev[0]}.{tev[1]}'


def tev_of(obj):
    return ['G', obj.state] if isinstance(obj, edzed.Goto) else ['E', obj]


def kind_of(err):
    if err is None:
        return '-'
    cause = err.__cause__ if isinstance(err, edzed.EdzedCircuitError) and err.__cause__ is not None else err
    for cls, name in ((edzed.EdzedUnknownEvent, 'UnknownEvent'), (edzed.EdzedCircuitError, 'CircuitError'),
                      (edzed.EdzedInvalidState, 'InvalidState'), (KeyError, 'KeyError'),
                      (ValueError, 'ValueError'), (TypeError, 'TypeError'), (AssertionError, 'AssertionError')):
        if isinstance(cause, cls):
            return name
    return 'Other'


# ----------------------------------------------------------------------------- recording loop

class Rec:
    def __init__(self):
        self.loop = None
        self.log = []           # [t, kind, args...]
        self.handles = {}
        self.fired = set()
        self.next_id = 0
        self.fsm = None

    def add(self, kind, *args):
        self.log.append([self.loop.now_us, kind, *args])


class LHandle(asyncio.TimerHandle):
    """TimerHandle of the watched FSM; reports its cancellation"""

    def cancel(self):
        if not self._cancelled and self.hid not in self.rec.fired:
            self.rec.add('cancel', self.hid)
        super().cancel()


class TLoop(vtime.VLoop):
    rec = None

    def call_at(self, when, callback, *args, context=None):
        rec = self.rec
        if rec is None or rec.fsm is None or getattr(callback, '__self__', None) is not rec.fsm:
            return super().call_at(when, callback, *args, context=context)
        self._check_closed()
        hid = rec.next_id
        rec.next_id += 1
        tev = tev_of(args[0])

        def fired(*a):
            rec.fired.add(hid)
            rec.add('fire', hid, tev)
            return callback(*a)
        timer = LHandle(when, fired, args, self, context)
        timer.hid, timer.rec, timer.when_us = hid, rec, round(when * 1e6)
        if timer._source_traceback:
            del timer._source_traceback[-1]
        heapq.heappush(self._scheduled, timer)
        timer._scheduled = True
        rec.handles[hid] = timer
        rec.add('arm', hid, timer.when_us, tev)
        return timer

    def fsm_handles(self):
        """the loop's pending non-cancelled handles that belong to the FSM"""
        hs = [h for h in list(self._scheduled) + list(self._ready)
              if isinstance(h, LHandle) and not h._cancelled and h.hid not in h.rec.fired]
        return sorted((h.hid, h.when_us) for h in hs)


class ProbeBlk(edzed.SBlock):
    def __init__(self, *args, rec, **kwargs):
        self.rec = rec
        super().__init__(*args, **kwargs)

    def _event(self, etype, data):
        trig = data.get('trigger')
        if trig == 'enter':
            self.rec.add('onenter', data['state'])
        elif trig == 'exit':
            self.rec.add('onexit', data['state'])
        elif trig == 'output':
            self.rec.add('out', enc(data['value']))
        elif trig == 'notrans':
            self.rec.add('notrans', data['event'], data['state'])
        return None

    def init_regular(self):
        self.set_output(None)


class Stopper(edzed.SBlock):
    """another block of the circuit that sends an event to the FSM from its stop()"""

    def __init__(self, *args, action, **kwargs):
        self.action = action
        super().__init__(*args, **kwargs)

    def init_regular(self):
        self.set_output(None)

    def stop(self):
        self.action(self)
        super().stop()


# ----------------------------------------------------------------------------- building the FSM

def mk_calc(base, env):
    """calc_output() of the block under test: while `_restore_state` runs it may fail once (an application-defined
    calc_output that raises on the restored state) or return UNDEF ("leave the output unchanged")"""
    def calc_output():
        mode, env['calc_mode'] = env.get('calc_mode'), None
        if mode == 'r':
            raise KeyError('calc_output fault during restore')
        if mode == 'u':
            return edzed.UNDEF
        return base()
    return calc_output


def build_fsm(scn, rec, env):
    probe = ProbeBlk('probe', rec=rec)
    ev = edzed.Event(probe)
    kind = scn['kind']
    kw = {}
    if kind == 'gen':
        ns = {
            'STATES': list(scn['states']),
            'EVENTS': [(e, f, t) for e, f, t in scn['trans']],
            'TIMERS': {q: (dur_py(d), tev_py(tev)) for q, tev, d in scn['timed']},
        }
        # events without any rule must still be known
        known = {e for e, _f, _t in scn['trans']}
        assert known == set(scn['events']), (known, scn['events'])
        cls = type('GenFSM', (edzed.FSM,), ns)
        states = scn['states']
        for q, d in scn['tdur']:
            kw['t_' + q] = dur_py(d)
        for e, ck, *arg in scn['conds']:
            if ck == 'true':
                kw['cond_' + e] = lambda: True
            elif ck == 'false':
                kw['cond_' + e] = lambda: 0
            elif ck == 'gate':
                kw['cond_' + e] = lambda: env['gate']
            elif ck == 'ne':
                kw['cond_' + e] = (lambda q: lambda: env['fsm'].state != q)(arg[0])
        kw['initdef'] = scn['init']
        enter_send = {q: (tev, d) for q, tev, d in scn['enter']}
    elif kind == 'timer':
        cls = edzed.Timer
        states = ['off', 'on']
        for key, arg in (('period', 't_period'), ('ton', 't_on'), ('toff', 't_off')):
            if scn.get(key) is not None or key in scn.get('given_none', ()):
                kw[arg] = dur_py(scn.get(key))
        kw['restartable'] = scn.get('restartable_obj', scn['restartable'])
        if scn.get('init') is not None:
            kw['initdef'] = scn['init']
        enter_send = {}
    else:
        cls = edzed.InputExp
        states = ['expired', 'valid']
        kw['duration'] = dur_py(scn['duration'])
        kw['expired'] = scn['expired']
        if scn.get('has_initdef'):
            kw['initdef'] = scn['initdef']
        enter_send = {}

    def mk_enter(q):
        def enter():
            rec.add('enter', q)
            if q in enter_send:
                tev, d = enter_send[q]
                data = {} if d is None and env['rng_none_absent'] else {'duration': dur_py(d)}
                env['fsm'].event(tev_py(tev), **data)
        return enter

    for q in states:
        kw['enter_' + q] = mk_enter(q)
        kw['exit_' + q] = (lambda q: lambda: rec.add('exit', q))(q)
        kw['on_enter_' + q] = ev
        kw['on_exit_' + q] = ev
    if scn.get('restore'):
        kw['persistent'] = True
    fsm = cls('fsm', on_notrans=ev, on_output=ev, **kw)
    if scn.get('restore'):
        # on the instance: the class (edzed.Timer itself, with its cond_ methods) stays what it is
        fsm.calc_output = mk_calc(fsm.calc_output, env)
    env['fsm'] = fsm
    rec.fsm = fsm
    return fsm


def reset_line(scn):
    kind = scn['kind']
    if kind == 'timer':
        # the keyword arguments as they are given to Timer(): `~` = not given, `-` = None
        def tok(key):
            if scn.get(key) is None:
                return '-' if key in scn.get('given_none', ()) else '~'
            return dur_tok(scn[key])
        return (f"fsmtimer reset timerkw {tok('period')} {tok('ton')} {tok('toff')} "
                f"{'b1' if scn['restartable'] else 'b0'} {scn.get('init') or '-'}")
    if kind == 'iexp':
        return (f"fsmtimer reset iexp {dur_tok(scn['duration'])} {enc(scn['expired'])} "
                f"{enc(scn['initdef']) if scn.get('has_initdef') else '-'}")

    def lst(items):
        items = list(items)
        return ','.join(items) if items else '-'
    return ('fsmtimer reset gen '
            f"states={lst(scn['states'])} events={lst(scn['events'])} "
            f"trans={lst(f'{e}:{f or chr(42)}:{t or chr(45)}' for e, f, t in scn['trans'])} "
            f"timed={lst(f'{q}:{tev_tok(tev)}:{dur_tok(d)}' for q, tev, d in scn['timed'])} "
            f"tdur={lst(f'{q}:{dur_tok(d)}' for q, d in scn['tdur'])} "
            f"conds={lst(':'.join([e, ck, *arg]) for e, ck, *arg in scn['conds'])} "
            f"enter={lst(f'{q}:{tev_tok(tev)}:{dur_tok(d)}' for q, tev, d in scn['enter'])} "
            f"init={scn['init']}")


def entry_str(entry):
    t, kind, *args = entry
    if kind in ('arm',):
        return f'{t}:arm.{args[0]}.{args[1]}.{tev_tok(args[2])}'
    if kind == 'fire':
        return f'{t}:fire.{args[0]}.{tev_tok(args[1])}'
    return f'{t}:{kind}.' + '.'.join(str(a) for a in args)


def longest(scn):
    ds = [D1]
    def add(d):
        d = dur_us(d)
        if isinstance(d, int):
            ds.append(d)
    if scn['kind'] == 'gen':
        for _q, _tev, d in scn['timed']:
            add(d)
        for _q, d in scn['tdur']:
            add(d)
        for _q, _tev, d in scn['enter']:
            add(d)
    elif scn['kind'] == 'timer':
        for k in ('ton', 'toff', 'period'):
            add(scn.get(k))
    else:
        add(scn['duration'])
    for op in scn['ops']:
        if op[0] == 'ev':
            add(op[4])
    for st in scn.get('stoppers', []):
        add(st[1])
    return max(ds)


# ----------------------------------------------------------------------------- implementation run

class _Regrade(Exception):
    """a timer due at the same instant fired after the B- or T-placed stimulus had aborted the
    simulation (the loop runs the due timers before the simulator task notices the abort and stops
    the blocks); the model ends the run at the abort, so the scenario is re-run with this stimulus
    placed after the timers of its instant (A)"""


def run_impl(scn):
    """The order in which the simulator stops the blocks is the iteration order of a Python set: run
    the scenario again (at most 8 times) until the order in which the implementation happened to stop
    the blocks puts at least one of the other blocks' events after FSM.stop() -- unless the
    scenario asks for whatever comes first."""
    res = None
    for _ in range(8 if scn.get('stoppers') and scn.get('want_after_stop', True) else 1):
        res = _run_regraded(scn)
        if 'event-after-fsm-stop' in res['tags'] or res['aborted']:
            break
    return res


def _run_regraded(scn):
    for _ in range(4):
        try:
            return _run_impl(scn)
        except _Regrade as rg:
            idx = rg.args[0]
            ops = [list(o) for o in scn['ops']]
            assert ops[idx][0] == 'ev' and ops[idx][2] in ('T', 'B'), (idx, ops[idx])
            ops[idx][2] = 'A'
            scn = {**scn, 'ops': ops}
    raise AssertionError('regrading does not converge')


def _run_impl(scn):
    rec = Rec()
    env = {'gate': True, 'fsm': None, 'rng_none_absent': bool(scn.get('none_absent', True))}
    lines, trace, steps = [reset_line(scn)], ['ok'], []
    # a saved state carries a wall-clock time stamp (float seconds): with the wall clock starting at the epoch the
    # time stamps of the restore scenarios are exact in microseconds, as the loop times are
    world = vtime.World(wall0=vtime.EPOCH) if scn.get('restore') else vtime.World()
    vtime.install(world)
    edzed.reset_circuit()
    circuit = edzed.get_circuit()
    try:
        fsm = build_fsm(scn, rec, env)
    except Exception as err:
        vtime.uninstall()
        if scn['kind'] == 'timer':
            # the constructor refused its keyword arguments: the model's `timerNew` must refuse them too (with the
            # same kind of error); the oracle knows from the scenario alone whether a refusal is expected
            trace[0] = 'err ' + type(err).__name__
            return {'lines': lines, 'trace': trace, 'steps': [], 'tags': ['kind=timer', 'ctor=' + type(err).__name__],
                    'nontrivial': True, 'aborted': False, 'ctor_error': type(err).__name__}
        raise AssertionError(f'invalid scenario: {err!r}') from err     # the generator does not produce others
    state = {'aborted': False, 'cursor': 0}

    def failure():
        """kind of the error that aborted the simulation (an error raised by an event during the
        clean-up cannot replace the CancelledError of the shutdown: remember it separately)"""
        err = circuit.error
        if err is not None and not isinstance(err, asyncio.CancelledError):
            return kind_of(err)
        return state.get('err_seen')

    def aborted():
        return failure() is not None

    def snap():
        loop = rec.loop
        st = 'u' if fsm.state is edzed.UNDEF else fsm.state
        try:
            ts = fsm.get_state()[1]
            tm = None if ts is None else round(ts * 1e6) - state['wall0']
        except edzed.EdzedInvalidState:
            tm = '!'
        sn = {'now': loop.now_us, 'st': st, 'out': enc(fsm.output),
              'in': enc(fsm.sdata['input']) if 'input' in fsm.sdata else '-',
              'tm': tm, 'live': loop.fsm_handles(), 'failed': failure() or '-'}
        return sn

    def snap_str(sn):
        live = ','.join(f'{i}@{w}' for i, w in sn['live'])
        tm = '-' if sn['tm'] is None else sn['tm']
        return (f"now={sn['now']} st={sn['st']} out={sn['out']} in={sn['in']} tm={tm} "
                f"live=[{live}] failed={sn['failed']}")

    def emit(line, res, entries, sn, **extra):
        entries = [e for e in entries if not is_abort_mark(e)]
        lines.append('fsmtimer ' + line)
        trace.append(f"{res} | {';'.join(entry_str(e) for e in entries)} | {snap_str(sn)}")
        steps.append({'line': line, 'res': res, 'log': [list(e) for e in entries], 'snap': sn, **extra})

    def take(upto=None):
        """log entries since the last call"""
        end = len(rec.log) if upto is None else upto
        out = rec.log[state['cursor']:end]
        state['cursor'] = end
        return out

    def is_abort_mark(e):
        return e[1] == 'mark' and e[2] == 'abort'

    def send(tev, d, value):
        data = {}
        if d is not None or not env['rng_none_absent']:
            data['duration'] = dur_py(d)
        if value != '-':
            data['value'] = value
        try:
            r = fsm.event(tev_py(tev), **data)
            return 'ret1' if r else 'ret0'
        except edzed.EdzedUnknownEvent:
            return 'unknown'
        except Exception as err:
            state.setdefault('err_seen', kind_of(err))
            return 'err:' + kind_of(err)

    def ev_line(t, pl, tev, d, value):
        return f"ev {t} {pl} {tev_tok(tev)} {dur_tok(d)} {'-' if value == '-' else enc(value)}"

    stoppers = scn.get('stoppers', [])

    def stopper_action(k):
        def action(_blk):
            if aborted():
                return
            tev, d, value = stoppers[k]
            rec.add('mark', 'stopper-begin', k)
            res = send(tev, d, value)
            rec.add('mark', 'stopper-end', k, res, snap())
        return action

    for k in range(len(stoppers)):
        Stopper(f'stopper{k}', action=stopper_action(k))
    rst = scn.get('restore')
    if rst:
        orig_restore = fsm._restore_state

        def logged_restore(istate):
            rec.add('mark', 'restore-begin')
            env['calc_mode'] = rst['mode']
            res = 'ret1'
            try:
                orig_restore(istate)
            except Exception as err:
                res = 'err:' + kind_of(err)
                raise
            finally:
                env['calc_mode'] = None
                rec.add('mark', 'restore-end', res, snap())
        fsm._restore_state = logged_restore
    orig_stop = fsm.stop

    def logged_stop():
        rec.add('mark', 'fsmstop-begin')
        orig_stop()
        rec.add('mark', 'fsmstop-end', snap())
    fsm.stop = logged_stop
    orig_abort = circuit.abort

    def logged_abort(exc):
        first = circuit.error is None
        orig_abort(exc)
        if first and not isinstance(exc, asyncio.CancelledError):
            rec.add('mark', 'abort', snap())
    circuit.abort = logged_abort

    async def adv_to(loop, t):
        """advance instant by instant; return False at the instant of an abort"""
        while True:
            await vtime.settle(loop)
            if aborted():
                return False
            nxt = loop.next_timer_us()
            if nxt is None or nxt > t:
                break
            loop.set_us(max(nxt, loop.now_us))
        if t > loop.now_us:
            loop.set_us(t)
        await vtime.settle(loop)
        return not aborted()

    def split_shutdown(entries):
        """emit the lines of the clean-up phase from the marks left in the log"""
        cur = []
        for e in entries:
            if e[1] != 'mark':
                cur.append(e)
                continue
            what = e[2]
            if what in ('stopper-begin', 'fsmstop-begin'):
                if cur and state.get('op_T') is not None:
                    raise _Regrade(state['op_T'])
                assert not cur, cur
            elif what == 'stopper-end':
                k, res, sn = e[3], e[4], e[5]
                tev, d, value = stoppers[k]
                emit(ev_line(e[0], 'B', tev, d, value), res, cur, sn, stim=[tev, d, value],
                     phase='cleanup', after_stop=state.get('fsm_stopped', False))
                cur = []
            elif what == 'fsmstop-end':
                emit('stop', 'ret1', cur, e[3], phase='stop')
                state['fsm_stopped'] = True
                cur = []
        assert not cur, cur

    def cut_at_shutdown(entries):
        for i, e in enumerate(entries):
            if e[1] == 'mark' and not is_abort_mark(e):
                return entries[:i], entries[i:]
        return entries, []

    def emit_checked(line, res, entries, sn, **extra):
        """emit one line; when the simulation was aborted during it use the snapshot taken at the
        abort, emit the lines of the clean-up that followed and return False (loop must be settled)"""
        if aborted():
            state['aborted'] = True
            entries = entries + take()
            pos = next((i for i, e in enumerate(entries) if is_abort_mark(e)), None)
            if pos is not None:
                state.setdefault('abort_snap', entries[pos][3])
                late = [e for e in entries[pos + 1:] if e[1] != 'mark' or e[2] != 'abort']
                late, _ = cut_at_shutdown(late)
                if late:
                    # something happened between the abort and the clean-up
                    if state.get('op_T') is not None:
                        raise _Regrade(state['op_T'])
                    raise AssertionError(f'activity after the abort: {late}')
            before, rest = cut_at_shutdown([e for e in entries if not is_abort_mark(e)])
            emit(line, res, before, state.get('abort_snap') or sn, **extra)
            split_shutdown(rest)
            return False
        before, rest = cut_at_shutdown(entries)
        assert not rest, rest
        emit(line, res, before, sn, **extra)
        return True

    async def main(loop):
        rec.loop = loop
        state['wall0'] = world.wall_us - world.loop_base
        if rst:
            # the saved state as get_state() produces it: (state, expiration as a wall-clock time stamp, sdata)
            exp_ts = None if rst['exp'] is None else (state['wall0'] + rst['exp']) / 1e6
            circuit.set_persistent_data({fsm.key: (rst['q'], exp_ts, {})})
        simtask = asyncio.create_task(circuit.run_forever())
        try:
            await circuit.wait_init()
        except Exception:
            pass
        await vtime.settle(loop)
        first = take()
        restored = False
        if rst:
            pos = next((i for i, e in enumerate(first) if e[1] == 'mark' and e[2] == 'restore-end'), None)
            assert pos is not None and first[0][1:3] == ['mark', 'restore-begin'], first[:3]
            rsn = first[pos][4]
            emit(f"restore {rst['q']} {'-' if rst['exp'] is None else rst['exp']} - {rst['mode'][0]}", first[pos][3],
                 first[1:pos], rsn, phase='restore')
            first = first[pos + 1:]
            restored = rsn['out'] != enc(edzed.UNDEF)
        if restored:
            # initialised from the saved state: init_from_value(initdef) is not called
            assert not first and not aborted(), first
            ok = True
        else:
            ok = emit_checked('init', 'err:' + failure() if aborted() else 'ret1', first, snap(), phase='init')
        for idx, op in enumerate(scn['ops']):
            if not ok:
                break
            state['op_T'] = idx if (op[0] == 'ev' and op[2] in ('T', 'B')) else None
            if op[0] == 'gate':
                env['gate'] = bool(op[1])
                emit(f"gate {'b1' if op[1] else 'b0'}", 'ret1', take(), snap(), phase='run')
                continue
            if op[0] == 'adv':
                t = max(op[1], loop.now_us)
                await adv_to(loop, t)
                ok = emit_checked(f'adv {t}', 'ret1', take(), snap(), phase='run')
                continue
            _, t, pl, tev, d, value = op
            t = max(t, loop.now_us)
            if pl == 'T' and t == loop.now_us:
                pl = 'A'
            # phase 1: bring the clock to the instant of the stimulus
            if pl == 'A':
                reached = await adv_to(loop, t)
            else:
                reached = True
                if t > loop.now_us:
                    reached = await adv_to(loop, t - 1)
            if not reached:
                ok = emit_checked(f'adv {loop.now_us}', 'ret1', take(), snap(), phase='run')
                assert not ok
                break
            if pl in ('A', 'B'):
                if pl == 'B' and t > loop.now_us:
                    loop.set_us(t)
                res = send(tev, d, value)
                sn = snap()
                if aborted():
                    await vtime.settle(loop)
                ok = emit_checked(ev_line(t, pl, tev, d, value), res, take(), sn, stim=[tev, d, value],
                                  phase='run', placement=pl)
                continue
            box = {}

            def stim():
                box['pos'] = len(rec.log)
                if aborted():
                    return
                box['res'] = send(tev, d, value)
                box['sn'] = snap()
                box['end'] = len(rec.log)
            loop.call_at(t / 1e6, stim)
            await adv_to(loop, t)
            assert 'pos' in box, 'stimulus did not run'
            if 'res' not in box:
                # aborted by a timer of the same batch before the stimulus ran
                ok = emit_checked(f'adv {loop.now_us}', 'ret1', take(), snap(), phase='run')
                assert not ok
                break
            pre = [e for e in rec.log[state['cursor']:box['pos']] if e[1] == 'fire' and e[0] == t]
            placed = 'A' if pre else 'B'
            entries = take(box['end'])
            if box['res'].startswith('err:'):
                ok = emit_checked(ev_line(t, placed, tev, d, value), box['res'], entries, box['sn'],
                                  stim=[tev, d, value], phase='run', placement='T')
                assert not ok
                break
            emit(ev_line(t, placed, tev, d, value), box['res'], entries, box['sn'], stim=[tev, d, value],
                 phase='run', placement='T')
            ok = emit_checked(f'adv {t}', 'ret1', take(), snap(), phase='run')
        state['op_T'] = None
        if ok:
            t = max(scn.get('stop_at', 0), loop.now_us)
            await adv_to(loop, t)
            ok = emit_checked(f'adv {loop.now_us}', 'ret1', take(), snap(), phase='run')
        if ok:
            try:
                await circuit.shutdown()
            except Exception:
                pass
            await vtime.settle(loop)
            split_shutdown(take())
        else:
            try:
                await simtask
            except BaseException:
                pass
        # after-run: nothing may fire any more
        t_end = loop.now_us + 3 * longest(scn) + 7
        await vtime.advance_to(loop, t_end)
        emit(f'adv {t_end}', 'aborted' if aborted() else 'ret1', take(), snap(), phase='afterrun')

    loop = TLoop()
    loop.rec = rec
    livelock = None
    try:
        vtime.run(main, world=world, loop=loop)
    except RuntimeError as err:
        if 'quiescent' not in str(err):
            raise
        # timers keep being armed for the very same instant: virtual time cannot advance
        livelock = rec.loop.now_us
        lines.append(f'fsmtimer adv {livelock}')
        trace.append(f'livelock at {livelock}: {len(rec.log)} log entries, last {rec.log[-3:]}'[:300])
        steps.append({'line': f'adv {livelock}', 'res': 'livelock', 'log': [], 'snap': None, 'phase': 'run',
                      'livelock': livelock, 'nlog': len(rec.log)})
    finally:
        vtime.uninstall()
    alllog = [e for s in steps for e in s['log']]
    fires = sum(1 for e in alllog if e[1] == 'fire')
    cancels = sum(1 for e in alllog if e[1] == 'cancel')
    tags = [f"kind={scn['kind']}"]
    tags += sorted({f"placement={s['placement']}" for s in steps if 'placement' in s})
    if fires:
        tags.append('timer-fired')
    if cancels:
        tags.append('timer-cancelled')
    if any(s.get('after_stop') for s in steps):
        tags.append('event-after-fsm-stop')
    if any(s.get('phase') == 'cleanup' and not s.get('after_stop') for s in steps):
        tags.append('event-before-fsm-stop')
    if state['aborted']:
        tags.append('aborted=' + str(steps[-1]['snap']['failed']))
    if any(s['res'] == 'ret0' for s in steps):
        tags.append('rejected-event')
    for s in steps:
        for i, e in enumerate(s['log']):
            if e[1] == 'fire':
                nxt = s['log'][i + 1][1] if i + 1 < len(s['log']) else None
                if nxt not in ('exit',):
                    tags.append('rejected-timed-event')
                    break
    tags = sorted(set(tags))
    return {'lines': lines, 'trace': trace, 'steps': steps, 'tags': tags,
            'nontrivial': fires + cancels > 0, 'aborted': state['aborted']}


# ----------------------------------------------------------------------------- generator

SMALL = [D1, D2, ['s', '0.5s'], ['s', '0m1,25s'], ['s', '2'], ['s', 'PT3S'], 1_000_000, 450_000]
LONG = [['s', '1m30s'], 30_000_000, 45_500_000]


def pick_dur(rng, fam, where):
    r = rng.random()
    if where == 'item':
        if r < 0.55:
            return None
        if r < 0.60:
            return 'inf'
        if r < 0.70:
            return rng.choice([0, 0, -1, ['s', '0s']])
        if r < 0.715:
            return 'bad'
        return rng.choice(fam)
    if where == 'class':
        if r < 0.15:
            return None
        if r < 0.30:
            return 'inf'
        if r < 0.42:
            return rng.choice([0, 0, -5, ['s', '0s']])
        return rng.choice(fam)
    # instance t_STATE
    if r < 0.15:
        return None
    if r < 0.27:
        return 'inf'
    if r < 0.37:
        return rng.choice([0, -2_000_000, ['s', '0s']])
    return rng.choice(fam)


def gen_fsm(rng, fam):
    n = rng.randint(2, 4)
    states = ['a', 'b', 'c', 'd'][:n]
    events = ['e0', 'e1', 'e2'][:rng.randint(1, 3)]
    trans = []
    for e in events:
        if rng.random() < 0.5:
            trans.append([e, None, rng.choice(states) if rng.random() < 0.9 else None])
        for q in states:
            if rng.random() < 0.45:
                trans.append([e, q, rng.choice(states) if rng.random() < 0.85 else None])
        if not any(t[0] == e for t in trans):
            trans.append([e, rng.choice(states), rng.choice(states)])
    timed = []
    for q in states:
        if rng.random() < 0.65:
            tev = ['E', rng.choice(events)] if rng.random() < 0.6 else ['G', rng.choice(states)]
            timed.append([q, tev, pick_dur(rng, fam, 'class')])
    tdur = [[q, pick_dur(rng, fam, 'inst')] for q, _t, _d in timed if rng.random() < 0.4]
    conds = []
    for e in events:
        if rng.random() < 0.4:
            k = rng.choice(['true', 'false', 'gate', 'gate', 'ne', 'ne'])
            conds.append([e, k] + ([rng.choice(states)] if k == 'ne' else []))
    enter = []
    for q in states:
        if rng.random() < 0.09:
            tev = ['E', rng.choice(events)] if rng.random() < 0.6 else ['G', rng.choice([x for x in states if x != q])]
            enter.append([q, tev, pick_dur(rng, fam, 'item') if rng.random() < 0.7 else None])
            if enter[-1][2] == 'bad':
                enter[-1][2] = None
    return {'kind': 'gen', 'states': states, 'events': events, 'trans': trans, 'timed': timed, 'tdur': tdur,
            'conds': conds, 'enter': enter, 'init': rng.choice(states)}


def gen_timer(rng, fam):
    scn = {'kind': 'timer', 'restartable': rng.random() < 0.5, 'init': rng.choice([None, None, 'on', 'off']),
           'ton': None, 'toff': None, 'period': None, 'given_none': [], 'ctor_may_fail': True}
    if rng.random() < 0.3:
        # any object may be given as `restartable`: its truth value counts
        obj = rng.choice([1, 0, 'yes', '', None, 2.5])
        scn['restartable_obj'], scn['restartable'] = obj, bool(obj)
    r = rng.random()
    if r < 0.15:
        scn['period'] = rng.choice([2 * D1, 2 * D2, ['s', '2'], 1_000_000, 0, -4, 'inf'])
        q = rng.random()
        if q < 0.12:            # t_period excludes t_on / t_off (even when they are None)
            k = rng.choice(['ton', 'toff'])
            if rng.random() < 0.5:
                scn[k] = rng.choice([D1, 'inf'])
            else:
                scn['given_none'] = [k]
        elif q < 0.18:
            scn['period'], scn['given_none'] = None, ['period']     # None / 2
        elif q < 0.24:
            scn['period'] = 'bad'
    else:
        if rng.random() < 0.3:
            scn['given_none'] = [k for k in ('ton', 'toff') if rng.random() < 0.6]
        if rng.random() < 0.04:
            scn['ton' if rng.random() < 0.5 else 'toff'] = 'bad'

        if scn['ton'] != 'bad':
            scn['ton'] = pick_dur(rng, fam, 'inst') if rng.random() < 0.8 else None
            if scn['ton'] is not None and 'ton' in scn['given_none']:
                scn['given_none'].remove('ton')
        if scn['toff'] != 'bad':
            scn['toff'] = pick_dur(rng, fam, 'inst') if rng.random() < 0.5 else None
            if scn['toff'] is not None and 'toff' in scn['given_none']:
                scn['given_none'].remove('toff')
        if dur_us(scn['ton']) in (0,) and isinstance(dur_us(scn['toff']), int) and dur_us(scn['toff']) <= 0 \
                and rng.random() < 0.8:
            scn['toff'] = None
    scn['events'] = ['start', 'stop', 'toggle']
    scn['states'] = ['off', 'on']
    return scn


def gen_iexp(rng, fam):
    scn = {'kind': 'iexp', 'duration': pick_dur(rng, fam, 'inst') if rng.random() < 0.85 else None,
           'expired': rng.choice([None, 'x', -1, 0]), 'has_initdef': rng.random() < 0.4,
           'initdef': rng.choice([0, 1, 5, 'a'])}
    scn['events'] = ['put']
    scn['states'] = ['expired', 'valid']
    return scn


def durset(scn):
    out = {D1, D2}

    def add(d):
        d = dur_us(d)
        if isinstance(d, int) and d > 0:
            out.add(d)
    if scn['kind'] == 'gen':
        for _q, _tev, d in scn['timed']:
            add(d)
        for _q, d in scn['tdur']:
            add(d)
        for _q, _tev, d in scn['enter']:
            add(d)
    elif scn['kind'] == 'timer':
        add(scn['ton'])
        add(scn['toff'])
        p = dur_us(scn.get('period'))
        if isinstance(p, int):
            add(p // 2)
    else:
        add(scn['duration'])
    return sorted(out)


def gen_ops(rng, scn, fam):
    ds = durset(scn)
    marks = {0}
    t = 0
    ops = []
    has_gate = any(c[1] == 'gate' for c in scn.get('conds', []))
    for _ in range(rng.randint(3, 14)):
        r = rng.random()
        if r < 0.65:
            cands = [m for m in marks if m >= t - 1]
            base = rng.choice(cands) if cands else t
            t2 = max(t, base + rng.choice([-1, 0, 0, 0, 1]))
        else:
            t2 = t + rng.choice([0, 1, 1000, D1 // 2, D1 + 1, rng.randint(1, 2 * D2)])
        t = t2
        k = rng.random()
        if has_gate and k < 0.15:
            ops.append(['gate', rng.random() < 0.5])
            continue
        if k < 0.25:
            ops.append(['adv', t])
            continue
        item = pick_dur(rng, fam, 'item')
        value = '-'
        if scn['kind'] == 'iexp':
            q = rng.random()
            tev = ['E', 'put']
            value = rng.choice([0, 1, 2, 7, 'a', None]) if q < 0.95 else '-'
            if q > 0.97:
                tev, value = ['G', rng.choice(['expired', 'valid'])], '-'
        else:
            q = rng.random()
            if q < 0.88:
                tev = ['E', rng.choice(scn['events'])]
            elif q < 0.905:
                tev = ['E', 'zz']
            elif q < 0.915:
                tev = ['G', 'nowhere']
            else:
                tev = ['G', rng.choice(scn['states'])]
        ops.append(['ev', t, rng.choice(['B', 'T', 'A']), tev, item, value])
        news = {t + d for d in ds}
        if isinstance(dur_us(item), int) and dur_us(item) > 0:
            news.add(t + dur_us(item))
        for m in list(news):
            if rng.random() < 0.3:
                news.add(m + rng.choice(ds))
        marks |= news
        if len(marks) > 60:
            marks = set(rng.sample(sorted(marks), 40))
    cands = [m for m in marks if m >= t - 1]
    stop_at = max(t, (rng.choice(cands) if cands and rng.random() < 0.6 else t) + rng.choice([-1, 0, 0, 1, D1 // 3]))
    stoppers = []
    for _ in range(rng.choice([0, 0, 1, 2, 3])):
        if scn['kind'] == 'iexp':
            stoppers.append([['E', 'put'], pick_dur(rng, fam, 'item'), rng.choice([3, 4])])
        else:
            tev = ['E', rng.choice(scn['events'])] if rng.random() < 0.85 else ['G', rng.choice(scn['states'])]
            d = pick_dur(rng, fam, 'item')
            stoppers.append([tev, None if d == 'bad' else d, '-'])
    return ops, stop_at, stoppers


def gen_random(rng):
    fam = SMALL if rng.random() < 0.88 else LONG
    r = rng.random()
    if r < 0.55:
        scn = gen_fsm(rng, fam)
    elif r < 0.82:
        scn = gen_timer(rng, fam)
    else:
        scn = gen_iexp(rng, fam)
    scn['ops'], scn['stop_at'], scn['stoppers'] = gen_ops(rng, scn, fam)
    scn['none_absent'] = rng.random() < 0.7
    scn['want_after_stop'] = rng.random() < 0.75
    if scn['kind'] != 'iexp' and rng.random() < 0.12:
        with_restore(rng, scn)
    return scn


TIMER_SEQ_EVENTS = ['start', 'stop', 'toggle']
DELTAS7 = [(D1 - 1, 'A'), (D1, 'B'), (D1, 'T'), (D1, 'A'), (D1 + 1, 'A'), (D2, 'B'), (D2, 'T')]
DELTAS4 = [(D1, 'B'), (D1, 'T'), (D1, 'A'), (D2, 'T')]


def timer_grid(maxlen2=2, with3=True):
    """Timer configurations x event sequences x placements around the expiry instants"""
    for ton, toff, rest, init in itertools.product([None, 0, D1], [None, 0, D2], [True, False], ['off', 'on']):
        base = {'kind': 'timer', 'ton': ton, 'toff': toff, 'period': None, 'restartable': rest, 'init': init,
                'events': TIMER_SEQ_EVENTS, 'states': ['off', 'on'], 'stoppers': [], 'none_absent': True}
        for n in range(1, maxlen2 + 1):
            for evs in itertools.product(TIMER_SEQ_EVENTS, repeat=n):
                for dl in itertools.product(DELTAS7, repeat=n):
                    t, ops = 0, []
                    for e, (d, pl) in zip(evs, dl):
                        t += d
                        ops.append(['ev', t, pl, ['E', e], None, '-'])
                    yield {**base, 'ops': ops, 'stop_at': t + D1 // 2}
        if with3:
            for evs in itertools.product(TIMER_SEQ_EVENTS, repeat=3):
                for dl in itertools.product(DELTAS4, repeat=3):
                    t, ops = 0, []
                    for e, (d, pl) in zip(evs, dl):
                        t += d
                        ops.append(['ev', t, pl, ['E', e], None, '-'])
                    yield {**base, 'ops': ops, 'stop_at': t + D1 // 2}


def fixed_cases():
    """the two defects of DESIGN.md section 5 in their smallest form, and a few corner cases"""
    # 8: rejected timed event, then get_state()
    yield {'kind': 'gen', 'states': ['a', 'b'], 'events': ['go', 'back'],
           'trans': [['go', None, 'b'], ['back', 'b', None]], 'timed': [['b', ['E', 'back'], D1]],
           'tdur': [], 'conds': [], 'enter': [], 'init': 'a', 'none_absent': True,
           'ops': [['ev', 10, 'A', ['E', 'go'], None, '-'], ['adv', D1 + 20]], 'stop_at': D2, 'stoppers': []}
    # 7: another block's stop() restarts the timer during the clean-up
    yield {'kind': 'timer', 'ton': D1, 'toff': None, 'period': None, 'restartable': True, 'init': None,
           'events': TIMER_SEQ_EVENTS, 'states': ['off', 'on'], 'none_absent': True,
           'ops': [['ev', 100, 'A', ['E', 'start'], None, '-']], 'stop_at': 200,
           'stoppers': [[['E', 'start'], None, '-'], [['E', 'start'], D2, '-'], [['E', 'start'], None, '-']]}
    # astable timer, monostable, zero durations
    for ton, toff in ((D1, D2), (0, D2), (D1, 0), (0, 0)):
        yield {'kind': 'timer', 'ton': ton, 'toff': toff, 'period': None, 'restartable': True, 'init': 'on',
               'events': TIMER_SEQ_EVENTS, 'states': ['off', 'on'], 'none_absent': True,
               'ops': [['adv', 3 * (D1 + D2)]], 'stop_at': 3 * (D1 + D2) + D1, 'stoppers': []}


def restore_cases():
    """a saved state is restored before the initdef: every combination of (state timed / untimed / unknown,
    expiration none / in the past / in the future, calc_output regular / raising / UNDEF) x initdef timed / untimed,
    followed by a clock advance beyond both timers or by an event before the restored expiry"""
    for ton, init, q, exp, mode in itertools.product([D1, None], ['on', 'off'], ['on', 'off', 'zz'],
                                                     [None, 0, 1_000_000], ['n', 'r', 'u']):
        base = {'kind': 'timer', 'ton': ton, 'toff': D2, 'period': None, 'restartable': True, 'init': init,
                'events': TIMER_SEQ_EVENTS, 'states': ['off', 'on'], 'stoppers': [], 'none_absent': True,
                'restore': {'q': q, 'exp': exp, 'mode': mode}}
        yield {**base, 'ops': [['adv', 2_500_000]], 'stop_at': 2_600_000}
        yield {**base, 'ops': [['ev', D1 // 2, 'A', ['E', 'toggle'], None, '-'], ['adv', 1_000_000]],
               'stop_at': 1_000_000 + D1 // 3}
    gen = {'kind': 'gen', 'states': ['a', 'b', 'c'], 'events': ['go', 'back'],
           'trans': [['go', None, 'b'], ['back', None, 'a'], ['go', 'b', 'c']],
           'timed': [['b', ['E', 'back'], D1], ['c', ['G', 'a'], D2]], 'tdur': [], 'conds': [], 'enter': [],
           'none_absent': True, 'stoppers': []}
    for init, q, exp, mode in itertools.product(['a', 'b'], ['a', 'b', 'c', 'zz'], [None, 0, 500_000], ['n', 'r', 'u']):
        base = {**gen, 'init': init, 'restore': {'q': q, 'exp': exp, 'mode': mode}}
        yield {**base, 'ops': [['adv', 1_500_000]], 'stop_at': 1_600_000}
        yield {**base, 'ops': [['ev', 100_000, 'A', ['E', 'go'], None, '-'], ['adv', 500_000], ['adv', 1_500_000]],
               'stop_at': 1_600_000}


def with_restore(rng, scn):
    """a random saved state for a random scenario"""
    states = scn['states'] if scn['kind'] == 'gen' else ['off', 'on']
    timed = [q for q, _t, _d in scn['timed']] if scn['kind'] == 'gen' else states
    r = rng.random()
    q = 'zz' if r < 0.05 else rng.choice(timed) if timed and r < 0.7 else rng.choice(states)
    exp = rng.choice([None, 0, D1 // 2, D1, D2 + 1, 2_000_000])
    scn['restore'] = {'q': q, 'exp': exp, 'mode': rng.choice(['n', 'n', 'r', 'r', 'u'])}
    return scn


def scenarios(rng, tier):
    yield from fixed_cases()
    yield from restore_cases()
    if tier == 'quick':
        grid = list(timer_grid(maxlen2=1, with3=False))
        yield from grid
        g2 = list(timer_grid(maxlen2=2, with3=False))
        yield from rng.sample(g2, 600)
        nrandom = 3500
    else:
        yield from timer_grid(maxlen2=2, with3=True)
        nrandom = 60000
    for _ in range(nrandom):
        yield gen_random(rng)


def shrink(scn):
    if scn.get('restore') and scn['restore']['mode'] == 'n' and scn['restore']['exp'] is None:
        yield {k: v for k, v in scn.items() if k != 'restore'}
    yield from shrink_ops(scn)
    if scn.get('stoppers'):
        yield from shrink_ops(scn, 'stoppers')
    if scn.get('enter'):
        yield {**scn, 'enter': []}


# ----------------------------------------------------------------------------- oracle

class Ref:
    """
    Reference timeline written from the documentation (docs/FSM.rst "TIMERS", "Goto", "Event
    conditions", "Chained transitions"; docs/sblocks2.rst Timer and InputExp): the FSM has a state
    and at most one deadline (time, timed event).
    """

    def __init__(self, scn):
        k = scn['kind']
        self.kind = k
        if k == 'gen':
            self.states = scn['states']
            self.events = set(scn['events'])
            self.rules = {(e, f): t for e, f, t in scn['trans']}
            self.timed = {q: (tev, dur_us(d)) for q, tev, d in scn['timed']}
            self.inst = {q: dur_us(d) for q, d in scn['tdur'] if dur_us(d) is not None}
            self.conds = {c[0]: c[1:] for c in scn['conds']}
            self.enter = {q: (tev, dur_us(d)) for q, tev, d in scn['enter']}
            self.init = scn['init']
        elif k == 'timer':
            self.states = ['off', 'on']
            self.events = {'start', 'stop', 'toggle'}
            self.rules = {('start', None): 'on', ('stop', None): 'off', ('toggle', 'on'): 'off', ('toggle', 'off'): 'on'}
            self.timed = {'on': (['E', 'stop'], 'inf'), 'off': (['E', 'start'], 'inf')}
            p = dur_us(scn.get('period'))
            if p is not None:
                half = p if p == 'inf' else p // 2
                self.inst = {'on': half, 'off': half}
            else:
                self.inst = {q: dur_us(scn[key]) for q, key in (('on', 'ton'), ('off', 'toff')) if dur_us(scn[key]) is not None}
            self.conds = {} if scn['restartable'] else {'start': ['ne', 'on'], 'stop': ['ne', 'off']}
            self.enter = {}
            self.init = scn.get('init') or 'off'
        else:
            self.states = ['expired', 'valid']
            self.events = {'put'}
            self.rules = {('put', None): 'valid'}
            self.timed = {'valid': (['G', 'expired'], None)}
            self.inst = {'valid': dur_us(scn['duration'])} if dur_us(scn['duration']) is not None else {}
            self.conds = {'put': ['store']}
            self.enter = {}
            self.init = 'valid' if scn.get('has_initdef') else 'expired'
            self.expired = scn['expired']
        self.value = scn.get('initdef') if scn.get('has_initdef') else None
        self.has_value = bool(scn.get('has_initdef'))
        self.state = None
        self.deadline = None        # (time, tev)
        self.initialized = False
        self.gate = True
        self.stopped = False
        self.failed = False
        self.fires = []             # (time, tev) delivered
        self.visit = 0

    def restore(self, t, q, exp, mode):
        """docs/FSM.rst + docs/persistence: the saved state is (state, expiration time of the timer, sdata); a
        restored FSM continues in the state with the remaining time; a state whose timer ran out during the
        downtime is not restored; an invalid saved state is refused.  A block that could not be restored is not
        initialised (its initdef applies) -- and owns no timer."""
        if q not in self.states:
            return 'err'
        if exp is not None:
            if exp <= t:
                return 'ret1'
            if q not in self.timed:
                return 'err'
        self.state = q
        if mode == 'r':
            return 'err'
        if mode == 'u':
            return 'ret1'
        if exp is not None and not self.stopped:
            self.deadline = (exp, self.timed[q][0])
        self.initialized = True
        return 'ret1'

    def duration(self, q, item):
        d = item
        if d is None:
            d = self.inst.get(q)
        if d is None:
            d = self.timed[q][1]
        if isinstance(d, int) and d < 0:
            d = 0
        return d

    def target(self, tev, value):
        """'unknown' | 'err' | 'reject' | ('to', state)"""
        if tev[0] == 'G':
            return ('to', tev[1]) if tev[1] in self.states else 'err'
        e = tev[1]
        if e not in self.events:
            return 'unknown'
        if (e, self.state) in self.rules:
            q = self.rules[(e, self.state)]
        else:
            q = self.rules.get((e, None))
        if q is None:
            return 'reject'
        if self.initialized and e in self.conds:
            c = self.conds[e]
            if c[0] == 'false' or (c[0] == 'gate' and not self.gate) or (c[0] == 'ne' and self.state == c[1]):
                return 'reject'
            if c[0] == 'store':
                if value == '-':
                    return 'err'
                self.value, self.has_value = value, True
        return ('to', q)

    def event(self, t, tev, item, value):
        r = self.target(tev, value)
        if r == 'err':
            self.failed = True
        if not isinstance(r, tuple):
            return {'unknown': 'unknown', 'err': 'err', 'reject': 'ret0'}[r]
        self.deadline = None            # leaving (or re-entering) cancels the timer
        q = r[1]
        for _ in range(3 * len(self.states)):
            self.state = q
            self.visit += 1
            nxt = None
            if q in self.enter:
                tev2, d2 = self.enter[q]
                r2 = self.target(tev2, '-')
                if r2 in ('unknown', 'err'):
                    self.failed = True
                    return 'err'
                if isinstance(r2, tuple):
                    nxt = (r2[1], d2)
            if nxt is None and q in self.timed:
                d = self.duration(q, item)
                if d is None or d == 'bad':
                    self.failed = True
                    return 'err'
                if d == 'inf':
                    pass
                elif d <= 0:
                    r2 = self.target(self.timed[q][0], '-')
                    if r2 in ('unknown', 'err'):
                        self.failed = True
                        return 'err'
                    if isinstance(r2, tuple):
                        nxt = (r2[1], None)
                elif not self.stopped:
                    self.deadline = (t + d, self.timed[q][0])
            if nxt is None:
                break
            q, item = nxt
        else:
            self.failed = True
            return 'err'
        if self.kind == 'iexp' and self.state == 'valid' and not self.has_value:
            self.failed = True
            return 'err'
        self.initialized = True
        return 'ret1'

    def output(self):
        if not self.initialized:
            return edzed.UNDEF
        if self.kind == 'gen':
            return self.state
        if self.kind == 'timer':
            return self.state == 'on'
        return self.value if self.state == 'valid' else self.expired

    def advance(self, t, strict):
        while (not self.failed and self.deadline is not None
               and (self.deadline[0] < t if strict else self.deadline[0] <= t)):
            when, tev = self.deadline
            self.deadline = None
            self.fires.append((when, tev))
            self.event(when, tev, None, '-')


def expected_ctor_error(scn):
    """docs/sblocks2.rst (Timer): t_period and t_on/t_off are mutually exclusive (TypeError); a duration must be
    a number, a string with units or None (ValueError otherwise); half of None does not exist (TypeError)"""
    if scn['kind'] != 'timer':
        return None
    given = lambda k: scn.get(k) is not None or k in scn.get('given_none', ())
    if given('period'):
        if given('ton') or given('toff'):
            return 'TypeError'
        if scn.get('period') is None:
            return 'TypeError'
        return 'ValueError' if scn['period'] == 'bad' else None
    if scn.get('ton') == 'bad' or scn.get('toff') == 'bad':
        return 'ValueError'
    return None


def oracle(scn, res):
    out = []
    exp = expected_ctor_error(scn)
    if exp != res.get('ctor_error'):
        return [{'clause': 'timer_constructor', 'what': f'Timer(...) raised {res.get("ctor_error")}, expected {exp}',
                 'sig': {}}]
    if exp is not None:
        return []

    def bad(clause, what, **sig):
        out.append({'clause': clause, 'what': what, 'sig': sig})

    for st in res['steps']:
        if st['res'] == 'livelock':
            return [{'clause': 'fires_once_on_time', 'what': f"the loop never becomes quiescent at {st['livelock']} us: "
                     f"timers are armed and fire at the same instant without end ({st['nlog']} log entries); a zero "
                     'duration must generate the timed event immediately (chained transition, chain limit)', 'sig': {}}]
    ref = Ref(scn)
    armed = {}          # handle id -> (when, tev, visit index at arming, time of arming)
    fired = set()
    cancelled = set()
    visit = 0           # number of state entries seen in the log
    stopped = False
    for i, st in enumerate(res['steps']):
        line = st['line'].split()
        nfires_before = len(ref.fires)
        expect_res = None
        if line[0] == 'init':
            expect_res = ref.event(0, ['G', ref.init], None, '-')
        elif line[0] == 'restore':
            expect_res = ref.restore(st['snap']['now'], line[1], None if line[2] == '-' else int(line[2]),
                                     {'n': 'n', 'r': 'r', 'u': 'u'}[line[4]])
        elif line[0] == 'gate':
            ref.gate = line[1] == 'b1'
        elif line[0] == 'adv':
            ref.advance(int(line[1]), False)
        elif line[0] == 'stop':
            ref.deadline = None
            ref.stopped = True
        elif line[0] == 'ev':
            t = int(line[1])
            ref.advance(t, line[2] == 'B')
            if not ref.failed:
                tev, d, value = st['stim']
                expect_res = ref.event(t, tev, dur_us(d), value)
        # ---- direct checks on the log of this step
        obs_fires = []
        for e in st['log']:
            t, kind, *a = e
            if kind == 'enter':
                visit += 1
            elif kind == 'arm':
                armed[a[0]] = (a[1], a[2], visit, t)
            elif kind == 'cancel':
                cancelled.add(a[0])
            elif kind == 'fire':
                hid = a[0]
                obs_fires.append((t, a[1]))
                when, tev, v0, _t0 = armed.get(hid, (None, None, None, None))
                if hid in fired:
                    bad('fires_once_on_time', f'step {i}: handle {hid} fired twice')
                fired.add(hid)
                if stopped:
                    bad('stop_cancels', f'step {i} ({st["line"]}): timed event {tev_tok(a[1])} delivered at {t} after '
                        f'FSM.stop()', after_stop=True)
                elif hid in cancelled:
                    bad('no_stale_event', f'step {i}: cancelled handle {hid} fired')
                elif v0 != visit:
                    bad('no_stale_event', f'step {i}: handle {hid} armed in visit {v0} delivered its event in visit '
                        f'{visit} at {t}')
                elif when != t:
                    bad('fires_once_on_time', f'step {i}: handle {hid} due at {when} fired at {t}')
        if line[0] == 'stop':
            stopped = True
        # ---- the reference timeline
        exp_fires = ref.fires[nfires_before:]
        if not stopped and [(t, tev_tok(v)) for t, v in obs_fires] != [(t, tev_tok(v)) for t, v in exp_fires]:
            bad('fires_once_on_time', f'step {i} ({st["line"]}): timed events delivered {obs_fires}, expected {exp_fires}')
        if expect_res is not None:
            got = 'err' if st['res'].startswith('err:') else st['res']
            if got != expect_res:
                bad('timed_state_sequence', f'step {i} ({st["line"]}): result {st["res"]}, expected {expect_res}')
        sn = st['snap']
        if sn is None:
            continue
        live = sn['live']
        if len(live) > 1:
            bad('one_timer', f'step {i} ({st["line"]}): {len(live)} pending timers {live}')
        whens = [w for _i, w in live]
        exp = [] if ref.deadline is None else [ref.deadline[0]]
        if stopped or st.get('phase') == 'afterrun':
            if live:
                bad('stop_cancels', f'step {i} ({st["line"]}): pending timer {live} after FSM.stop()', after_stop=True)
        elif whens != exp and len(live) <= 1:
            if not exp:
                bad('leave_cancels', f'step {i} ({st["line"]}): pending timer {live}, expected none')
            elif not whens:
                bad('fires_once_on_time', f'step {i} ({st["line"]}): no pending timer, expected one due at {exp[0]}')
            else:
                bad('duration_precedence', f'step {i} ({st["line"]}): timer due at {whens[0]}, expected {exp[0]}')
        if sn['tm'] != '!':
            if sn['tm'] is not None and sn['tm'] not in whens:
                bad('timer_state_none_after_fire', f'step {i} ({st["line"]}): get_state() reports the timer '
                    f'{sn["tm"]} at {sn["now"]} but the pending timers are {live}', past=sn['tm'] <= sn['now'])
            elif sn['tm'] is None and whens:
                bad('timer_state_none_after_fire', f'step {i} ({st["line"]}): get_state() reports no timer, pending {live}')
        if not ref.failed and sn['failed'] == '-':
            if sn['st'] != (ref.state or 'u'):
                bad('timed_state_sequence', f'step {i} ({st["line"]}): state {sn["st"]}, expected {ref.state}')
            elif sn['out'] != enc(ref.output()):
                bad('timed_state_sequence', f'step {i} ({st["line"]}): output {sn["out"]}, expected {enc(ref.output())}')
        if ref.failed != (sn['failed'] != '-'):
            bad('timed_state_sequence', f'step {i} ({st["line"]}): failed={sn["failed"]}, expected failure={ref.failed}')
        if out:
            break
    return out
