"""C12 -- OutputAsync modes wait / cancel / start: correspondence with lean/EdzedModel/OutputAsync.lean + oracle.

A scenario is a script on the virtual clock (unit TICK = 0.25 s, exact in binary floating point):

    {'mode': 'wait'|'cancel'|'start', 'guard': ticks (0 = None), 'stop_data': bool,
     'puts': [[slot, place, dur, fail], ...],  'stop': [slot, place]}

`place` is the same-instant placement of DESIGN.md 2.3: 'B' (before the timers of the instant), 'T' (a loop
timer of that instant, fired in heap order among the block's own timers), 'A' (after the instant settled).
The k-th put carries id k+1; stop_data carries id 99.
"""
import asyncio
import contextvars
import itertools

import edzed

from .. import vtime
from ..simrun import Sim, Probe
from ..enc import enc, enc_data

ID = 'C12'
RULE = ("scripts on the virtual clock (tick 0.25 s): 1..3 arrivals on the slots {0,1,2,3,4,6} (non-decreasing, incl. "
        "simultaneous ones), run durations {1,3} ticks, at most one failing run, stop at {1,3,5,9} ticks, mode "
        "wait/cancel/start, guard_time None or 2 ticks, stop_data present/absent; same-instant placement B/T/A "
        "(before / among / after the block's own timers of that instant) per arrival for <=2 arrivals (x stop "
        "placement B/T/A) and uniform per script for 3 arrivals (stop placed A); durations and slots are chosen so "
        "that arrivals coincide with completions, fall into the guard time and onto its end; stop_timeout never "
        "expires in this part. Expiry part: the same arrivals (placed B), stop placed B/T/A (<=2 arrivals) or A (3), "
        "stop_timeout 2/3/5 ticks (3 only for 3 arrivals), so that the deadline falls before / exactly onto / after "
        "the end of the pending work, onto coroutine ends, into and onto the end of guard sleeps. Abort part: "
        "on_error=(probe, Event.abort()) with exactly one failing run among <=2 arrivals: the failing run itself "
        "stops the simulation (stop() is recorded where it really happens), stop_timeout big or 3. Late part: "
        "<=2 arrivals, stop at 1/3/5 placed B/T/A, and 1..2 puts sent to the block as internal events around and "
        "after its stop(): in the very step of stop() (S), from another block's stop_async (N), or B/T/A at 0..3 "
        "ticks after the stop, with user coroutines whose cancellation takes 0 or 3 extra loop iterations. No-argument "
        "part: the block is built with f_args=() / f_kwargs=() and a coroutine that takes nothing; <=2 arrivals on "
        "3 slots, every subset of them with EMPTY event data (`blk.event('put')` as a direct call), stop_data absent / "
        "{} / ordinary, stop at 1/3/5 placed A/B; the harness tells the puts apart by the identity of the data object. "
        "thorough "
        "enumerates both parts completely and adds random scripts with 4 arrivals on 10 slots, durations 1..4, mixed "
        "placements, any number of failing runs, guard 1..3 and (40 %) a stop_timeout of 1..12 ticks, (15 %) on_error=Event.abort(); quick "
        "takes a random 3 % sample of the first two parts and of the late part, 20 % of the abort part, 10 % of the "
        "no-argument part, plus 3000 random scripts (30 % of them with late puts, 30 % with slow cancellation, 15 % "
        "without arguments and with random empty data). Compared with the Lean model: the complete time-stamped log of output changes, "
        "coroutine start/end/cancellation and success/error/cancel events in the implementation's order (start "
        "mode: per instant as a set plus the output at the end of the instant, because equal timers fire in heap "
        "order), and the instant at which stop_async finished. distinct = hash of (lines, trace); non-trivial = at "
        "least one accepted put")
ASSUMPTIONS = [
    "user coroutines are scripts (sleep d, then return or raise) that do not catch CancelledError",
    "guard_time <= stop_timeout (the constructor refuses anything else); the stop_timeout clock of the OutputAsync "
    "block starts in the instant of its stop() (the only other block with a stop_async, the notifier of the late "
    "part, finishes at once)",
    "ordinary puts are external events: after shutdown() has been called they are refused by the circuit and never "
    "reach the block; the puts of the 'late' part are internal events (block.event), which the code delivers also "
    "during the clean-up",
    "same-instant ties: the harness records whether a stimulus preceded the block's pending timer/controller step "
    "(flag `pre`, read from the fired coroutine timer, the last output decrement and the control task's awaited "
    "object) and whether the control task has taken anything from the queue since the previous put of the same "
    "instant (flag `batch`, for puts and for stop(); read from a counting subclass of the block's asyncio.Queue); "
    "the model is driven by these recorded orders",
]
EXHAUSTIVE = {'quick': False, 'thorough': True}

TICK = 250000           # µs
SD_ID, SD_DUR = 99, 2   # stop_data: id and duration (ticks)
BIG_TIMEOUT = 4000      # ticks; the default stop_timeout of a scenario (never expires)
TIMEOUTS = (2, 3, 5)    # short stop_timeouts (ticks) of the expiry part of the grid
MODES = ('wait', 'cancel', 'start')
SLOTS = (0, 1, 2, 3, 4, 6)
DURS = (1, 3)
STOPS = (1, 3, 5, 9)
GUARD = 2
PLACES = 'BTA'


def grid():
    """the enumerated part of the scenario space (see RULE)"""
    for k in (1, 2, 3):
        for slots in itertools.combinations_with_replacement(SLOTS, k):
            for durs in itertools.product(DURS, repeat=k):
                for failing in range(-1, k):
                    if k <= 2:
                        placements = list(itertools.product(PLACES, repeat=k))
                        stop_places = PLACES
                    else:
                        placements = [(p,) * k for p in PLACES]
                        stop_places = 'A'
                    for pl in placements:
                        puts = [[slots[i], pl[i], durs[i], i == failing] for i in range(k)]
                        for stop in STOPS:
                            for sp in stop_places:
                                for mode in MODES:
                                    for guard in (0, GUARD):
                                        for sd in (False, True):
                                            yield {'mode': mode, 'guard': guard, 'stop_data': sd,
                                                   'puts': puts, 'stop': [stop, sp]}


def grid_timeouts():
    """the expiry part of the grid: short stop_timeouts (see RULE)"""
    for k in (1, 2, 3):
        for slots in itertools.combinations_with_replacement(SLOTS, k):
            for durs in itertools.product(DURS, repeat=k):
                for failing in range(-1, k):
                    puts = [[slots[i], 'B', durs[i], i == failing] for i in range(k)]
                    for stop in STOPS:
                        for sp in (PLACES if k <= 2 else 'A'):
                            for to in (TIMEOUTS if k <= 2 else TIMEOUTS[1:2]):
                                for mode in MODES:
                                    for guard in (0, GUARD):
                                        for sd in (False, True):
                                            yield {'mode': mode, 'guard': guard, 'stop_data': sd, 'puts': puts,
                                                   'stop': [stop, sp], 'stop_timeout': to}


def grid_abort():
    """on_error=Event.abort(): the failing run itself stops the simulation (see RULE)"""
    for k in (1, 2):
        for slots in itertools.combinations_with_replacement(SLOTS, k):
            for durs in itertools.product(DURS, repeat=k):
                for failing in range(k):
                    puts = [[slots[i], 'B', durs[i], i == failing] for i in range(k)]
                    for to in (None, TIMEOUTS[1]):
                        for mode in MODES:
                            for guard in (0, GUARD):
                                for sd in (False, True):
                                    scn = {'mode': mode, 'guard': guard, 'stop_data': sd, 'puts': puts,
                                           'stop': [12, 'A'], 'abort': True}
                                    if to:
                                        scn['stop_timeout'] = to
                                    yield scn


LATE_SHAPES = (
    [[[0, 'S']], [[0, 'N']]]
    + [[[off, place]] for place in PLACES for off in (0, 1, 2, 3)]
    + [[[0, 'S'], [1, 'T']], [[0, 'N'], [2, 'A']], [[0, 'T'], [2, 'T']]])


def grid_late():
    """puts that reach the block around / after its stop() as internal events (see RULE)"""
    arrivals = [[[slot, 'B', dur, fail]] for slot in SLOTS for dur in DURS for fail in (False, True)]
    arrivals += [[[a, 'B', 3, False], [b, 'B', 3, False]] for a, b in itertools.combinations_with_replacement(SLOTS, 2)]
    for puts in arrivals:
        for stop in STOPS[:3]:
            for sp in PLACES:
                for shape in LATE_SHAPES:
                    late = [[stop + off, place, 1 + 2 * (n % 2), False] for n, (off, place) in enumerate(shape)]
                    for slow in (0, 3):
                        for mode in MODES:
                            for guard in (0, GUARD):
                                for sd in (False, True):
                                    yield {'mode': mode, 'guard': guard, 'stop_data': sd, 'puts': puts,
                                           'stop': [stop, sp], 'late': late, 'slow_cancel': slow}


def grid_noargs():
    """a coroutine without arguments (f_args=(), f_kwargs=()): event data may be the EMPTY mapping -- `blk.event('put')`
    as a direct call, `stop_data={}` -- or an ordinary one (see RULE)"""
    arrivals = [[[slot, 'B', dur, False]] for slot in (0, 1, 3) for dur in DURS]
    arrivals += [[[a, 'B', da, False], [b, 'B', db, False]]
                 for a, b in itertools.combinations_with_replacement((0, 1, 3), 2) for da in DURS for db in DURS]
    for puts in arrivals:
        ids = list(range(1, len(puts) + 1))
        for r in range(len(ids) + 1):
            for empties in itertools.combinations(ids, r):
                for stop in STOPS[:3]:
                    for sp in 'AB':
                        for sd in (None, 'empty', 'full'):
                            for mode in MODES:
                                for guard in (0, GUARD):
                                    yield {'mode': mode, 'guard': guard, 'stop_data': sd is not None, 'puts': puts,
                                           'stop': [stop, sp], 'noargs': True,
                                           'empty': list(empties) + ([SD_ID] if sd == 'empty' else [])}


def random_scn(rng):
    k = 4 if rng.random() < 0.8 else rng.randint(1, 6)
    puts = sorted(([rng.randrange(10), rng.choice(PLACES), rng.randint(1, 4), rng.random() < 0.2]
                   for _ in range(k)), key=lambda p: p[0])
    scn = {'mode': rng.choice(MODES), 'guard': rng.choice([0, 0, 1, 2, 3]), 'stop_data': rng.random() < 0.5,
           'puts': puts, 'stop': [rng.choice([1, 2, 3, 5, 8, 11, 14]), rng.choice(PLACES)]}
    if rng.random() < 0.4:
        scn['stop_timeout'] = rng.randint(max(1, scn['guard']), 12)
    if rng.random() < 0.15:
        scn['abort'] = True
    if rng.random() < 0.3:
        scn['late'] = [[scn['stop'][0] + rng.choice([0, 0, 1, 2, 3, 5]), rng.choice('SN' + PLACES),
                        rng.randint(1, 4), rng.random() < 0.2] for _ in range(rng.randint(1, 3))]
    if rng.random() < 0.3:
        scn['slow_cancel'] = rng.randint(1, 4)
    if rng.random() < 0.15:
        ids = list(range(1, len(puts) + len(scn.get('late', ())) + 1)) + ([SD_ID] if scn['stop_data'] else [])
        scn['noargs'] = True
        scn['empty'] = [i for i in ids if rng.random() < 0.5]
    return scn


FIXED = [
    # the shapes discussed in the model's header, kept in both tiers
    {'mode': 'cancel', 'guard': 2, 'stop_data': False, 'puts': [[0, 'B', 5, False], [2, 'B', 5, False], [3, 'B', 1, False]], 'stop': [30, 'A']},
    {'mode': 'cancel', 'guard': 2, 'stop_data': True, 'puts': [[0, 'B', 5, False], [5, 'T', 5, False], [5, 'T', 1, False]], 'stop': [6, 'A']},
    {'mode': 'cancel', 'guard': 0, 'stop_data': True, 'puts': [[0, 'B', 3, False], [1, 'T', 3, True]], 'stop': [1, 'T']},
    {'mode': 'cancel', 'guard': 0, 'stop_data': False, 'puts': [[1, 'B', 3, False], [3, 'B', 3, False], [4, 'B', 3, False], [4, 'T', 3, False]], 'stop': [12, 'A']},
    {'mode': 'wait', 'guard': 1, 'stop_data': True, 'puts': [[0, 'B', 3, False], [1, 'A', 3, True]], 'stop': [2, 'B']},
    {'mode': 'start', 'guard': 0, 'stop_data': True, 'puts': [[0, 'B', 3, False], [1, 'T', 2, False]], 'stop': [3, 'B']},
    {'mode': 'start', 'guard': 2, 'stop_data': True, 'puts': [], 'stop': [1, 'A']},
    # stop_timeout expiry: during a coroutine, exactly at its end, during the guard sleep, during stop_data
    {'mode': 'wait', 'guard': 0, 'stop_data': True, 'stop_timeout': 4, 'puts': [[0, 'B', 3, False], [1, 'B', 3, False], [1, 'B', 3, False]], 'stop': [2, 'A']},
    {'mode': 'wait', 'guard': 2, 'stop_data': True, 'stop_timeout': 2, 'puts': [[0, 'B', 3, False], [1, 'B', 3, False]], 'stop': [2, 'A']},
    {'mode': 'cancel', 'guard': 2, 'stop_data': True, 'stop_timeout': 4, 'puts': [[0, 'B', 3, False], [1, 'B', 3, False]], 'stop': [2, 'T']},
    {'mode': 'start', 'guard': 2, 'stop_data': True, 'stop_timeout': 6, 'puts': [[0, 'B', 3, False], [1, 'B', 3, False]], 'stop': [2, 'A']},
    {'mode': 'start', 'guard': 0, 'stop_data': True, 'stop_timeout': 2, 'puts': [[0, 'B', 3, False], [1, 'B', 3, False], [1, 'B', 1, True]], 'stop': [2, 'B']},
    # a put that reaches the block after its stop(): from another block's stop_async while the cancelled run
    # is still unwinding; during the guard sleep of the cancelled run; in the very step of stop(); much later
    {'mode': 'cancel', 'guard': 0, 'stop_data': True, 'puts': [[0, 'B', 5, False]], 'stop': [1, 'A'], 'late': [[1, 'N', 1, False]], 'slow_cancel': 3},
    {'mode': 'cancel', 'guard': 2, 'stop_data': True, 'puts': [[0, 'B', 5, False]], 'stop': [1, 'A'], 'late': [[2, 'T', 1, False]]},
    {'mode': 'cancel', 'guard': 2, 'stop_data': False, 'puts': [[0, 'B', 5, False], [1, 'B', 3, False]], 'stop': [2, 'B'], 'late': [[2, 'S', 1, False], [3, 'A', 1, False]]},
    {'mode': 'wait', 'guard': 0, 'stop_data': True, 'puts': [[0, 'B', 3, False], [1, 'B', 3, False]], 'stop': [2, 'T'], 'late': [[2, 'S', 1, False], [2, 'N', 1, True], [4, 'B', 1, False]]},
    {'mode': 'start', 'guard': 2, 'stop_data': True, 'puts': [[0, 'B', 3, False]], 'stop': [1, 'A'], 'late': [[1, 'N', 1, False], [30, 'A', 1, False]]},
    # a coroutine without arguments: `blk.event('put')` with no data at all, an ordinary put, stop_data={}
    {'mode': 'wait', 'guard': 0, 'stop_data': True, 'noargs': True, 'empty': [1, 3, 99], 'puts': [[0, 'B', 1, False], [2, 'B', 1, False], [4, 'A', 1, True]], 'stop': [6, 'A']},
    {'mode': 'cancel', 'guard': 2, 'stop_data': True, 'noargs': True, 'empty': [2, 99], 'puts': [[0, 'B', 3, False], [1, 'B', 3, False], [1, 'B', 1, False]], 'stop': [2, 'A']},
    {'mode': 'start', 'guard': 0, 'stop_data': True, 'noargs': True, 'empty': [1, 2, 99], 'puts': [[0, 'B', 3, False], [1, 'T', 2, False]], 'stop': [3, 'B']},
]


def scenarios(rng, tier):
    yield from FIXED
    yield from block_scenarios(rng, tier)
    if tier == 'quick':
        for scn in grid():
            if rng.random() < 0.03:
                yield scn
        for scn in grid_timeouts():
            if rng.random() < 0.03:
                yield scn
        for scn in grid_abort():
            if rng.random() < 0.2:
                yield scn
        for scn in grid_late():
            if rng.random() < 0.03:
                yield scn
        for scn in grid_noargs():
            if rng.random() < 0.1:
                yield scn
        nrandom = 3000
    else:
        yield from grid()
        yield from grid_timeouts()
        yield from grid_abort()
        yield from grid_late()
        yield from grid_noargs()
        nrandom = 40000
    for _ in range(nrandom):
        yield random_scn(rng)


def shrink(scn):
    puts = scn['puts']
    for i in reversed(range(len(puts))):
        yield {**scn, 'puts': puts[:i] + puts[i + 1:]}
    if scn['stop_data']:
        yield {**scn, 'stop_data': False}
    if scn['guard']:
        yield {**scn, 'guard': 0}
    if 'stop_timeout' in scn:
        yield {k: v for k, v in scn.items() if k != 'stop_timeout'}
    if scn.get('abort'):
        yield {k: v for k, v in scn.items() if k != 'abort'}
    late = scn.get('late') or []
    for i in reversed(range(len(late))):
        yield {**scn, 'late': late[:i] + late[i + 1:]}
    if scn.get('slow_cancel'):
        yield {**scn, 'slow_cancel': 0}
    for e in scn.get('empty', ()):
        yield {**scn, 'empty': [x for x in scn['empty'] if x != e]}
    for i, p in enumerate(puts):
        if p[3]:
            yield {**scn, 'puts': puts[:i] + [[p[0], p[1], p[2], False]] + puts[i + 1:]}
        if p[1] != 'B':
            yield {**scn, 'puts': puts[:i] + [[p[0], 'B', p[2], p[3]]] + puts[i + 1:]}
    if scn['stop'][1] != 'A':
        yield {**scn, 'stop': [scn['stop'][0], 'A']}


class _Run:
    """instrumented run of one scenario on the real OutputAsync"""

    def __init__(self, scn):
        self.scn = scn
        self.log = []           # (t_us, kind, arg) in the implementation's order
        self.stim = []          # stimuli in the actual order: ('put', t, pre, batch, id, dur, fail, accepted) | ('stop', t, pre)
        self.results = []       # (t_us, kind, id, data) result events as received by the probe
        self.t0 = 0
        self.loop = None
        self.last_internal = -1  # instant (µs) of the last fired coroutine timer / finished run
        self.last_put_t = None
        self.gets_at_last_put = None
        self.stopped = False
        self.end_us = None
        # coroutine without arguments (f_args=()): which put a data object belongs to is known by identity
        self.noargs = bool(scn.get('noargs'))
        self.empty_ids = set(scn.get('empty', ()))     # ids of the puts whose data is the EMPTY mapping
        self.obj_ids = {}           # id(data object) -> put id
        self.keep = []              # the data objects (kept alive: identities stay unique)
        self.pending_id = None      # the put being delivered right now
        self.params = {}            # put id -> (dur, fail): the script of a run that gets no arguments
        self.current = contextvars.ContextVar('c12_current_data')

    def now(self):
        return asyncio.get_running_loop().now_us - self.t0

    # --- the user coroutine: sleep(dur) written out so that the harness sees its timer fire
    async def work(self, id, dur, fail):
        loop = self.loop
        self.log.append((self.now(), 'start', id))
        fut = loop.create_future()

        def fire():
            if not fut.done():
                self.last_internal = self.now()
                fut.set_result(None)
        handle = loop.call_at(loop.time() + dur * TICK / 1e6, fire)
        try:
            await fut
        except asyncio.CancelledError:
            handle.cancel()
            self.log.append((self.now(), 'cancelled', id))
            for _ in range(self.scn.get('slow_cancel', 0)):
                await asyncio.sleep(0)      # a cancellation that does not finish at once
            raise
        self.log.append((self.now(), 'end', id))
        if fail:
            raise RuntimeError(f'run {id} failed')
        return id * 10

    async def work0(self):
        """the user coroutine of a block with f_args=(): it is told nothing; the harness knows from the
        identity of the data object of the running output task which put this is"""
        pid = self.obj_ids.get(id(self.current.get()))
        dur, fail = self.params[pid]
        return await self.work(pid, dur, fail)

    def pre(self):
        """1 = the stimulus comes before the block's own pending events of this instant, 0 = after them.
        cancel mode: while the control task waits for its output task (`await task`) the stimulus always
        precedes the controller's next step -- also in the loop iterations between the end of the task and
        the resumption of the controller."""
        if self.scn['mode'] == 'cancel':
            waiter = getattr(self.oa._ctrl_task, '_fut_waiter', None)
            if isinstance(waiter, asyncio.Task):
                return 1
        return 0 if self.last_internal == self.now() else 1

    def build(self, circuit):
        scn = self.scn
        run = self

        class P(Probe):
            def _event(self, etype, data):
                t = run.now()
                if etype == 'out':
                    if data['previous'] is edzed.UNDEF:
                        return None         # initialisation, before the script starts
                    if data['value'] < data['previous']:
                        run.last_internal = t
                    run.log.append((t, 'out', data['value']))
                else:
                    put = data.get('put')
                    pid = run.obj_ids.get(id(put)) if run.noargs else (put or {}).get('id')
                    run.log.append((t, etype, pid))
                    run.results.append((t, etype, pid, dict(data)))
                return None

        p = P('p')
        sd = {'id': SD_ID, 'dur': SD_DUR, 'fail': False} if scn['stop_data'] else None
        if sd is not None and SD_ID in self.empty_ids:
            sd = {}                 # a legal, "present" stop_data of a coroutine without arguments
        self.params[SD_ID] = (SD_DUR, False)
        for k, (_slot, _place, dur, fail) in enumerate(scn['puts']):
            self.params[k + 1] = (dur, fail)
        for lid, (_slot, _place, dur, fail) in self.late():
            self.params[lid] = (dur, fail)
        oa = edzed.OutputAsync(
            'oa', mode=scn['mode'],
            **(dict(coro=self.work0, f_args=(), f_kwargs=()) if self.noargs
               else dict(coro=self.work, f_args=['id', 'dur'], f_kwargs=['fail'])),
            guard_time=(scn['guard'] * TICK / 1e6 if scn['guard'] else None),
            on_success=edzed.Event(p, 'succ'), on_cancel=edzed.Event(p, 'canc'),
            # 'abort': the customary on_error=Event.abort() -- a failing run shuts the simulation down
            on_error=((edzed.Event(p, 'err'), edzed.Event.abort()) if scn.get('abort') else edzed.Event(p, 'err')),
            stop_data=sd, stop_timeout=scn.get('stop_timeout', BIG_TIMEOUT) * TICK / 1e6,
            on_output=edzed.Event(p, 'out'))
        self.oa = oa
        orig_stop = oa.stop

        orig_start = oa.start

        class CountingQueue(asyncio.Queue):
            """the block's queue, counting what the control task has taken out of it"""
            gets = 0

            def get_nowait(self):
                item = super().get_nowait()
                self.gets += 1
                return item

            def put_nowait(self, item):
                if item is not None:        # remember which put this data object is
                    run.obj_ids[id(item)] = run.pending_id
                    run.keep.append(item)
                super().put_nowait(item)

        def start():
            orig_start()
            oa._queue = CountingQueue()     # the control task has not run yet
        oa.start = start

        if self.noargs:
            if sd is not None:      # start mode hands the stop_data object itself to the wrapper
                self.obj_ids[id(oa._stop_data)] = SD_ID
            orig_output_coro = oa._output_coro

            async def output_coro(data):
                token = self.current.set(data)
                try:
                    await orig_output_coro(data)
                finally:
                    self.current.reset(token)
            oa._output_coro = output_coro

        def stop():
            self.stim.append(('stop', self.now(), self.pre(), self.batch()))
            self.stopped = True
            self.pending_id = SD_ID
            orig_stop()
            for lid, (_slot, place, dur, fail) in self.late():
                if place == 'S':            # in the very step that called stop()
                    self.put(oa, lid, dur, fail, internal=True)
        oa.stop = stop
        if any(place == 'N' for _, (_s, place, _d, _f) in self.late()):
            class Notifier(edzed.AddonAsync, edzed.SBlock):
                """another block whose asynchronous clean-up sends puts to the output block"""
                def init_regular(self):
                    self.set_output(None)

                async def stop_async(self):
                    for lid, (_slot, place, dur, fail) in run.late():
                        if place == 'N':
                            run.put(oa, lid, dur, fail, internal=True)
            Notifier('notifier')
        orig_stop_async = oa.stop_async

        async def stop_async():
            try:
                await orig_stop_async()
            finally:
                self.end_us = self.now()    # the instant at which the block's clean-up was over
        oa.stop_async = stop_async
        return oa

    def late(self):
        """[(id, [slot, place, dur, fail])] of the puts sent as internal events around / after the stop"""
        n = len(self.scn['puts'])
        return [(n + 1 + i, e) for i, e in enumerate(self.scn.get('late', []))]

    def batch(self):
        """1 = the control task has not taken anything from the queue since the previous put of this very
        instant (it has not run, or it is busy with a run): the stimuli are seen together"""
        return int(self.last_put_t == self.now() and self.gets_at_last_put == self.oa._queue.gets)

    def put(self, oa, id, dur, fail, internal=False):
        t = self.now()
        batch = self.batch()
        pre = self.pre()
        self.pending_id = id
        empty = id in self.empty_ids
        try:
            if self.noargs:
                # a direct call: `Event` / `ExtEvent` would add 'source'; no data at all is a legal event
                # for a coroutine without arguments
                if empty:
                    oa.event('put')
                else:
                    oa.event('put', id=id, dur=dur, fail=fail)
            elif internal:  # block-to-block events are delivered also during the clean-up
                oa.event('put', id=id, dur=dur, fail=fail, source='late')
            else:
                edzed.ExtEvent(oa).send(id=id, dur=dur, fail=fail)
            ok = True
        except edzed.EdzedInvalidState:
            ok = False
        if ok:
            self.last_put_t, self.gets_at_last_put = t, oa._queue.gets
        self.stim.append(('put', t, pre, batch, id, dur, fail, ok, int(empty)))

    async def drive(self, sim, oa):
        loop = self.loop = sim.loop
        self.t0 = loop.now_us
        scn = self.scn
        stimuli = [(slot, k, place, ('put', k + 1, dur, fail)) for k, (slot, place, dur, fail) in enumerate(scn['puts'])]
        stimuli.append((scn['stop'][0], len(stimuli), scn['stop'][1], ('stop',)))
        for lid, (slot, place, dur, fail) in self.late():
            if place in PLACES:
                stimuli.append((slot, len(stimuli), place, ('late', lid, dur, fail)))
        stimuli.sort(key=lambda s: (s[0], s[1]))

        def do(what):
            if what[0] == 'put':
                self.put(oa, *what[1:])
            elif what[0] == 'late':
                self.put(oa, *what[1:], internal=True)
            else:
                sim.circuit.abort(asyncio.CancelledError('shutdown'))
        for slot, _k, place, what in stimuli:
            if place == 'T':
                loop.call_at((self.t0 + slot * TICK) / 1e6, do, what)
        for slot, _k, place, what in stimuli:
            t = self.t0 + slot * TICK
            if place == 'T':
                continue
            if what[0] == 'put' and sim.circuit.error is not None and t > loop.now_us:
                continue        # shutdown under way: a later external put would only move the clock
            if place == 'B':
                if loop.now_us < t:
                    await vtime.advance_to(loop, t - 1)
                    loop.set_us(t)
            else:
                await vtime.advance_to(loop, t)
            do(what)
        if sim.circuit.error is None:
            await vtime.advance_to(loop, self.t0 + scn['stop'][0] * TICK)


def execute(scn):
    run = _Run(scn)
    sim = Sim()
    sim.run(run.build, run.drive)
    run.final_error = sim.final_error
    run.init_error = sim.init_error
    return run


def fmt_log(log, mode):
    """canonical rendering; in start mode the events of one instant are unordered (heap order of equal timers):
    they are sorted and the output changes are replaced by the value at the end of the instant"""
    if mode != 'start':
        return ','.join(f'{t}/{k}/{a}' for t, k, a in log) or '-'
    out, res = 0, []
    for t, grp in itertools.groupby(log, key=lambda e: e[0]):
        grp = list(grp)
        evs = sorted(f'{k}/{a}' for _, k, a in grp if k != 'out')
        for _, k, a in grp:
            if k == 'out':
                out = a
        res.append(f'{t}:' + '+'.join(evs) + f'=out{out}')
    return ','.join(res) or '-'


def run_impl(scn):
    if scn.get('kind'):
        return run_blocks(scn)
    run = execute(scn)
    mode = scn['mode']
    sd = f"{SD_ID}:{SD_DUR * TICK}:0:{int(SD_ID in scn.get('empty', ()))}" if scn['stop_data'] else '-'
    lines = [f"oasync reset {mode} {scn['guard'] * TICK} {sd} {scn.get('stop_timeout', BIG_TIMEOUT) * TICK}"]
    trace = ['ok']
    stop_seen = False
    for st in run.stim:
        if st[0] == 'put':
            _, t, pre, batch, id, dur, fail, ok, empty = st
            if not ok:
                continue        # refused by the circuit (shutting down): never reached the block
            lines.append(f'oasync put {t} {pre} {batch} {id} {dur * TICK} {int(fail)} {empty}')
            # a put that reaches the block after its stop() lands behind the sentinel
            trace.append('late' if stop_seen else 'ok')
        else:
            lines.append(f'oasync stop {st[1]} {st[2]} {st[3]}')
            trace.append('ok')
            stop_seen = True
    out = 0
    for _t, k, a in run.log:
        if k == 'out':
            out = a
    lines.append('oasync finish')
    trace.append(f"idle=true out={out} t={run.end_us}")
    lines.append('oasync log')
    trace.append(fmt_log(run.log, mode))
    accepted = [st for st in run.stim if st[0] == 'put' and st[7]]
    tags = ['on_error=abort'] if scn.get('abort') else []
    if scn.get('noargs'):
        tags.append('f_args=()')
        if any(st[0] == 'put' and st[8] for st in run.stim):
            tags.append('empty-event-data')
        if SD_ID in scn.get('empty', ()):
            tags.append('stop_data={}')
    tags += [f'mode={mode}', f"guard={'y' if scn['guard'] else 'n'}", f"stop_data={int(scn['stop_data'])}",
            f'nputs={len(accepted)}']
    kinds = {k for _, k, _ in run.log}
    tags += [f'seen={k}' for k in sorted(kinds & {'cancelled', 'canc', 'err'})]
    if any(st[0] == 'put' and st[3] for st in run.stim):
        tags.append('batch')
    if any(st[2] == 0 for st in run.stim):
        tags.append('tie-after-timer')
    stop_t = next((st[1] for st in run.stim if st[0] == 'stop'), None)
    if stop_t is not None and 'stop_timeout' in scn:
        dl = stop_t + scn['stop_timeout'] * TICK
        if run.end_us is not None and run.end_us > dl:
            tags.append('stop_timeout-expired')
            if any(k == 'start' and t >= dl for t, k, _ in run.log):
                tags.append('run-started-after-deadline')
        if any(k == 'cancelled' and t == dl for t, k, _ in run.log):
            tags.append('cancelled-by-stop_timeout')
        if run.end_us == dl:
            tags.append('work-ends-at-deadline')
    return {'lines': lines, 'trace': trace, 'tags': tags, 'nontrivial': len(accepted) > 0,
            'log': run.log, 'stim': run.stim, 'results': [(t, k, i, _plain(d)) for t, k, i, d in run.results],
            'end_us': run.end_us, 'final_error': repr(run.final_error), 'init_error': repr(run.init_error)}


def _plain(d):
    out = {}
    for k, v in d.items():
        if isinstance(v, BaseException):
            out[k] = f'{type(v).__name__}:{v}'
        elif isinstance(v, dict):
            out[k] = _plain(v)
        else:
            out[k] = v
    return out


# ---------------------------------------------------------------- independent oracle
# Written from the property statement and docs/sblocks1.rst; it looks only at what the implementation did:
# res['stim'] (arrivals/stop as they really happened), res['log'] and res['results'].

def oracle(scn, res):
    if scn.get('kind'):
        return oracle_blocks(scn, res)
    out = []

    def bad(clause, what, **sig):
        out.append({'clause': clause, 'what': what, 'sig': {'mode': scn['mode'], **sig}})

    mode, guard = scn['mode'], scn['guard'] * TICK
    log, stim = res['log'], res['stim']
    if res['init_error'] != 'None':
        bad('simulation_runs', f"start-up failed: {res['init_error']}")
        return out
    # on_error=Event.abort(): a run failing before the shutdown was requested must end the simulation with
    # that error; a failure in the instant of the request may come first or second
    t_req = scn['stop'][0] * TICK
    err_times = [t for t, k, _, _ in res['results'] if k == 'err'] if scn.get('abort') else []
    if any(t < t_req for t in err_times):
        if 'RuntimeError' not in res['final_error']:
            bad('abort_on_error', f"on_error=Event.abort(): a run failed but the simulation ended with {res['final_error']}")
    elif res['final_error'] != 'None' and not (any(t == t_req for t in err_times) and 'RuntimeError' in res['final_error']):
        bad('simulation_runs', f"the simulation ended with {res['final_error']} instead of a normal shutdown")
    stops = [st for st in stim if st[0] == 'stop']
    stop_pos = stim.index(stops[0]) if stops else len(stim)
    # (t, id, dur, fail) in arrival order: what the block accepted before its stop() / after it ("late")
    arrivals = [(st[1], st[4], st[5], st[6]) for st in stim[:stop_pos] if st[0] == 'put' and st[7]]
    late_puts = {st[4]: (st[1], st[4], st[5], st[6]) for st in stim[stop_pos:] if st[0] == 'put' and st[7]}
    if len(stops) != 1:
        bad('stop_called_once', f'stop() was called {len(stops)} times')
        return out
    t_stop = stops[0][1]
    deadline = t_stop + scn.get('stop_timeout', BIG_TIMEOUT) * TICK      # expiry of stop_timeout
    order = [a[1] for a in arrivals]
    script = {a[1]: a for a in arrivals}
    if scn['stop_data']:
        order.append(SD_ID)
        script[SD_ID] = (t_stop, SD_ID, SD_DUR, False)
    arrival_time = {i: script[i][0] for i in order}
    script.update(late_puts)
    arrival_time.update({i: late_puts[i][0] for i in late_puts})

    # -- exactly one result per accepted put, carrying the original data and matching what its run did
    starts, ends, cancels = {}, {}, {}
    for pos, (t, k, a) in enumerate(log):
        if k in ('start', 'end', 'cancelled'):
            d = {'start': starts, 'end': ends, 'cancelled': cancels}[k]
            if a in d:
                bad('one_run_per_put', f'coroutine of put {a}: second {k!r} at {t}')
            d[a] = (t, pos)
    results = {}
    for pos, (t, k, i, data) in enumerate(res['results']):
        results.setdefault(i, []).append((t, k, data))
    for i in results:
        if i not in script:
            bad('exactly_one_result', f'result event for an unknown put id {i}: {results[i]}')
    for i in order + list(late_puts):
        r = results.get(i, [])
        if i in late_puts and i in starts:
            bad('late_put_not_served', f'put {i} reached the block at {arrival_time[i]}, after its stop() at {t_stop}, '
                f'but a run was started for it at {starts[i][0]}')
        if len(r) != 1:
            bad('exactly_one_result', f'put {i} (arrived at {arrival_time[i]}'
                f"{', after the stop()' if i in late_puts else ''}) got {len(r)} result events: "
                f'{[(t, k) for t, k, _ in r]}', nresults=min(len(r), 2), late=i in late_puts)
            continue
        t, k, data = r[0]
        _, _, dur, fail = script[i]
        put = data.get('put')
        if i in scn.get('empty', ()):
            if put != {}:
                bad('result_carries_original_data', f'put {i} (empty event data): result event carries put={put}')
        elif put is None or (put.get('id'), put.get('dur'), put.get('fail')) != (i, dur, fail):
            bad('result_carries_original_data', f'put {i}: result event carries put={put}')
        if i in ends:
            want = 'err' if fail else 'succ'
        else:
            want = 'canc'
        if k != want:
            bad('result_matches_run', f'put {i}: result {k!r} at {t}, but its run '
                f"{'ended' if i in ends else 'did not end'} (fail={fail})", got=k, want=want)
        if k == 'succ' and data.get('value') != i * 10:
            bad('result_carries_original_data', f'put {i}: success value {data.get("value")!r}')
        if k == 'err' and 'RuntimeError' not in str(data.get('error')):
            bad('result_carries_original_data', f'put {i}: error item {data.get("error")!r}')
        if i in ends and t != ends[i][0]:
            bad('result_matches_run', f'put {i}: run ended at {ends[i][0]}, result at {t}')
        if i in starts and i not in ends and i not in cancels:
            bad('exactly_one_result', f'put {i}: run started but neither ended nor was cancelled')
    for i in starts:
        if i not in script:
            bad('one_run_per_put', f'a run started for unknown id {i}')
        elif starts[i][0] < arrival_time[i]:
            bad('one_run_per_put', f'run {i} started at {starts[i][0]} before its arrival {arrival_time[i]}')

    def over(i):
        """instant at which the coroutine of run i was over"""
        return (ends.get(i) or cancels.get(i) or (None,))[0]

    started = sorted(starts, key=lambda i: starts[i][1])

    # -- the output counts the active tasks (a task is active from its start until guard_time after its coroutine)
    value, pending_inc = 0, False
    decrements = []
    for pos, (t, k, a) in enumerate(log):
        if k == 'out':
            if pending_inc:
                bad('output_is_active_count', f'output raised to {value} at position {pos - 1} without a run starting')
            if a == value + 1:
                pending_inc = True
            elif a == value - 1:
                decrements.append(t)
            else:
                bad('output_is_active_count', f'output jumps {value} -> {a} at {t}')
            value = a
            if mode != 'start' and a not in (0, 1):
                bad('at_most_one_active', f'output {a} at {t} in {mode} mode')
        elif k == 'start':
            if not pending_inc:
                bad('output_is_active_count', f'run {a} started at {t} without the output being raised (output {value})')
            pending_inc = False
    if value != 0:
        bad('returns_to_zero', f'final output {value}')
    expected_dec = sorted(over(i) + guard for i in started if over(i) is not None)
    if sorted(decrements) != expected_dec:
        bad('output_is_active_count', f'output decrements at {sorted(decrements)}, runs were over (+guard) at {expected_dec}',
            fewer=len(decrements) < len(expected_dec))

    # -- per mode
    if mode in ('wait', 'cancel'):
        for a, b in zip(started, started[1:]):
            if over(a) is None or starts[b][1] < (ends.get(a) or cancels.get(a))[1]:
                bad('at_most_one_active', f'run {b} started at {starts[b][0]} while run {a} was active')
            elif starts[b][0] < over(a) + guard:
                bad('guard_separation', f'run {b} started at {starts[b][0]}, run {a} was over at {over(a)}, '
                    f'guard {guard}', after_cancel=a in cancels)
    if mode == 'wait':
        if started != order:
            bad('wait_fifo', f'runs started in order {started}, arrivals {order}')
        if any(k in ('canc', 'cancelled') and t != deadline for t, k, _ in log):
            bad('wait_never_cancels', f'cancellation in wait mode (not at the expiry of stop_timeout {deadline}): {cancels}')
    if mode == 'start':
        for i in order:
            if i == SD_ID:
                continue
            if i not in starts or starts[i][0] != arrival_time[i]:
                bad('start_at_arrival', f'put {i} arrived at {arrival_time[i]}, started at {starts.get(i)}')
        if any(k in ('canc', 'cancelled') and t != deadline for t, k, _ in log):
            bad('start_never_cancels', f'cancellation in start mode (not at the expiry of stop_timeout {deadline}): {cancels}')
    if mode == 'cancel' and order:
        rank = {i: n for n, i in enumerate(order)}
        for i, rs in results.items():
            for t, k, _ in rs:
                if k != 'canc' or i not in rank:
                    continue
                newer = [j for j in order if rank[j] > rank[i] and arrival_time[j] <= t]
                if not newer and not (t == deadline and i in cancels):
                    bad('cancel_only_by_newer', f'put {i} reported cancelled at {t} although nothing newer had arrived',
                        started=i in starts)
        last = order[-1]
        if ([k for _, k, _ in results.get(last, [])] not in (['succ'], ['err'])
                and not (last in cancels and cancels[last][0] == deadline)):
            bad('latest_completes', f'the most recent put {last} did not run to completion: '
                f'{[(t, k) for t, k, _ in results.get(last, [])]}')
        for i in cancels:
            if i in ends:
                bad('cancel_only_by_newer', f'run {i} both ended and was cancelled')

    # -- stop: pending work completed within stop_timeout, stop_data processed last
    # the work either is complete by the deadline, or the expiry cancels what is running then (whatever
    # coroutine runs across the deadline must have been cancelled exactly at it)
    if res['end_us'] is None:
        bad('stop_completes_pending_work', 'stop_async never finished')
    elif log and res['end_us'] < log[-1][0]:
        bad('stop_completes_pending_work', f"activity at {log[-1][0]} after the clean-up finished at {res['end_us']}")
    for i in started:
        if starts[i][0] < deadline and (over(i) is None or over(i) > deadline):
            bad('stop_within_timeout', f'run {i} (started {starts[i][0]}, over {over(i)}) runs across the expiry of '
                f'stop_timeout at {deadline} (stop at {t_stop})')
    for i in cancels:
        if cancels[i][0] == deadline and mode != 'cancel' and starts[i][0] > deadline:
            bad('stop_within_timeout', f'run {i} cancelled at {deadline} before it started')
    if scn['stop_data']:
        r = results.get(SD_ID, [])
        if [k for _, k, _ in r] != ['succ'] and not (SD_ID in cancels and cancels[SD_ID][0] == deadline):
            bad('stop_data_last', f'stop_data run did not succeed: {[(t, k) for t, k, _ in r]}')
        elif not res['results']:
            # (a changed implementation may report nothing at all: judged, not crashed on)
            bad('exactly_one_result', 'the stop_data run has no result event (no result event at all)')
        elif res['results'][-1][2] != SD_ID:
            bad('stop_data_last', f"the last result event is for put {res['results'][-1][2]}, not for stop_data")
        elif SD_ID in starts:
            late = [i for i in started if i != SD_ID and (over(i) is None or starts[SD_ID][1] < (ends.get(i) or cancels.get(i))[1])]
            if late or started[-1] != SD_ID:
                bad('stop_data_last', f'stop_data started at {starts[SD_ID][0]} before the end of runs {late} / not as the last run')
            if starts[SD_ID][0] < t_stop:
                bad('stop_data_last', f'stop_data started at {starts[SD_ID][0]} before the stop at {t_stop}')
    return out


# ================================================================ constructors and OutputFunc
# (model lean/EdzedModel/OutputBlocks.lean, driver prefix `oblocks`)

ARGSPECS = ('L:value', 'L:', 'L:a,b', 'L:a,#', 'S', 'N')
EVARGS = ('n', 'e1', 'e2', 'b')
MODE_STRINGS = ('c', 'cancel', 'w', 'wait', 's', 'start', 'C', 'Wait', '', 'x', 'cancel ')


def dec_argspec(e):
    if e == 'S':
        return 'abc'
    if e == 'N':
        return 5
    body = e[2:]
    return tuple(7 if x == '#' else x for x in body.split(',')) if body else ()


def enc_argspec(v):
    if isinstance(v, str):
        return 'S'
    if not isinstance(v, (list, tuple)):
        return 'N'
    return 'L:' + ','.join(x if isinstance(x, str) else '#' for x in v)


def dec_evarg(e, probes):
    if e == 'n':
        return None
    if e == 'b':
        return 42
    k = int(e[1:])
    evs = [edzed.Event(probes[i % len(probes)], f'ev{i}') for i in range(k)]
    return evs[0] if k == 1 else evs


def classify(err):
    msg = str(err)
    if 'should be a sequence' in msg:
        return 'argsNotStrings'
    if 'Event-like' in msg:
        return 'notEvents'
    if "Argument 'mode'" in msg:
        return 'badMode'
    if 'must not exceed' in msg:
        return 'guardExceeds'
    if 'Invalid type for time period' in msg and 'object' in msg:
        return 'badGuard'
    return 'superInit'


def sd_enc(sd):
    return '-' if sd is None else enc_data(sd)


def block_scenarios(rng, tier):
    n_ctor, n_func = (600, 400) if tier == 'quick' else (20000, 8000)
    for _ in range(n_ctor):
        if rng.random() < 0.6:
            yield {'kind': 'ctor', 'mode': rng.choice(MODE_STRINGS[:6] * 3 + MODE_STRINGS),
                   'fa': rng.choice(ARGSPECS[:3] * 3 + ARGSPECS), 'fk': rng.choice(ARGSPECS[:3] * 3 + ARGSPECS),
                   'g': rng.choice(['n', 'n', 0, 1, 4, 40, 41, -2, 'b']),
                   'onS': rng.choice(EVARGS[:3] * 3 + EVARGS), 'onC': rng.choice(EVARGS[:3] * 3 + EVARGS),
                   'onE': rng.choice(EVARGS[1:3] * 3 + EVARGS),
                   'sd': rng.choice([None, None, {}, {'value': 1}]), 'st': rng.choice([None, None, 1, 4, 40, 'b'])}
        else:
            yield {'kind': 'fctor', 'fa': rng.choice(ARGSPECS[:3] * 3 + ARGSPECS), 'fk': rng.choice(ARGSPECS[:3] * 3 + ARGSPECS),
                   'onS': rng.choice(EVARGS[:3] * 3 + EVARGS), 'onE': rng.choice(EVARGS[1:3] * 3 + EVARGS),
                   'sd': rng.choice([None, {}, {'value': 1}]), 'sup': rng.random() < 0.85}
    keys = ['value', 'a', 'b']
    vals = [0, 1, 7, 'x', 'boom', None, True]
    for _ in range(n_func):
        fa = rng.choice([['value'], ['value'], [], ['a'], ['a', 'b'], ['b', 'a']])
        fk = rng.choice([[], [], ['b'], ['value'], ['a', 'b']])

        def data():
            return {k: rng.choice(vals) for k in keys if rng.random() < 0.8}
        yield {'kind': 'func', 'fa': fa, 'fk': fk, 'nS': rng.choice([0, 1, 2]), 'nE': rng.choice([1, 1, 2]),
               'sd': rng.choice([None, None, {}, data(), data()]), 'puts': [data() for _ in range(rng.randint(0, 4))]}


def run_blocks(scn):
    kind = scn['kind']
    edzed.reset_circuit()
    probes = [Probe(f'p{i}') for i in range(2)]
    if kind in ('ctor', 'fctor'):
        kw = {}
        if kind == 'ctor':
            g = scn['g']
            us = 'n' if g == 'n' else ('b' if g == 'b' else max(0, g) * TICK)
            st = scn['st']
            st_us = 'b' if st == 'b' else (10_000_000 if st is None else st * TICK)
            line = (f"oblocks ctor {scn['mode'].replace(' ', '_') or '_'} {scn['fa']} {scn['fk']} {us} {scn['onS']} {scn['onC']} "
                    f"{scn['onE']} {sd_enc(scn['sd'])} {st_us}")
            if st is not None:
                kw['stop_timeout'] = 'bad' if st == 'b' else st * TICK / 1e6

            async def coro(*_a, **_k):
                return None
            try:
                b = edzed.OutputAsync(
                    'oa', coro=coro, mode=scn['mode'], f_args=dec_argspec(scn['fa']), f_kwargs=dec_argspec(scn['fk']),
                    guard_time=(None if g == 'n' else (object() if g == 'b' else g * TICK / 1e6)),
                    on_success=dec_evarg(scn['onS'], probes), on_cancel=dec_evarg(scn['onC'], probes),
                    on_error=dec_evarg(scn['onE'], probes), stop_data=scn['sd'], **kw)
                ctrl = ('cancel' if b._ctrl_coro == b._ctrl_cancel else 'wait' if b._ctrl_coro == b._ctrl_wait
                        else 'start' if b._ctrl_coro == b._ctrl_start else '?')
                reply = (f"ok {ctrl} {round(b._guard_time * 1e6)} {enc_argspec(b._f_args)} {enc_argspec(b._f_kwargs)} "
                         f"{len(b._on_success)} {len(b._on_cancel)} {len(b._on_error)}")
                attrs = {'stop_data': b._stop_data, 'stop_timeout': b.stop_timeout}
            except (TypeError, ValueError) as err:
                reply, attrs = 'err ' + classify(err), {'exc': type(err).__name__}
        else:
            line = (f"oblocks fctor {scn['fa']} {scn['fk']} {scn['onS']} {scn['onE']} {sd_enc(scn['sd'])} {int(scn['sup'])}")
            if not scn['sup']:
                kw['bogus_argument'] = 42   # refused by Block.__init__
            try:
                b = edzed.OutputFunc(
                    'of', func=lambda *a, **k: None, f_args=dec_argspec(scn['fa']), f_kwargs=dec_argspec(scn['fk']),
                    on_success=dec_evarg(scn['onS'], probes), on_error=dec_evarg(scn['onE'], probes),
                    stop_data=scn['sd'], **kw)
                reply = f"ok {enc_argspec(b._f_args)} {enc_argspec(b._f_kwargs)} {len(b._on_success)} {len(b._on_error)}"
                attrs = {'stop_data': b._stop_data}
            except (TypeError, ValueError) as err:
                reply, attrs = 'err ' + classify(err), {'exc': type(err).__name__}
        edzed.reset_circuit()
        return {'lines': [line], 'trace': [reply], 'tags': [f'kind={kind}', 'ctor=' + reply.split()[0] + (':' + reply.split()[1] if reply.startswith('err') else '')],
                'nontrivial': True, 'attrs': attrs}
    # ---- OutputFunc in a running circuit
    entries = []        # the implementation's log, rendered like the driver does

    def script(*args, **kwargs):
        entries.append('call(' + ','.join(enc(a) for a in args) + '|' + enc_data(kwargs) + ')')
        if 'boom' in args or 'boom' in kwargs.values():
            raise RuntimeError('boom')
        return args[0] if args else None
    lines = [f"oblocks func {','.join(scn['fa']) or '-'} {','.join(scn['fk']) or '-'} {scn['nS']} {scn['nE']} {sd_enc(scn['sd'])}"]
    trace = []
    steps = []
    sim = Sim()

    def build(circuit):
        class P(Probe):
            def _event(self, etype, data):
                if etype == 'out':
                    entries.append(f"output:{str(data['value']).lower()}")
                elif etype.startswith('s'):
                    entries.append(f"success{etype[1:]}:{enc(data.get('value'))}")
                else:
                    entries.append(f"error{etype[1:]}:{1 if isinstance(data.get('error'), RuntimeError) else '?'}")
                steps.append((etype, dict(data)))
        p = P('probe')
        of = edzed.OutputFunc(
            'of', func=script, f_args=scn['fa'], f_kwargs=scn['fk'],
            on_success=[edzed.Event(p, f's{i}') for i in range(scn['nS'])],
            on_error=[edzed.Event(p, f'e{i}') for i in range(scn['nE'])],
            stop_data=scn['sd'], on_output=edzed.Event(p, 'out'))
        orig_stop = of.stop

        def stop():
            n = len(entries)
            lines.append('oblocks fstop')
            try:
                orig_stop()
            except KeyError as err:
                trace.append(f'KeyError {err.args[0]} ' + (' '.join(entries[n:]) or '-'))
                raise
            entries.append('superStop')
            trace.append('ok ' + ' '.join(entries[n:]))
        of.stop = stop
        return of

    async def drive(sim_, of):
        trace.append(' '.join(entries) or '-')        # init_regular
        for data in scn['puts']:
            if sim_.circuit.error is not None:
                break
            n = len(entries)
            lines.append('oblocks fput ' + enc_data(data))
            try:
                r = of.event('put', **data)
                res = ('result ' + enc(r[1])) if r[0] == 'result' else f"error {1 if isinstance(r[1], RuntimeError) else '?'}"
                steps.append(('ret', r[0]))
            except KeyError as err:
                res = f'KeyError {err.args[0]}'
                steps.append(('ret', 'KeyError'))
            trace.append(res + ' ' + (' '.join(entries[n:]) or '-'))
    sim.run(build, drive)
    return {'lines': lines, 'trace': trace, 'tags': ['kind=func', f"f_args={len(scn['fa'])}", f"f_kwargs={len(scn['fk'])}",
                                                     f"stop_data={'none' if scn['sd'] is None else len(scn['sd'])}"],
            'nontrivial': bool(scn['puts']) or scn['sd'] is not None, 'steps': [(a, _plain(b) if isinstance(b, dict) else b) for a, b in steps],
            'entries': entries}


def oracle_blocks(scn, res):
    """independent checks from docs/sblocks1.rst"""
    out = []

    def bad(clause, what):
        out.append({'clause': clause, 'what': what, 'sig': {'kind': scn['kind']}})
    kind = scn['kind']
    reply = res['trace'][0] if res['trace'] else ''
    if kind in ('ctor', 'fctor'):
        ok = reply.startswith('ok')
        fa = dec_argspec(scn['fa'])
        fa_ok = isinstance(fa, tuple) and all(isinstance(x, str) for x in fa)
        if ok and not fa_ok:
            bad('f_args_must_be_strings', f"f_args={fa!r} was accepted")
        if kind == 'fctor':
            fk = dec_argspec(scn['fk'])
            if ok and not (isinstance(fk, tuple) and all(isinstance(x, str) for x in fk)):
                bad('f_kwargs_must_be_strings', f"OutputFunc accepted f_kwargs={fk!r}")
        if kind == 'ctor':
            if ok and scn['mode'] not in ('c', 'cancel', 'w', 'wait', 's', 'start'):
                bad('mode_values', f"mode {scn['mode']!r} was accepted")
            if ok:
                want = {'c': 'cancel', 'w': 'wait', 's': 'start'}[scn['mode'][0]]
                if reply.split()[1] != want:
                    bad('mode_values', f"mode {scn['mode']!r} selected the {reply.split()[1]} controller")
                g_us = 0 if scn['g'] == 'n' else max(0, scn['g']) * TICK
                if int(reply.split()[2]) != g_us:
                    bad('guard_time_default', f"guard_time {scn['g']!r} stored as {reply.split()[2]} µs")
                if g_us > res['attrs']['stop_timeout'] * 1e6:
                    bad('guard_within_stop_timeout', f"guard_time {g_us} µs accepted with stop_timeout {res['attrs']['stop_timeout']}")
            everything_fine = (fa_ok and scn['mode'] in ('c', 'cancel', 'w', 'wait', 's', 'start') and scn['g'] != 'b'
                               and 'b' not in (scn['onS'], scn['onC'], scn['onE']) and scn['st'] != 'b'
                               and (0 if scn['g'] == 'n' else max(0, scn['g'])) <= (40 if scn['st'] is None else scn['st']))
            if everything_fine and not ok:
                bad('valid_arguments_accepted', f'valid arguments were refused: {reply}')
        return out
    # OutputFunc: every put calls the function once with the named items; result / exception reported as documented
    puts = [l for l in res['lines'] if l.startswith('oblocks fput')]
    calls = [e for e in res['entries'] if e.startswith('call(')]
    expected_calls = 0
    datas = []
    for data in scn['puts'][:len(puts)]:
        datas.append(data)
        if not all(k in data for k in scn['fa'] + scn['fk']):
            break       # KeyError: the simulation is aborted, no further puts
    if scn['sd'] is not None and 'oblocks fstop' in res['lines']:
        datas.append(scn['sd'])
    for data in datas:
        if all(k in data for k in scn['fa'] + scn['fk']):
            want = 'call(' + ','.join(enc(data[k]) for k in scn['fa']) + '|' + enc_data({k: data[k] for k in scn['fk']}) + ')'
            if expected_calls >= len(calls) or calls[expected_calls] != want:
                bad('function_gets_the_named_items', f'call {expected_calls}: expected {want}, calls were {calls}')
                return out
            expected_calls += 1
    if len(calls) != expected_calls:
        bad('function_called_once_per_put', f'{len(calls)} calls for {expected_calls} deliverable puts')
    # each call is followed by its events: nS successes with the returned value, or nE errors
    ents = res['entries']
    for i, e in enumerate(ents):
        if e.startswith('call('):
            args = e[5:].split('|')[0]
            boom = enc('boom') in e
            follow = []
            for f in ents[i + 1:]:
                if f.startswith(('success', 'error')):
                    follow.append(f)
                else:
                    break
            if boom:
                want = [f'error{d}:1' for d in range(scn['nE'])]
            else:
                first = args.split(',')[0] if args else enc(None)
                want = [f'success{d}:{first}' for d in range(scn['nS'])]
            if follow != want:
                bad('result_events', f'after {e}: events {follow}, expected {want}')
    if scn['sd'] is not None and 'oblocks fstop' in res['lines'] and calls:
        sd = scn['sd']
        if all(k in sd for k in scn['fa'] + scn['fk']):
            want = 'call(' + ','.join(enc(sd[k]) for k in scn['fa']) + '|' + enc_data({k: sd[k] for k in scn['fk']}) + ')'
            if calls[-1] != want:
                bad('stop_data_last_call', f'the last call is {calls[-1]}, stop_data would be {want}')
    if not ents or ents[0] != 'output:false':
        bad('output_false', f'the output was not set to False first: {ents[:1]}')
    return out
