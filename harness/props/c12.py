"""C12 -- OutputAsync modes wait / cancel / start: correspondence with lean/EdzedModel/OutputAsync.lean + oracle.

A scenario is a script on the virtual clock (unit TICK = 0.25 s, exact in binary floating point):

    {'mode': 'wait'|'cancel'|'start', 'guard': ticks (0 = None), 'stop_data': bool,
     'puts': [[slot, place, dur, fail], ...],  'stop': [slot, place]}

`place` is the same-instant placement of DESIGN.md 2.3: 'B' (before the timers of the instant), 'T' (a loop
timer of that instant, fired in heap order among the block's own timers), 'A' (after the instant settled).
The k-th put carries id k+1; stop_data carries id 99.
"""
import asyncio
import itertools

import edzed

from .. import vtime
from ..simrun import Sim, Probe

ID = 'C12'
TICK = 250000           # µs
SD_ID, SD_DUR = 99, 2   # stop_data: id and duration (ticks)
MODES = ('wait', 'cancel', 'start')


class _Run:
    """instrumented run of one scenario on the real OutputAsync"""

    def __init__(self, scn):
        self.scn = scn
        self.log = []           # (t_us, kind, arg) in the implementation's order
        self.stim = []          # stimuli in the actual order: ('put', t, pre, batch, id, dur, fail, accepted) | ('stop', t, pre)
        self.results = []       # (t_us, kind, id, data) result events as received by the probe
        self.t0 = 0
        self.loop = None
        self.last_internal = -1  # instant (µs) of the last fired coroutine timer / finished run
        self.last_put_iter = None
        self.last_put_t = None
        self.stopped = False
        self.end_us = None

    def now(self):
        return asyncio.get_running_loop().now_us - self.t0

    # --- the user coroutine: sleep(dur) written out so that the harness sees its timer fire
    async def work(self, id, dur, fail):
        loop = self.loop
        self.log.append((self.now(), 'start', id))
        fut = loop.create_future()

        def fire():
            if not fut.done():
                self.last_internal = self.now()
                fut.set_result(None)
        handle = loop.call_at(loop.time() + dur * TICK / 1e6, fire)
        try:
            await fut
        except asyncio.CancelledError:
            handle.cancel()
            self.log.append((self.now(), 'cancelled', id))
            raise
        self.log.append((self.now(), 'end', id))
        if fail:
            raise RuntimeError(f'run {id} failed')
        return id * 10

    def pre(self):
        """1 = the stimulus comes before the block's own pending events of this instant, 0 = after them.
        cancel mode: while the control task waits for its output task (`await task`) the stimulus always
        precedes the controller's next step -- also in the loop iterations between the end of the task and
        the resumption of the controller."""
        if self.scn['mode'] == 'cancel':
            waiter = getattr(self.oa._ctrl_task, '_fut_waiter', None)
            if isinstance(waiter, asyncio.Task):
                return 1
        return 0 if self.last_internal == self.now() else 1

    def build(self, circuit):
        scn = self.scn
        run = self

        class P(Probe):
            def _event(self, etype, data):
                t = run.now()
                if etype == 'out':
                    if data['previous'] is edzed.UNDEF:
                        return None         # initialisation, before the script starts
                    if data['value'] < data['previous']:
                        run.last_internal = t
                    run.log.append((t, 'out', data['value']))
                else:
                    put = data.get('put') or {}
                    run.log.append((t, etype, put.get('id')))
                    run.results.append((t, etype, put.get('id'), dict(data)))
                return None

        p = P('p')
        sd = {'id': SD_ID, 'dur': SD_DUR, 'fail': False} if scn['stop_data'] else None
        oa = edzed.OutputAsync(
            'oa', coro=self.work, mode=scn['mode'], f_args=['id', 'dur'], f_kwargs=['fail'],
            guard_time=(scn['guard'] * TICK / 1e6 if scn['guard'] else None),
            on_success=edzed.Event(p, 'succ'), on_cancel=edzed.Event(p, 'canc'), on_error=edzed.Event(p, 'err'),
            stop_data=sd, stop_timeout=scn.get('stop_timeout', 4000) * TICK / 1e6,
            on_output=edzed.Event(p, 'out'))
        self.oa = oa
        orig_stop = oa.stop

        def stop():
            self.stim.append(('stop', self.now(), self.pre()))
            self.stopped = True
            orig_stop()
        oa.stop = stop
        orig_stop_async = oa.stop_async

        async def stop_async():
            try:
                await orig_stop_async()
            finally:
                self.end_us = self.now()    # the instant at which the block's clean-up was over
        oa.stop_async = stop_async
        return oa

    def put(self, oa, id, dur, fail):
        loop = self.loop
        t = self.now()
        batch = int(self.last_put_iter == loop.iterations and self.last_put_t == t)
        pre = self.pre()
        try:
            edzed.ExtEvent(oa).send(id=id, dur=dur, fail=fail)
            ok = True
        except edzed.EdzedInvalidState:
            ok = False
        if ok:
            self.last_put_iter, self.last_put_t = loop.iterations, t
        self.stim.append(('put', t, pre, batch, id, dur, fail, ok))

    async def drive(self, sim, oa):
        loop = self.loop = sim.loop
        self.t0 = loop.now_us
        scn = self.scn
        stimuli = [(slot, k, place, ('put', k + 1, dur, fail)) for k, (slot, place, dur, fail) in enumerate(scn['puts'])]
        stimuli.append((scn['stop'][0], len(stimuli), scn['stop'][1], ('stop',)))
        stimuli.sort(key=lambda s: (s[0], s[1]))

        def do(what):
            if what[0] == 'put':
                self.put(oa, *what[1:])
            else:
                sim.circuit.abort(asyncio.CancelledError('shutdown'))
        for slot, _k, place, what in stimuli:
            if place == 'T':
                loop.call_at((self.t0 + slot * TICK) / 1e6, do, what)
        for slot, _k, place, what in stimuli:
            t = self.t0 + slot * TICK
            if place == 'T':
                continue
            if sim.circuit.error is not None and t > loop.now_us:
                break           # shutdown under way: later stimuli would only move the clock
            if place == 'B':
                if loop.now_us < t:
                    await vtime.advance_to(loop, t - 1)
                    loop.set_us(t)
            else:
                await vtime.advance_to(loop, t)
            do(what)
            if what[0] == 'stop':
                break
        else:
            await vtime.advance_to(loop, self.t0 + scn['stop'][0] * TICK)


def execute(scn):
    run = _Run(scn)
    sim = Sim()
    sim.run(run.build, run.drive)
    run.final_error = sim.final_error
    run.init_error = sim.init_error
    return run


def fmt_log(log, mode):
    """canonical rendering; in start mode the events of one instant are unordered (heap order of equal timers):
    they are sorted and the output changes are replaced by the value at the end of the instant"""
    if mode != 'start':
        return ','.join(f'{t}/{k}/{a}' for t, k, a in log) or '-'
    out, res = 0, []
    for t, grp in itertools.groupby(log, key=lambda e: e[0]):
        grp = list(grp)
        evs = sorted(f'{k}/{a}' for _, k, a in grp if k != 'out')
        for _, k, a in grp:
            if k == 'out':
                out = a
        res.append(f'{t}:' + '+'.join(evs) + f'=out{out}')
    return ','.join(res) or '-'


def run_impl(scn):
    run = execute(scn)
    mode = scn['mode']
    sd = f'{SD_ID}:{SD_DUR * TICK}:0' if scn['stop_data'] else '-'
    lines = [f"oasync reset {mode} {scn['guard'] * TICK} {sd}"]
    trace = ['ok']
    for st in run.stim:
        if st[0] == 'put':
            _, t, pre, batch, id, dur, fail, ok = st
            if not ok:
                continue        # refused by the circuit (shutting down): never reached the block
            lines.append(f'oasync put {t} {pre} {batch} {id} {dur * TICK} {int(fail)}')
            trace.append('ok')
        else:
            lines.append(f'oasync stop {st[1]} {st[2]}')
            trace.append('ok')
    out = 0
    for _t, k, a in run.log:
        if k == 'out':
            out = a
    lines.append('oasync finish')
    trace.append(f"idle=true out={out} t={run.end_us}")
    lines.append('oasync log')
    trace.append(fmt_log(run.log, mode))
    accepted = [st for st in run.stim if st[0] == 'put' and st[7]]
    tags = [f'mode={mode}', f"guard={'y' if scn['guard'] else 'n'}", f"stop_data={int(scn['stop_data'])}",
            f'nputs={len(accepted)}']
    kinds = {k for _, k, _ in run.log}
    tags += [f'seen={k}' for k in sorted(kinds & {'cancelled', 'canc', 'err'})]
    if any(st[0] == 'put' and st[3] for st in run.stim):
        tags.append('batch')
    if any(st[2] == 0 for st in run.stim):
        tags.append('tie-after-timer')
    return {'lines': lines, 'trace': trace, 'tags': tags, 'nontrivial': len(accepted) > 0,
            'log': run.log, 'stim': run.stim, 'results': [(t, k, i, _plain(d)) for t, k, i, d in run.results],
            'end_us': run.end_us, 'final_error': repr(run.final_error), 'init_error': repr(run.init_error)}


def _plain(d):
    out = {}
    for k, v in d.items():
        if isinstance(v, BaseException):
            out[k] = f'{type(v).__name__}:{v}'
        elif isinstance(v, dict):
            out[k] = _plain(v)
        else:
            out[k] = v
    return out
