"""C15 -- finalized connection data: correspondence with lean/EdzedModel/Wiring.lean + oracle.

A scenario is a list of API calls on a fresh real circuit (block creation, connect(), Event /
filter construction, finalize(), set_persistent_data(), the real start on the virtual loop) and
`dump` points where everything observable is compared: block list, `inputs`, `iconnections`,
`oconnections`, `get_conf()['inputs']`, `input_signature()`, `Event.dest` / filter control blocks,
`is_finalized()`, `persistent_dict`.  The oracle works on the real objects (identity, not names).
"""
import asyncio
import collections
import collections.abc
import re
import types
import warnings

import edzed

from .. import vtime
from ..enc import enc, err_kind
from ..runner import shrink_ops

ID = 'C15'
RULE = ("random construction programs over <= 8 blocks (1..3 Inputs, 1..5 CBlocks of class Not / Override / "
        "FuncBlock) in random creation order; in half of the programs the block names are s0.. / c0.., in the "
        "other half they come from families of names that begin with the characters of '_not_' or are suffixes "
        "of each other (tx/x, not_a/a, ton/on/n, note/e, north/rth, o2/2, ...), used for S- and C-blocks, "
        "shortcuts, events and filters alike: connect() with block objects, names (also forward), "
        "'_not_NAME' shortcuts to S- and C-blocks (repeated, so inverters must be shared), '_ctrl', Const "
        "objects, plain values, tuple values as keyword groups, unnamed/named single inputs and groups of "
        "size 0..3; Event / IfOutput / IfNotIitialized / DataEdit.add_output references by name and by object; "
        "then finalize() and/or the real start, second finalize, frozen-circuit operations, repair-and-retry "
        "after a failed finalize; 35 % of the programs contain one class of invalid use (unknown name, "
        "foreign block (a block object kept from the circuit before reset_circuit(), with a name that does / "
        "does not exist in the current circuit; as single input, group member, input of a Not), UNDEF, bad automatic name, inverter of an unknown block, empty name, duplicate / "
        "reserved / empty block name, connect twice / nothing / '_' / sequence as positional input, wrong "
        "destination kind by object or by name, wrong or missing inputs of Not / Override); custom blocks "
        "calling check_signature() with expectations None / n / (lo, hi) with open bounds / malformed, "
        "connected with matching shapes (sizes at both bounds of the ranges) or with one mismatch class: "
        "empty or non-empty group for a single input, single input for a group, size just outside the "
        "bounds, missing / extra input name; FuncBlocks with a function of 0..3 positional-or-keyword and 0..2 "
        "keyword-only parameters with / without defaults, *args, **kwargs, unpack on / off, connected with what the "
        "function accepts or with too many / too few positional inputs, an unknown keyword, a keyword for a "
        "parameter given by position, a missing one; check_signature() called directly with what its message names "
        "compared; every group is handed over in one of the forms tuple, list, deque, "
        "user-defined Sequence, range, iterator, generator expression, map object (named groups) or unpacked "
        "from such an iterable (unnamed group) -- the protocol line and the oracle's expectation contain the "
        "member list only, so every form must give the connection data of the tuple form. A case is "
        "distinct by its (lines, trace) hash and non-trivial if at least one connection was made")
ASSUMPTIONS = [
    "constants that compare equal but differ in type (1 / True / 1.0) are not mixed: Const() shares one "
    "instance per ==-class and the last constructor call sets its output",
    "event destinations / filter control blocks are given by name or as blocks of the current circuit "
    "(the resolver does not look at the circuit of a block object)",
    "block classes: Input, ControlBlock, Not, Override, FuncBlock with a function accepting any arguments",
]
EXHAUSTIVE = {'quick': False, 'thorough': False}

UNDEF_TAG = {'u': 1}
# names used only by blocks of the circuit that existed before reset_circuit(): Input, FuncBlock, Not
FOREIGN_ONLY = ['olds', 'oldf', 'oldn']
# block names chosen so that str.lstrip/strip with the character set of '_not_', a wrong prefix length
# or a substring search instead of removeprefix('_not_') picks another existing block or nothing
NAME_FAMILIES = [
    ['tx', 'x'], ['not_a', 'a'], ['on', 'n'], ['ton', 'on', 'n'], ['o2', '2'], ['n1', '1'],
    ['note', 'e'], ['north', 'rth'], ['t', 'o'], ['no', 'not'], ['not_', 'ot_'], ['t_x', 'x'],
    ['x_not_y', 'y'], ['nn', 'n'], ['oo'], ['tot', 'to'],
]
CONSTS = [None, True, False, 2, 3, -7, 2.5, 'txt', {'t': [4, 5]}, {'t': []}, {'l': [6]}]
PLAIN = [None, True, False, 2, 3, -7, 2.5]
TUPLE_KW = [{'t': [2, 3]}, {'l': [None, True]}, {'t': []}, {'t': ['s0', 2]}]


def pyval(v):
    if isinstance(v, dict):
        if 'u' in v:
            return edzed.UNDEF
        if 't' in v:
            return tuple(v['t'])
        return list(v['l'])
    return v


# ---------------------------------------------------------------- generator

def _gen_ref(rng, st, allow_multi=False):
    """one reference; st: planned names, created names (for objects), options"""
    r = rng.random()
    created = st['created']
    if r < 0.22 and created:
        return ['o', rng.choice(created)]
    if r < 0.45:
        return ['n', rng.choice(st['planned'])]
    if r < 0.68:
        return ['n', '_not_' + rng.choice(st['inv_pool'])]
    if r < 0.71:
        return ['n', '_ctrl']
    if r < 0.85:
        return ['k', rng.choice(CONSTS)]
    return ['v', rng.choice(PLAIN)]


BAD_REFS = {
    'unknown_name': lambda rng, st: ['n', rng.choice(['zz', 's9', 'c9', 'ctrl', 'not_s0'])],
    'foreign_obj': lambda rng, st: ['x', rng.choice(st['planned'])],
    'foreign_obj_unknown_name': lambda rng, st: ['x', rng.choice(FOREIGN_ONLY)],
    'undef_value': lambda rng, st: ['v', UNDEF_TAG],
    'bad_auto_name': lambda rng, st: ['n', rng.choice(['_x', '_not__s0', '_not__not_s0', '_ctrl2', '_Not_0', '_'])],
    'not_of_unknown': lambda rng, st: ['n', rng.choice(['_not_zz', '_not_', '_not_ctrl'])],
    'empty_name': lambda rng, st: ['n', ''],
}
BAD_OTHER = ['dup_block_name', 'reserved_block_name', 'empty_block_name', 'connect_twice', 'connect_nothing',
             'kwarg_underscore', 'multi_positional', 'slot_wrong_kind_obj', 'slot_wrong_kind_name',
             'slot_unknown_name', 'wrong_signature', 'unconnected']
BAD_ALL = sorted(BAD_REFS) + BAD_OTHER


# every way of GIVING a group that `_is_multiple` accepts (Sequence or Iterator); the one-shot ones
# (iter, gen, map) can be walked only once
FORMS = ['tuple', 'list', 'deque', 'userseq', 'iter', 'gen', 'map']
ONE_SHOT = ('iter', 'gen', 'map')


class UserSeq(collections.abc.Sequence):
    """a user-defined read-only sequence"""

    def __init__(self, items):
        self._items = list(items)

    def __getitem__(self, i):
        return self._items[i]

    def __len__(self):
        return len(self._items)


def make_group(form, items):
    items = list(items)
    if form == 'list':
        return items
    if form == 'deque':
        return collections.deque(items)
    if form == 'userseq':
        return UserSeq(items)
    if form == 'iter':
        return iter(items)
    if form == 'gen':
        return (x for x in items)
    if form == 'map':
        return map(lambda x: x, items)
    if form == 'range' and items and all(type(x) is int for x in items) \
            and items == list(range(items[0], items[0] + len(items))):
        return range(items[0], items[0] + len(items))
    return tuple(items)


def _assign_forms(rng, pos, named):
    """choose how each group is handed over; returns the form of the unnamed group (`*form`)"""
    for item in named:
        inp = item[1]
        if inp[0] != 'group':
            continue
        q = rng.random()
        if q < 0.06 and 2 <= len(inp[1]) <= 3:
            inp[1][:] = [['v', 2 + i] for i in range(len(inp[1]))]
            form = 'range'
        elif q < 0.4:
            form = rng.choice(['tuple', 'list'])
        else:
            form = rng.choice(FORMS)
        del inp[2:]
        inp.append(form)
    return rng.choice(FORMS) if pos and rng.random() < 0.5 else 'tuple'


PARAM_NAMES = ['a', 'b', 'g', 'h', 'input', 'x']


def _gen_fsig(rng):
    """the function of a FuncBlock: positional-or-keyword and keyword-only parameters with / without a
    default, *args, **kwargs; called with the unnamed group unpacked or as one argument"""
    names = rng.sample(PARAM_NAMES, rng.randint(0, 5))
    npos = rng.randint(0, min(3, len(names)))
    pos = [[n, rng.random() < 0.4] for n in names[:npos]]
    seen = False
    for prm in pos:                          # a parameter without default cannot follow one with a default
        seen = seen or prm[1]
        prm[1] = seen
    kwonly = [[n, rng.random() < 0.4] for n in names[npos:npos + rng.randint(0, 2)]]
    return {'unpack': rng.random() < 0.7, 'pos': pos, 'va': rng.random() < 0.35, 'kwonly': kwonly,
            'vk': rng.random() < 0.3}


def _func_connect(rng, ref, fsig):
    """inputs for a FuncBlock: mostly what the function accepts, else too many / too few positional
    inputs, an unknown keyword, a keyword for a parameter already given by position, a missing one"""
    params = [n for n, _ in fsig['pos']]
    npos = rng.choice([0, 0, 1, len(params), len(params), len(params) + 1, rng.randint(0, 3)])
    pos = [ref() for _ in range(npos)]
    named = []
    used = params[:npos] if fsig['unpack'] else params[:1]
    for n, has_default in fsig['pos'] + fsig['kwonly']:
        if n in used:
            if rng.random() < 0.12:
                named.append([n, ['single', ref()]])          # multiple values
            continue
        if not has_default or rng.random() < 0.5:
            if rng.random() < 0.9:
                named.append([n, rng.choice([['single', ref()], ['group', [ref() for _ in range(rng.randint(0, 2))]]])])
    if rng.random() < 0.2:
        extra = rng.choice([n for n in PARAM_NAMES + ['z'] if n not in [k for k, _ in named]])
        named.append([extra, ['single', ref()]])
    rng.shuffle(named)
    if not pos and not named:
        named.append(['z', ['single', ref()]])
    return pos, named


def make_func(fsig):
    parts = [n + ('=None' if d else '') for n, d in fsig['pos']]
    if fsig['va']:
        parts.append('*rest_')
    elif fsig['kwonly']:
        parts.append('*')
    parts += [n + ('=None' if d else '') for n, d in fsig['kwonly']]
    if fsig['vk']:
        parts.append('**kw_')
    return eval('lambda ' + ', '.join(parts) + ': None')       # only names from PARAM_NAMES: no injection


def _fsig_line(fsig):
    def prm(l):
        return ','.join(n + ('=' if d else '') for n, d in l) or '-'
    return (f"func:{1 if fsig['unpack'] else 0}:{prm(fsig['pos'])}:{1 if fsig['va'] else 0}:"
            f"{prm(fsig['kwonly'])}:{1 if fsig['vk'] else 0}")


def _gen_esig(rng):
    """expected signature of a custom block: {input name: None | n | (lo, hi) | malformed}"""
    keys = rng.sample(['_', 'a', 'b', 'g', 'src'], rng.choice([0, 1, 1, 2, 2, 3]))
    esig = []
    for k in keys:
        q = rng.random()
        if q < 0.35:
            spec = None
        elif q < 0.6:
            spec = rng.choice([0, 1, 1, 2, 3])
        elif q < 0.95:
            lo = rng.choice([None, 0, 1, 2])
            hi = rng.choice([None, 0, 1, 2, 3])
            if lo is not None and hi is not None and hi < lo and rng.random() < 0.8:
                lo, hi = hi, lo
            spec = [lo, hi]
        else:
            spec = 'bad'
        esig.append([k, spec])
    return esig


def _sig_connect(rng, ref, esig):
    """inputs for a block expecting `esig`: mostly matching, sizes at the bounds of the ranges,
    otherwise one of the mismatch classes (empty / non-empty group for a single input, single input
    for a group, size just outside the bounds, missing / extra input name)"""
    pos, named = [], []
    for k, spec in esig:
        match = rng.random() < 0.72
        if spec is None:
            size = None if match else rng.choice([0, 0, 1, 2])
        elif spec == 'bad':
            size = rng.choice([None, 0, 1, 2])
        elif isinstance(spec, int):
            size = spec if match else rng.choice([None, spec + 1, max(spec - 1, 0), 0])
        else:
            lo, hi = spec
            if match:
                cands = [x for x in (lo, hi, (lo or 0), (lo or 0) + 1, (hi if hi is not None else (lo or 0) + 2))
                         if x is not None and x <= 4]
                size = rng.choice(cands) if cands else 0
            else:
                cands = [None]
                if lo is not None and lo > 0:
                    cands.append(lo - 1)
                if hi is not None:
                    cands.append(hi + 1)
                size = rng.choice(cands)
        if k == '_':
            pos = [ref() for _ in range(1 if size is None else size)]
        elif size is None:
            named.append([k, ['single', ref()]])
        elif size == 2 and rng.random() < 0.2:
            named.append([k, ['single', ['v', rng.choice(TUPLE_KW[:2])]]])     # a tuple value IS a group
        else:
            named.append([k, ['group', [ref() for _ in range(size)]]])
    q = rng.random()
    if q < 0.06 and named:
        named.pop(rng.randrange(len(named)))
    elif q < 0.12:
        named.append(['z', rng.choice([['single', ref()], ['group', []]])])
    if not pos and not named:
        named.append(['z', ['single', ref()]])
    return pos, named


def _gen_connect(rng, st, cls, bad=None, esig=None):
    def ref():
        return _gen_ref(rng, st)
    pos, named = [], []
    if cls == 'sig':
        return _sig_connect(rng, ref, esig)
    if cls == 'func':
        return _func_connect(rng, ref, esig)
    if cls == 'not':
        pos = [ref()]
        if bad == 'wrong_signature':
            if rng.random() < 0.5:
                pos.append(ref())
            elif rng.random() < 0.5:
                pos, named = [], [['x', ['single', ref()]]]
            else:
                pos, named = [], [['x', ['group', []]]]
    elif cls == 'ovr':
        named = [['input', ['single', ref()]], ['override', ['single', ref()]]]
        if rng.random() < 0.5:
            named.reverse()
        if bad == 'wrong_signature':
            k = rng.randrange(3)
            if k == 0:
                named.pop()
            elif k == 1:
                named[rng.randrange(2)][1] = ['group', [ref() for _ in range(rng.choice([0, 0, 1, 2]))]]
            else:
                pos = [ref()]
    else:
        pos = [ref() for _ in range(rng.choice([0, 0, 1, 1, 2, 3]))]
        keys = rng.sample(['a', 'b', 'g', 'h', 'input'], rng.choice([0, 1, 1, 2, 3]))
        for k in keys:
            q = rng.random()
            if q < 0.45:
                named.append([k, ['single', ref()]])
            elif q < 0.9:
                named.append([k, ['group', [ref() for _ in range(rng.choice([0, 1, 2, 2, 3]))]]])
            else:
                named.append([k, ['single', ['v', rng.choice(TUPLE_KW)]]])
        if not pos and not named:
            pos = [ref()]
    return pos, named


def gen_scenario(rng, bad=None):
    ns = rng.randint(1, 3)
    nc = rng.randint(1, 5)
    if rng.random() < 0.5:
        snames = [f's{i}' for i in range(ns)]
        cnames = [f'c{i}' for i in range(nc)]
        inv_first = []
    else:
        # names that begin with the characters of '_not_' and names that are suffixes of each other:
        # the inverter of '_not_X' must be wired to the block called exactly X
        fams = rng.sample(NAME_FAMILIES, rng.choice([1, 2, 2, 3]))
        names = []
        for fam in fams:
            for n in fam:
                if n not in names:
                    names.append(n)
        rng.shuffle(names)
        names = names[:ns + nc]
        fill = [f's{i}' for i in range(3)] + [f'c{i}' for i in range(5)]
        while len(names) < ns + nc:
            names.append(fill.pop(0))
        inv_first = [n for n in names if n[0] in 'not' or any(m != n and m.endswith(n) for m in names)]
        rng.shuffle(names)
        snames, cnames = names[:ns], names[ns:]
    planned = snames + cnames
    inv_pool = rng.sample(planned, min(len(planned), rng.choice([1, 1, 2, 3])))
    if inv_first:
        # shortcuts mostly to the awkward names, longest first ('_not_tx' while 'x' exists too)
        inv_first.sort(key=len, reverse=True)
        inv_pool = (inv_first[:rng.choice([1, 2, 3])] + inv_pool)[:3]
    st = {'planned': planned, 'created': [], 'inv_pool': inv_pool}
    classes = {c: rng.choice(['any', 'any', 'not', 'not', 'ovr', 'sig', 'sig', 'func', 'func']) for c in cnames}
    esigs = {c: (_gen_fsig(rng) if classes[c] == 'func' else _gen_esig(rng)) for c in cnames}
    todo = [('s', n) for n in snames] + [('c', n) for n in cnames]
    rng.shuffle(todo)
    pending_connect = []
    ops = []
    nslots = 0
    bad_cb = rng.choice(cnames)
    if bad in ('wrong_signature', 'unconnected'):
        classes[bad_cb] = rng.choice(['not', 'ovr'])
    bad_injected = False

    def maybe_slot():
        nonlocal nslots
        if rng.random() < 0.35 and nslots < 4:
            kind = rng.choice(['event', 'event', 'ifout', 'ifnotinit', 'addout'])
            need_s = kind in ('event', 'ifnotinit')
            pool_s = list(snames)
            q = rng.random()
            if q < 0.35:
                cands = [n for n in st['created'] if (n in snames or not need_s)]
                if cands:
                    ops.append(['slot', kind, ['o', rng.choice(cands)]])
                    nslots += 1
                    return
            if q < 0.8 or need_s:
                name = rng.choice(pool_s if need_s else planned)
                if need_s and rng.random() < 0.15:
                    name = '_ctrl'
            else:
                name = '_not_' + rng.choice(inv_pool)
            ops.append(['slot', kind, ['n', name]])
            nslots += 1

    while todo or pending_connect:
        if todo and (not pending_connect or rng.random() < 0.6):
            k, n = todo.pop()
            if k == 's':
                ops.append(['s', n])
            else:
                ops.append(['c', classes[n], n] + ([esigs[n]] if classes[n] in ('sig', 'func') else []))
                pending_connect.append(n)
            st['created'].append(n)
        else:
            n = pending_connect.pop(rng.randrange(len(pending_connect)))
            if bad == 'unconnected' and n == bad_cb:
                continue
            pos, named = _gen_connect(rng, st, classes[n],
                                      bad if (bad == 'wrong_signature' and n == bad_cb) else None, esigs[n])
            if bad in BAD_REFS and (n == bad_cb or rng.random() < 0.15):
                b = BAD_REFS[bad](rng, st)
                where = rng.random()
                groups = [x for x in named if x[1][0] == 'group']
                if where < 0.4 and groups:
                    g = rng.choice(groups)[1][1]
                    g.insert(rng.randint(0, len(g)), b)
                elif where < 0.7 and classes[n] == 'any':
                    named.append(['z', ['single', b]])
                elif pos:
                    pos[rng.randrange(len(pos))] = b
                else:
                    named[0][1] = ['single', b]
                bad_injected = True
            if n == bad_cb:
                if bad == 'connect_nothing':
                    ops.append(['connect', n, [], []])
                elif bad == 'kwarg_underscore':
                    ops.append(['connect', n, [], named + [['_', ['single', _gen_ref(rng, st)]]]])
                elif bad == 'multi_positional':
                    ops.append(['connect', n, pos + [['v', rng.choice(TUPLE_KW[:3])]], named])
            ops.append(['connect', n, pos, named, _assign_forms(rng, pos, named)])
            if n == bad_cb and bad == 'connect_twice':
                p2, n2 = _gen_connect(rng, st, classes[n], None, esigs[n])
                ops.append(['connect', n, p2, n2, _assign_forms(rng, p2, n2)])
        maybe_slot()
        if bad == 'dup_block_name' and st['created'] and rng.random() < 0.3:
            ops.append(rng.choice([['s', rng.choice(st['created'])], ['c', 'any', rng.choice(st['created'])]]))
        if bad == 'reserved_block_name' and rng.random() < 0.3:
            ops.append(rng.choice([['s', '_s0'], ['c', 'not', '_not_s0'], ['s', '_ctrl']]))
        if bad == 'empty_block_name' and rng.random() < 0.3:
            ops.append(rng.choice([['s', ''], ['c', 'any', '']]))
    if bad == 'slot_wrong_kind_obj':
        ops.append(['slot', rng.choice(['event', 'ifnotinit']), ['o', rng.choice(cnames)]])
    if bad == 'slot_wrong_kind_name':
        ops.append(['slot', rng.choice(['event', 'ifnotinit']),
                    ['n', rng.choice(cnames + ['_not_' + inv_pool[0]])]])
    if bad == 'slot_unknown_name':
        ops.append(['slot', rng.choice(['event', 'ifout', 'addout']), ['n', rng.choice(['zz', '_zz', '_not__s0', ''])]])
    if bad == 'dup_block_name':
        ops.append(['s', rng.choice(st['created'])])

    # ---- check_signature() called directly: what the error message names is compared as well
    for cn in cnames:
        if classes[cn] in ('not', 'ovr', 'sig') and rng.random() < 0.7:
            ops.append(['chk', cn])

    # ---- the end game
    if rng.random() < 0.2:
        ops.append(['dump'])
    if rng.random() < 0.15:
        ops.append(['setpd', 1])
    route = rng.random()
    if route < 0.72:
        ops.append(['finalize'])
        ops.append(['dump'])
        if bad in BAD_REFS or bad in ('slot_unknown_name',):
            if rng.random() < 0.5:
                # repair attempt: create the missing blocks, retry
                for n in ('zz', 's9', 'c9'):
                    if rng.random() < 0.6:
                        ops.append(['s', n])
                ops.append(['finalize'])
                ops.append(['dump'])
        if rng.random() < 0.5:
            # frozen circuit
            for _ in range(rng.randint(1, 3)):
                q = rng.random()
                if q < 0.3:
                    ops.append(rng.choice([['s', 'late'], ['c', 'any', 'late2']]))
                elif q < 0.6:
                    pos, named = _gen_connect(rng, st, 'any')
                    ops.append(['connect', rng.choice(cnames), pos, named])
                elif q < 0.8:
                    ops.append(['setpd', rng.choice([None, 2])])
                else:
                    ops.append(['finalize'])
            ops.append(['dump'])
        if rng.random() < 0.2:
            ops.append(['slot', 'event', ['n', rng.choice(snames + ['_ctrl'])]])
        if rng.random() < 0.45:
            ops.append(['start'])
            ops.append(['dump'])
    else:
        ops.append(['start'])
        ops.append(['dump'])
    return {'ops': ops, 'bad': bad}


def scenarios(rng, tier):
    n = 3000 if tier == 'quick' else 150000
    # one of each invalid class first, then the mix
    for bad in BAD_ALL:
        for _ in range(12 if tier == 'quick' else 200):
            yield gen_scenario(rng, bad)
    for _ in range(n):
        bad = rng.choice(BAD_ALL) if rng.random() < 0.35 else None
        yield gen_scenario(rng, bad)


def shrink(scn):
    yield from shrink_ops(scn)


# ---------------------------------------------------------------- implementation runner

def _anyfunc(*_a, **_k):
    return None


class SigBlock(edzed.CBlock):
    """a custom block whose start() checks the connected inputs against an expected signature"""

    def __init__(self, *args, esig, **kwargs):
        self._esig = esig
        super().__init__(*args, **kwargs)

    def calc_output(self):
        return None

    def start(self):
        super().start()
        self.check_signature(self._esig)


def _py_esig(esig):
    out = {}
    for k, spec in esig:
        out[k] = (1, 2, 3) if spec == 'bad' else tuple(spec) if isinstance(spec, list) else spec
    return out


def _parse_sig_message(msg, order):
    """what the ValueError of check_signature names -> canonical text (names only, sorted / in esig order)"""
    def names(l):
        return ','.join('.' + n for n in sorted(l)) or '-'
    m = re.match(r"check_signature: input '([^']*)': invalid value", msg)
    if m:
        return 'malformed .' + m.group(1)
    if not msg.startswith('Not connected correctly: '):
        return 'other'
    body = msg[len('Not connected correctly: '):]
    if body.startswith('unexpected: ') or body.startswith('missing: '):
        body = re.sub(r" \(did you mean [^)]*\)", '', body)
        mm = re.match(r"(?:unexpected: (?P<u>.*?))?(?:(?:, )?missing: (?P<m>.*))?$", body)
        u = re.findall(r"'([^']*)'", mm.group('u') or '')
        mi = re.findall(r"'([^']*)'", mm.group('m') or '')
        return f'names u={names(u)} m={names(mi)}'
    if not body.strip():
        return 'names u=- m=-'
    items = []
    for part in body.split('; '):
        head = part.split(':')[0]
        items.append(head[len('group '):] if head.startswith('group ') else head)
    if any(x not in order for x in items):
        return 'other'
    items.sort(key=order.index)
    return 'values ' + ','.join('.' + n for n in items)


def _esig_line(esig):
    def one(spec):
        if spec is None:
            return 'n'
        if spec == 'bad':
            return 'bad'
        if isinstance(spec, list):
            return '~'.join('n' if x is None else str(x) for x in spec)
        return str(spec)
    return ';'.join(f'{k}={one(spec)}' for k, spec in esig) or '-'


def _mk_block(kind, name, esig=None):
    if kind == 'sig':
        return SigBlock(name, esig=_py_esig(esig))
    if kind == 'func':
        return edzed.FuncBlock(name, func=make_func(esig), unpack=esig['unpack'])
    if kind == 's':
        return edzed.Input(name, initdef=0)
    if kind == 'not':
        return edzed.Not(name)
    if kind == 'ovr':
        return edzed.Override(name)
    return edzed.FuncBlock(name, func=_anyfunc)


def _kind_str(blk):
    if isinstance(blk, edzed.SBlock):
        return 'S'
    if isinstance(blk, edzed.Not):
        return 'Cnot'
    if isinstance(blk, edzed.Override):
        return 'Covr'
    if isinstance(blk, edzed.FuncBlock):
        return 'Cany'
    if isinstance(blk, SigBlock):
        return 'Csig'
    return '?'


def _ref_line(r):
    k, x = r
    if k in ('o', 'x', 'n'):
        return f'{k}.{x}'
    return f'{k}~{enc(pyval(x))}'


def _inp_line(inp):
    if inp[0] == 'single':
        return _ref_line(inp[1])
    return '(' + '|'.join(_ref_line(r) for r in inp[1]) + ')'


class _Run:
    def __init__(self, scn=None):
        # blocks of "another circuit" with the names this scenario uses
        edzed.reset_circuit()
        self.foreign = {}
        for op in (scn or {}).get('ops', []):
            name = op[1] if op[0] == 's' else op[2] if op[0] == 'c' else None
            if name and not name.startswith('_') and name not in self.foreign:
                self.foreign[name] = (edzed.Input(name, initdef=0) if op[0] == 's'
                                      else edzed.FuncBlock(name, func=_anyfunc))
        # ... and blocks whose names the current circuit will never have
        for name in FOREIGN_ONLY:
            if name not in self.foreign:
                self.foreign[name] = (edzed.Input(name, initdef=0) if name.endswith('s') else
                                      edzed.Not(name).connect(FOREIGN_ONLY[0]) if name.endswith('n')
                                      else edzed.FuncBlock(name, func=_anyfunc))
        edzed.reset_circuit()
        self.circuit = edzed.get_circuit()
        self.blocks = {}        # objects created by the scenario, by name
        self.slots = []         # (kind, holder object, attribute, given ref)
        self.specs = {}         # block name -> (pos, named) of the accepted connect()
        self.dicts = {}
        self.constnames = {}
        self.lines, self.trace, self.steps, self.snaps = [], [], [], []
        self.started = False
        self.forms = []
        self.classes = {}
        self.emit('reset', 'ok')

    def emit(self, line, reply):
        self.lines.append('wiring ' + line)
        self.trace.append(reply)

    def arg(self, r):
        """scenario reference -> Python argument; may rewrite the reference (object not available)"""
        k, x = r
        if k == 'o':
            if x in self.blocks:
                return self.blocks[x], r
            return x, ['n', x]
        if k == 'x':
            if x in self.foreign:
                return self.foreign[x], r
            return x, ['n', x]
        if k == 'n':
            return x, r
        v = pyval(x)
        self.note_const(v)
        if k == 'k':
            return edzed.Const(v), r
        return v, r

    def note_const(self, v):
        if v is edzed.UNDEF:
            return
        self.constnames[f'<Const {v!r}>'] = f'<Const {enc(v)}>'
        if isinstance(v, (tuple, list)):
            for x in v:
                self.constnames[f'<Const {x!r}>'] = f'<Const {enc(x)}>'

    # -- observations
    def obs_ref(self, x):
        if isinstance(x, edzed.Const):
            return 'k~' + enc(x.output)
        if isinstance(x, edzed.Block):
            return ('o.' if x in self.circuit.getblocks() else 'x.') + x.name
        if isinstance(x, str):
            return 'n.' + x
        return 'v~' + enc(x)

    def obs_inputs(self, blk):
        items = []
        for k, v in blk.inputs.items():
            if isinstance(v, tuple):
                items.append(k + '=(' + '|'.join(self.obs_ref(x) for x in v) + ')')
            else:
                items.append(k + '=' + self.obs_ref(v))
        return '+'.join(items) or '-'

    @staticmethod
    def names(blks):
        return ','.join('.' + n for n in sorted(b.name for b in blks)) or '-'

    def dump(self):
        c = self.circuit
        blks = list(c.getblocks())
        self.emit('fin', 'b1' if c.is_finalized() else 'b0')
        pd = c.persistent_dict
        self.emit('pd', 'n' if pd is None else str(next(k for k, d in self.dicts.items() if d is pd)))
        self.emit('blocks', ','.join('.' + b.name for b in blks) or '-')
        snap = {'finalized': c.is_finalized(), 'blocks': [], 'slots': [], 'pd': None if pd is None else id(pd),
                'foreign_touched': sorted(n for n, f in self.foreign.items() if f.oconnections)}
        self.emit('foreign ' + (','.join('.' + n for n in sorted(self.foreign)) or '-'),
                  ','.join('.' + n for n in snap['foreign_touched']) or '-')
        for blk in sorted(blks, key=lambda b: b.name):
            iscb = isinstance(blk, edzed.CBlock)
            ic = blk.iconnections if iscb else ()
            self.emit(f'blk .{blk.name}',
                      f'{_kind_str(blk)} in={self.obs_inputs(blk) if iscb else "-"} '
                      f'ic={self.names(ic)} oc={self.names(blk.oconnections)}')
            rec = {'name': blk.name, 'id': id(blk), 'kind': _kind_str(blk),
                   'ic': sorted(id(x) for x in ic), 'oc': sorted(id(x) for x in blk.oconnections),
                   'oc_all_cblocks': all(isinstance(x, edzed.CBlock) for x in blk.oconnections),
                   'inputs': None, 'conf': None, 'sig': None}
            if iscb:
                rec['inputs'] = [
                    [k, [self.snap_ref(x) for x in v] if isinstance(v, tuple) else self.snap_ref(v)]
                    for k, v in blk.inputs.items()]
                try:
                    conf = blk.get_conf()
                    if conf.get('name') != blk.name or conf.get('type') != 'combinational':
                        line = 'err BadConf'
                    elif 'inputs' not in conf:
                        line = 'absent'
                    else:
                        rec['conf'] = [[k, list(v) if isinstance(v, tuple) else v]
                                       for k, v in conf['inputs'].items()]
                        items = []
                        for k, v in conf['inputs'].items():
                            if isinstance(v, tuple):
                                items.append(k + '=(' + '|'.join(self.constnames.get(x, x) for x in v) + ')')
                            else:
                                items.append(k + '=' + self.constnames.get(v, v))
                        line = '+'.join(items) or '-'
                except AttributeError:
                    line = 'err AttributeError'
                self.emit(f'conf .{blk.name}', line)
                try:
                    sig = blk.input_signature()
                    rec['sig'] = [[k, v] for k, v in sig.items()]
                    line = '+'.join(f'{k}={"n" if v is None else v}' for k, v in sig.items())
                except Exception as err:
                    line = 'err ' + err_kind(err)
                self.emit(f'sig .{blk.name}', line)
            snap['blocks'].append(rec)
        for i, (kind, holder, attr, given) in enumerate(self.slots):
            cur = getattr(holder, attr)
            if isinstance(cur, str):
                line = f'err InvalidState .{cur}'
            elif isinstance(cur, edzed.Block):
                line = 'obj .' + cur.name
            else:
                line = 'err Other'
            dest_exc = None
            if kind == 'event':
                try:
                    d = holder.dest
                    if d is not cur:
                        line = 'err DestMismatch'
                    elif isinstance(cur, str):
                        line = 'err DestNotRaised'      # documented: InvalidState before the resolution
                except Exception as err:
                    dest_exc = err_kind(err)
                    if not isinstance(cur, str) or dest_exc != 'InvalidState':
                        line = 'err Dest' + dest_exc
            self.emit(f'dest {i}', line)
            snap['slots'].append({'kind': kind, 'given': given, 'cur': self.snap_ref(cur), 'dest_exc': dest_exc})
        self.snaps.append(snap)
        self.steps.append(['dump', len(self.snaps) - 1])

    def snap_ref(self, x):
        if isinstance(x, edzed.Const):
            return ['const', enc(x.output), type(x.output).__name__, x.name]
        if isinstance(x, edzed.Block):
            return ['block', id(x), x.name, x in self.circuit.getblocks()]
        if isinstance(x, str):
            return ['str', x]
        return ['raw', repr(x)]

    # -- operations
    def op(self, op):
        c = self.circuit
        kind = op[0]
        if kind in ('s', 'c'):
            cls, name = ('s', op[1]) if kind == 's' else (op[1], op[2])
            esig = op[3] if cls in ('sig', 'func') else None
            line = (f'sblock .{name}' if kind == 's' else
                    f'cblock sig:{_esig_line(esig)} .{name}' if cls == 'sig' else
                    f'cblock {_fsig_line(esig)} .{name}' if cls == 'func' else f'cblock {cls} .{name}')
            try:
                blk = _mk_block(cls, name, esig)
                self.blocks[name] = blk
                self.classes[name] = (cls, esig)
                self.emit(line, 'ok')
                self.steps.append(['add', name, 'ok', cls, esig])
            except Exception as err:
                self.emit(line, 'err ' + err_kind(err))
                self.steps.append(['add', name, 'err'])
        elif kind == 'connect':
            b, pos, named = op[1], op[2], op[3]
            posform = op[4] if len(op) > 4 else 'tuple'
            blk = self.blocks.get(b)
            if not isinstance(blk, edzed.CBlock):
                return
            pargs, ppos = [], []
            for r in pos:
                a, r2 = self.arg(r)
                pargs.append(a)
                ppos.append(r2)
            kwargs, pnamed = {}, []
            for k, inp in named:
                if k in kwargs:
                    continue
                if inp[0] == 'single':
                    a, r2 = self.arg(inp[1])
                    kwargs[k] = a
                    pnamed.append([k, ['single', r2]])
                else:
                    items = [self.arg(r) for r in inp[1]]
                    form = inp[2] if len(inp) > 2 else ('tuple' if len(items) % 2 else 'list')
                    kwargs[k] = make_group(form, [a for a, _ in items])
                    self.forms.append(form)
                    pnamed.append([k, ['group', [r2 for _, r2 in items]]])
            line = (f'connect .{b} ' + ('+'.join(_ref_line(r) for r in ppos) or '-') + ' '
                    + ('+'.join(f'{k}={_inp_line(i)}' for k, i in pnamed) or '-'))
            try:
                if pargs:
                    self.forms.append('*' + posform)
                with warnings.catch_warnings():
                    warnings.simplefilter('ignore')         # iterators are deprecated, but legal
                    ret = blk.connect(*make_group(posform, pargs), **kwargs)
                self.emit(line, 'ok' if ret is blk else 'err NotSelf')
                self.specs[b] = (ppos, pnamed)
                self.steps.append(['connect', b, 'ok'])
            except Exception as err:
                self.emit(line, 'err ' + err_kind(err))
                self.steps.append(['connect', b, 'err'])
        elif kind == 'slot':
            _, skind, ref = op
            a, r2 = self.arg(ref)
            need = 'S' if skind in ('event', 'ifnotinit') else 'B'
            line = f'slot {need} {_ref_line(r2)}'
            try:
                if skind == 'event':
                    holder, attr = edzed.Event(a, 'put'), '_dest'
                elif skind == 'ifout':
                    holder, attr = edzed.IfOutput(a), '_ctrl_blk'
                elif skind == 'ifnotinit':
                    holder, attr = edzed.IfNotIitialized(a), '_ctrl_blk'
                else:
                    de = edzed.DataEdit.add_output('k', a)
                    cells = [cell.cell_contents for cell in de._editlist[-1].__closure__]
                    holder = next(x for x in cells if isinstance(x, types.SimpleNamespace))
                    attr = 'block'
                self.emit(line, f'ok {len(self.slots)}')
                self.slots.append((skind, holder, attr, r2))
                self.steps.append(['slot', skind, r2, 'ok'])
            except Exception as err:
                self.emit(line, 'err ' + err_kind(err))
                self.steps.append(['slot', skind, r2, 'err'])
        elif kind == 'finalize':
            was = c.is_finalized()
            try:
                c.finalize()
                self.emit('finalize', 'ok')
                self.steps.append(['finalize', 'ok', was])
            except Exception as err:
                self.emit('finalize', 'err ' + err_kind(err))
                self.steps.append(['finalize', 'err', was])
        elif kind == 'setpd':
            key = op[1]
            d = None if key is None else self.dicts.setdefault(key, {})
            try:
                c.set_persistent_data(d)
                self.emit(f'setpd {"n" if key is None else key}', 'ok')
                self.steps.append(['setpd', 'ok'])
            except Exception as err:
                self.emit(f'setpd {"n" if key is None else key}', 'err ' + err_kind(err))
                self.steps.append(['setpd', 'err'])
        elif kind == 'start':
            if self.started:
                return
            self.started = True
            was = c.is_finalized()
            res = self.start()
            self.emit('start', res)
            self.steps.append(['start', 'ok' if res == 'ok' else 'err', was])
        elif kind == 'chk':
            blk = self.blocks.get(op[1])
            cls = self.classes.get(op[1])
            if not isinstance(blk, edzed.CBlock) or cls is None or cls[0] not in ('not', 'ovr', 'sig'):
                return
            esig = ({'_': 1} if cls[0] == 'not' else {'input': None, 'override': None} if cls[0] == 'ovr'
                    else _py_esig(cls[1]))
            try:
                got = blk.check_signature(esig)
                reply = 'ok' if got == blk.input_signature() else 'err BadReturn'
            except edzed.EdzedInvalidState:
                reply = 'err InvalidState'
            except ValueError as err:
                reply = 'err ValueError ' + _parse_sig_message(str(err), list(esig))
            except Exception as err:
                reply = 'err ' + err_kind(err)
            self.emit(f'chk .{op[1]}', reply)
            self.steps.append(['chk', op[1], reply])
        elif kind == 'dump':
            self.dump()

    def start(self):
        c = self.circuit
        out = {}

        async def main(_loop):
            task = asyncio.create_task(c.run_forever())
            try:
                await c.wait_init()
                out['res'] = 'ok'
            except Exception:
                err = c.error
                init_done = getattr(c, '_init_done', None)
                if init_done is not None and init_done.is_set():
                    # all blocks were started and initialised; an error of the first evaluation
                    # (instability, UNDEF output of a self-loop) is not C15's business
                    out['res'] = 'ok'
                else:
                    out['res'] = 'err ' + err_kind(err)
            try:
                await c.shutdown()
            except BaseException:
                pass
            if not task.done():
                task.cancel()

        vtime.run(main)
        return out['res']


def run_impl(scn):
    run = _Run(scn)
    try:
        for op in scn['ops']:
            if run.started and op[0] != 'dump':
                continue
            run.op(op)
    finally:
        pass
    nconn = sum(1 for s in run.steps if s[0] == 'connect' and s[2] == 'ok')
    errs = sorted({t for t in run.trace if t.startswith('err ')})
    tags = [f'bad={scn.get("bad")}', f'blocks={len(list(run.circuit.getblocks()))}',
            f'finalized={run.circuit.is_finalized()}', f'slots={len(run.slots)}']
    tags += [f'reply={e}' for e in errs]
    ninv = sum(1 for b in run.circuit.getblocks() if b.name.startswith('_not_'))
    tags.append(f'inverters={ninv}')
    specs = {b: {'pos': p, 'named': n} for b, (p, n) in run.specs.items()}
    for st in run.steps:
        if st[0] == 'add' and st[2] == 'ok' and st[3] in ('not', 'ovr', 'sig', 'func'):
            tags += [f'shape={c}' for c in set(_shape_cases(st[3], st[4], specs.get(st[1])))]
    tags += [f'form={f}' for f in sorted(set(run.forms))]
    res = {'lines': run.lines, 'trace': run.trace, 'tags': tags, 'nontrivial': nconn > 0,
           'steps': run.steps, 'snaps': run.snaps, 'specs': specs,
           'created': {n: id(b) for n, b in run.blocks.items()}}
    edzed.reset_circuit()
    return res


# ---------------------------------------------------------------- independent oracle

MISMATCH = {'func_not_callable', 'unconnected', 'keys_differ', 'empty_group_for_single', 'group_for_single', 'single_for_group',
            'size_differs', 'below_minimum', 'above_maximum', 'malformed_expectation'}


def _shape_cases(cls, esig, spec):
    """documented rule of check_signature applied to what was connected: labels of the cases met;
    the block must refuse to start iff a label is in MISMATCH"""
    if cls == 'func':
        # the function must be callable with the inputs as FuncBlock passes them (docs/cblocks.rst)
        n, kw = 0, []
        for k, e in (_expected_norm(spec['pos'], spec['named']) if spec else []):
            if k == '_':
                n = len(e)
            else:
                kw.append(k)
        args = [0] * n if esig['unpack'] else [tuple([0] * n)]
        try:
            make_func(esig)(*args, **{k: 0 for k in kw})
            return ['func_callable']
        except TypeError:
            return ['func_not_callable']
    if cls == 'not':
        esig = [['_', 1]]
    elif cls == 'ovr':
        esig = [['input', None], ['override', None]]
    elif cls != 'sig':
        return []
    if spec is None:
        return ['unconnected']
    shape = {}
    for k, e in _expected_norm(spec['pos'], spec['named']):
        is_group = isinstance(e, list) and (e == [] or isinstance(e[0], list))
        shape[k] = len(e) if is_group else None
    if set(shape) != {k for k, _ in esig}:
        return ['keys_differ']
    out = []
    for k, want in esig:
        size = shape[k]
        if want is None:
            out.append('single_ok' if size is None else
                       'empty_group_for_single' if size == 0 else 'group_for_single')
        elif size is None:
            out.append('single_for_group')
        elif want == 'bad':
            out.append('malformed_expectation')
        elif isinstance(want, int):
            out.append('size_ok' if size == want else 'size_differs')
        else:
            lo, hi = want
            if lo is not None and size < lo:
                out.append('below_minimum')
            elif hi is not None and size > hi:
                out.append('above_maximum')
            elif size == lo:
                out.append('at_minimum')
            elif size == hi:
                out.append('at_maximum')
            else:
                out.append('inside_range')
    return out


def _expected_norm(pos, named):
    """connect() arguments -> expected structure {input name: ref | [refs]} per docs/blocks.rst"""
    out = []
    if pos:
        out.append(['_', list(pos)])
    for k, inp in named:
        if inp[0] == 'group':
            out.append([k, list(inp[1])])
        else:
            r = inp[1]
            if r[0] == 'v' and isinstance(r[1], dict) and ('t' in r[1] or 'l' in r[1]):
                seq = r[1].get('t', r[1].get('l'))
                out.append([k, [['n', x] if isinstance(x, str) else ['v', x] for x in seq]])
            else:
                out.append([k, r])
    return out


def _check_ref(given, got, byname, created, bname, iname):
    """is `got` (snapshot of the resolved object) the right object for the `given` reference?"""
    k, x = given
    where = f'{bname}.{iname}'
    if k in ('k', 'v'):
        v = pyval(x)
        if got[0] != 'const' or got[1] != enc(v) or got[2] != type(v).__name__:
            return f'{where}: constant {v!r} resolved to {got}'
        return None
    if got[0] != 'block' or not got[3]:
        return f'{where}: reference {given} resolved to {got}, not a block of the circuit'
    if k == 'o':
        if got[1] != created.get(x):
            return f'{where}: block object {x!r} replaced by another object {got}'
        return None
    if k == 'n':
        if got[2] != x or byname.get(x, {}).get('id') != got[1]:
            return f'{where}: name {x!r} resolved to {got}'
        return None
    return f'{where}: foreign block {x!r} accepted'


def oracle(scn, res):
    out = []
    steps, snaps, specs, created = res['steps'], res['snaps'], res['specs'], res['created']

    def bad(clause, what, **sig):
        out.append({'clause': clause, 'what': what, 'sig': sig})

    # ---- error / ok of every call as the documentation demands
    finalized = False
    dead = False
    nslots = 0
    late_slot = False      # an Event / filter created after the finalisation (may need a block that cannot be added)
    pre_slots = 0          # slots created before the successful finalisation
    names = set()
    connected = set()
    last_dump = None
    for st in steps:
        k = st[0]
        if k == 'add':
            name, r = st[1], st[2]
            must_fail = (finalized or dead or name in names or name == '' or name.startswith('_'))
            if must_fail and r == 'ok':
                bad('bad_refs_fail' if not finalized else 'frozen_after_finalize',
                    f'block {name!r} accepted (finalized={finalized}, duplicate={name in names})')
            if not must_fail and r != 'ok':
                bad('valid_construction_accepted', f'block {name!r} refused')
            if r == 'ok':
                names.add(name)
        elif k == 'connect':
            b, r = st[1], st[2]
            if (finalized or dead) and r == 'ok':
                bad('frozen_after_finalize', f'connect() of {b} accepted in a finalized circuit')
            if b in connected and r == 'ok':
                bad('bad_refs_fail', f'second connect() of {b} accepted')
            if r == 'ok':
                connected.add(b)
        elif k == 'setpd':
            if (finalized or dead) and st[1] == 'ok':
                bad('frozen_after_finalize', 'set_persistent_data() accepted in a finalized circuit')
            if not (finalized or dead) and st[1] != 'ok':
                bad('valid_construction_accepted', 'set_persistent_data() refused before finalisation')
        elif k == 'slot':
            if st[3] == 'ok':
                nslots += 1
                if not finalized:
                    pre_slots = nslots
                else:
                    late_slot = True
        elif k == 'finalize':
            if st[1] == 'ok':
                finalized = True
            elif st[2]:
                bad('frozen_after_finalize', 'finalize() of a finalized circuit raised')
        elif k == 'start':
            dead = True
            if st[1] == 'ok':
                finalized = True
            # wrongly shaped / missing inputs must make the start fail -- and nothing else may
            wrong = []
            for a in steps:
                if a[0] == 'add' and a[2] == 'ok' and a[1] in names:
                    cases = [c for c in _shape_cases(a[3], a[4], specs.get(a[1])) if c in MISMATCH]
                    if cases:
                        wrong.append((a[1], a[3], cases))
            if wrong and st[1] == 'ok':
                bad('bad_refs_fail', f'the simulation started although the inputs of {wrong[0][0]} '
                    f'({wrong[0][1]}) do not have the expected shape: {wrong[0][2]}', shape=wrong[0][2][0])
            snames = {a[1] for a in steps if a[0] == 'add' and a[2] == 'ok' and a[3] == 's'}

            def name_ok(n, need_s=False):
                if n in names:
                    return n in snames or not need_s
                if n == '_ctrl':
                    return True
                return (not need_s and n.startswith('_not_') and n[5:] in names and not n[5:].startswith('_'))

            refs_ok = True
            for sp in specs.values():
                for _k, e in _expected_norm(sp['pos'], sp['named']):
                    for r in (e if (isinstance(e, list) and (e == [] or isinstance(e[0], list))) else [e]):
                        if r[0] == 'n':
                            refs_ok = refs_ok and name_ok(r[1])
                        elif r[0] == 'x' or (r[0] == 'v' and r[1] == UNDEF_TAG):
                            refs_ok = False
            for a in steps:
                if a[0] == 'slot' and a[3] == 'ok' and a[2][0] == 'n':
                    refs_ok = refs_ok and name_ok(a[2][1], a[1] in ('event', 'ifnotinit'))
            if not wrong and st[1] != 'ok' and refs_ok and not late_slot and names:
                bad('valid_construction_accepted', 'the start failed although every reference is valid and '
                    'every input has the expected shape')
        elif k == 'dump':
            snap = snaps[st[1]]
            if snap['finalized'] != finalized and not dead:
                bad('frozen_after_finalize', f'is_finalized() is {snap["finalized"]}, expected {finalized}')
            if last_dump is not None and last_dump[1] and finalized and last_dump[0] != _strip(snap) and not dead:
                bad('frozen_after_finalize', 'connection data changed after finalisation')
            last_dump = (_strip(snap), finalized)
            if snap['finalized']:
                _check_snapshot(scn, snap, specs, created, bad, pre_slots)
            else:
                # nothing may claim a connection the inputs do not show (half-done finalize)
                _check_partial(snap, bad)
    return out


def _strip(snap):
    return {'blocks': snap['blocks'], 'pd': snap['pd']}


def _flat(inputs):
    for _k, v in inputs:
        if v and isinstance(v[0], list):
            yield from v
        elif v == []:
            continue
        else:
            yield v


def _check_partial(snap, bad):
    byid = {b['id']: b for b in snap['blocks']}
    for b in snap['blocks']:
        for a_id in b['ic']:
            a = byid.get(a_id)
            if a is None or b['id'] not in a['oc']:
                bad('wiring_biconditional', f"unfinalized: {b['name']}.iconnections has a block that does not list it")
        for x_id in b['oc']:
            x = byid.get(x_id)
            if x is None or b['id'] not in x['ic']:
                bad('wiring_biconditional', f"unfinalized: {b['name']}.oconnections has a block that does not list it")


def _refname(r):
    if r[0] == 'block':
        return r[2]
    if r[0] == 'const':
        return r[3]
    return None


def _is_group(v):
    return v == [] or (v and isinstance(v[0], list))


def _check_snapshot(scn, snap, specs, created, bad, pre_slots):
    blocks = snap['blocks']
    byid = {b['id']: b for b in blocks}
    byname = {b['name']: b for b in blocks}
    if len(byname) != len(blocks):
        bad('bad_refs_fail', 'two blocks with one name')
    # 1. the biconditional, on object identities
    for b in blocks:
        feeds = set()
        if b['inputs'] is not None:
            for r in _flat(b['inputs']):
                if r[0] == 'block':
                    feeds.add(r[1])
                elif r[0] != 'const':
                    bad('refs_resolved', f"{b['name']}: unresolved input {r} in a finalized circuit")
            if feeds != set(b['ic']):
                bad('wiring_biconditional',
                    f"{b['name']}: iconnections {sorted(byid[i]['name'] if i in byid else '?' for i in b['ic'])} "
                    f"but inputs are fed by {sorted(byid[i]['name'] if i in byid else '?' for i in feeds)}")
        elif b['ic']:
            bad('wiring_biconditional', f"{b['name']}: an SBlock with iconnections")
        if not b['oc_all_cblocks']:
            bad('wiring_biconditional', f"{b['name']}.oconnections holds a non-CBlock")
    for a in blocks:
        for b in blocks:
            in_oc = b['id'] in a['oc']
            in_ic = a['id'] in b['ic']
            if in_oc != in_ic:
                bad('wiring_biconditional',
                    f"{b['name']} in {a['name']}.oconnections: {in_oc}, {a['name']} in {b['name']}.iconnections: {in_ic}")
        for x in a['oc']:
            if x not in byid:
                bad('wiring_biconditional', f"{a['name']}.oconnections holds a block that is not in the circuit")
        for x in a['ic']:
            if x not in byid:
                bad('refs_resolved', f"{a['name']}.iconnections holds a block that is not in the circuit",
                    shape='foreign_block')
        for r in _flat(a['inputs'] or []):
            if r[0] == 'block' and not r[3]:
                bad('bad_refs_fail', f"{a['name']}.inputs holds the block {r[2]!r} of another circuit "
                    "in a finalized circuit", shape='foreign_block')
    if snap.get('foreign_touched'):
        bad('bad_refs_fail', f"oconnections of blocks of the OLD circuit were modified: {snap['foreign_touched']}",
            shape='foreign_block')
    # 2. every reference given to connect() is resolved to the right object, structure preserved
    inverted = set()
    for bname, spec in specs.items():
        b = byname.get(bname)
        if b is None or b['id'] != created.get(bname):
            bad('refs_resolved', f'block {bname} vanished')
            continue
        exp = _expected_norm(spec['pos'], spec['named'])
        got = b['inputs']
        if [k for k, _ in exp] != [k for k, _ in got]:
            bad('refs_resolved', f'{bname}: input names {[k for k, _ in got]}, connected {[k for k, _ in exp]}')
            continue
        for (k, e), (_, g) in zip(exp, got):
            e_group = isinstance(e, list) and (e == [] or isinstance(e[0], list))
            if e_group != _is_group(g) or (e_group and len(e) != len(g)):
                bad('refs_resolved', f'{bname}.{k}: shape changed: given {e}, stored {g}')
                continue
            for given, have in (zip(e, g) if e_group else [(e, g)]):
                msg = _check_ref(given, have, byname, created, bname, k)
                if msg:
                    bad('refs_resolved' if given[0] != 'x' else 'bad_refs_fail', msg)
                if given[0] == 'n' and given[1].startswith('_not_'):
                    inverted.add(given[1])
    for sl in snap['slots'][:pre_slots]:
        g = sl['given']
        if g[0] == 'n' and g[1].startswith('_not_') and sl['cur'][0] == 'block':
            inverted.add(g[1])
    # 3. one shared inverter per inverted source
    for b in blocks:
        if b['name'].startswith('_not_') and b['name'] not in inverted:
            bad('inverter_unique_shared', f"inverter {b['name']} exists but nothing asked for it")
    for iname in inverted:
        inv = byname.get(iname)
        src = byname.get(iname[5:])
        if inv is None or src is None or inv['kind'] != 'Cnot':
            bad('inverter_unique_shared', f'inverter {iname}: missing or not a Not block')
            continue
        if inv['inputs'] != [['_', [['block', src['id'], src['name'], True]]]]:
            bad('inverter_unique_shared', f"inverter {iname} is connected to {inv['inputs']}")
        if sum(1 for b in blocks if b['name'] == iname) != 1:
            bad('inverter_unique_shared', f'{iname}: more than one inverter')
    ninv = sum(1 for b in blocks if b['name'].startswith('_not_'))
    if ninv != len(inverted):
        bad('inverter_unique_shared', f'{ninv} inverters for {len(inverted)} inverted sources')
    # 4. get_conf() and input_signature() describe the same structure as `inputs`
    for b in blocks:
        if b['inputs'] is None or not b['inputs']:
            continue
        conf, sig = b['conf'], b['sig']
        if conf is None or sig is None:
            bad('conf_matches_signature', f"{b['name']}: get_conf()['inputs'] or input_signature() missing")
            continue
        if [k for k, _ in conf] != [k for k, _ in sig] or [k for k, _ in conf] != [k for k, _ in b['inputs']]:
            bad('conf_matches_signature', f"{b['name']}: input names differ: conf {conf}, signature {sig}")
            continue
        for (k, cv), (_, sv), (_, iv) in zip(conf, sig, b['inputs']):
            if isinstance(cv, list):
                ok = sv == len(cv) and _is_group(iv) and [_refname(r) for r in iv] == cv
            else:
                ok = sv is None and not _is_group(iv) and _refname(iv) == cv
            if not ok:
                bad('conf_matches_signature', f"{b['name']}.{k}: conf {cv}, signature {sv}, inputs {iv}")
    # 5. references held by events and filters
    for i, sl in enumerate(snap['slots'][:pre_slots]):
        g, cur = sl['given'], sl['cur']
        if cur[0] != 'block' or not cur[3]:
            bad('resolver_by_name', f'slot {i} ({sl["kind"]}, given {g}) holds {cur} in a finalized circuit')
            continue
        if g[0] == 'n' and (cur[2] != g[1] or byname.get(g[1], {}).get('id') != cur[1]):
            bad('resolver_by_name', f'slot {i}: name {g[1]!r} resolved to {cur}')
        if g[0] == 'o' and cur[1] != created.get(g[1]):
            bad('resolver_by_name', f'slot {i}: block object {g[1]!r} replaced by {cur}')
        if sl['kind'] in ('event', 'ifnotinit') and byid.get(cur[1], {}).get('kind') != 'S':
            bad('bad_refs_fail', f'slot {i}: destination {cur} is not an SBlock')
        if sl['dest_exc'] is not None:
            bad('resolver_by_name', f'slot {i}: Event.dest raises {sl["dest_exc"]} in a finalized circuit')
