"""C19 -- duration strings: correspondence with lean/EdzedModel/TimeUnits.lean + oracle."""
from fractions import Fraction
import math

from edzed.utils import convert, time_period, timestr, timestr_approx

from ..enc import enc
from ..runner import shrink_ops

ID = 'C19'
RULE = ("batches of calls of edzed.utils.convert / time_period / timestr / timestr_approx: (a) integers 0..10^7 "
        "sampled densely (every offset -70..70) around multiples of 60, 3600, 86400, 36000, 864000 and powers of "
        "ten, random ones up to 10^7 and up to 10^15; (b) floats made of a decimal with 0..6 digits (random "
        "magnitudes 1..10^8, and boundary +/- k*10^-j incl. the rounding ties 59.9995, 0.9995, 9.995, 35999.5, "
        "36030 ...), precisions 0..6, given to the model as the exact rational of the double; (c) every subset "
        "of units rendered in the traditional and the ISO 8601 format with random numbers (leading zeros, zero "
        "values), random case, inner/outer whitespace from the six ASCII whitespace characters, decimal "
        "point/comma in the smallest present unit, optional final 's', optional 0Y/0M and bare 'T'; (d) a "
        "grammar-based malformed stream: a valid rendering mutated by one of 25 rules (blank, non-zero "
        "years/months, fraction in a larger unit, repeated / swapped / misordered units, stray and look-alike "
        "characters, lower-case or spaced ISO, time units without T, broken fractions, signs, exponents); "
        "(e) time_period over None, bool, int, float, str and non-duration types. A case is distinct by its "
        "(input lines, trace) hash; all but the blank strings are non-trivial")
ASSUMPTIONS = [
    "float arguments reach the model as the exact rational of the double; Python's round(x, n), round(x) and "
    "'%.nf' are correctly rounded (round-half-even on the exact binary value), so decimal rounding ties need no "
    "exclusion; magnitudes stay below 10^9 (timestr, prec <= 6) so that half an ulp is far below half a unit "
    "of the last printed place",
    "timestr_approx computes int(x / unit + 0.5) in floating point: the generated decimals have at most 6 "
    "digits, hence are exactly on a half-unit tie (where the float arithmetic is exact) or at least 1e-6 away "
    "from it; integers stay below 10^15",
    "convert() of a string with a decimal fraction returns a double: the compared value is that double snapped "
    "to the decimal grid 10^-k of the input's longest fraction (k <= 6, value < 10^8) when it lies within 4 ulp "
    "of a grid point, otherwise its exact rational; strings without fraction are compared exactly "
    "(at most 15 digits per number); a mutated string whose fraction is finer than 64 ulp of its value, or whose "
    "integer value reaches 2^53, is checked by the oracle only",
    "the reason of a ValueError is classified by key words of its message (fraction / calendar / at least one / "
    "other = syntax); the wording itself is not compared",
]
EXHAUSTIVE = {'quick': False, 'thorough': False}

WS = ' \t\n\r\x0b\x0c'
D, H, M = 86400, 3600, 60      # the documented unit arithmetic (docs/utils.rst), NOT imported from the code
BATCH = 10


# ------------------------------------------------------------------ generators

def _ws(rng, maxlen=2):
    if rng.random() < 0.55:
        return ''
    return ''.join(rng.choice(WS) for _ in range(rng.randint(1, maxlen)))


def _intnum(rng, cap=None):
    r = rng.random()
    if r < 0.15:
        n = 0
    elif r < 0.6:
        n = rng.randint(0, 99)
    elif r < 0.9:
        n = rng.randint(0, 100000)
    else:
        n = rng.randint(0, 10 ** rng.randint(6, 9))
    if cap is not None:
        n %= cap + 1
    s = str(n)
    if rng.random() < 0.15:
        s = '0' * rng.randint(1, 3) + s
    return n, s


def _fracdigits(rng):
    k = rng.randint(1, 6)
    if rng.random() < 0.3:
        return rng.choice(['5', '25', '75', '125', '50', '0', '000', '500000'])
    return ''.join(rng.choice('0123456789') for _ in range(k))


def render(rng, iso, units=None, frac=None):
    """a valid duration string; returns (text, expected value as Fraction, pieces)"""
    if units is None:
        units = [u for u in 'dhms' if rng.random() < 0.5]
        if not units:
            units = [rng.choice('dhms')]
    if frac is None:
        frac = rng.random() < 0.4
    scale = {'d': D, 'h': H, 'm': M, 's': 1}
    pieces, total = [], Fraction(0)
    caps = {'d': 999, 'h': 2000, 'm': 100000, 's': 100000} if frac else {}     # keeps a fractional total < 10^8
    for i, u in enumerate(units):
        n, txt = _intnum(rng, caps.get(u))
        val = Fraction(n)
        if frac and i == len(units) - 1:
            fd = _fracdigits(rng)
            txt += rng.choice('.,') + fd
            val += Fraction(int(fd), 10 ** len(fd))
        total += val * scale[u]
        pieces.append([txt, u])
    if iso:
        out = _ws(rng) + 'P'
        if rng.random() < 0.15:
            out += rng.choice(['0', '00', '0.0' if not units else '0']) + 'Y'
        if rng.random() < 0.15:
            out += rng.choice(['0', '000']) + 'M'
        date = ''.join(t + 'D' for t, u in pieces if u == 'd')
        time = ''.join(t + u.upper() for t, u in pieces if u != 'd')
        out += date
        if time or rng.random() < 0.1:
            out += 'T' + time
        out += _ws(rng)
        if out.strip(WS) in ('P', 'PT'):
            out = out.replace('P', 'P0D', 1)
        return out, total, pieces
    out = _ws(rng)
    for i, (t, u) in enumerate(pieces):
        letter = u.upper() if rng.random() < 0.4 else u
        if u == 's' and rng.random() < 0.4:
            letter = ''
        out += t + _ws(rng) + letter + _ws(rng)
    return out, total, pieces


STRAY = ['x', 'e', 'E', '-', '+', '_', ':', '/', ';', 'T', 'P', 'W', 'y', 'w', 'ſ', 'K', '１',
         '١', '\xa0', '\x1c', '\x85', ' ', '0x1', '.', ',', 'ms', 'sec', 'min', '\x00']


def malformed(rng):
    """(text, rule name): one mutation of a valid rendering; most results are invalid, the oracle decides"""
    rule = rng.randrange(25)
    iso = rng.random() < 0.5
    if rule == 0:
        return rng.choice(['', ' ', '\t', '  \n', '\x0b\x0c', 'P', 'PT', ' P ', ' PT\n', 'T']), 'blank'
    if rule == 1:
        n = rng.randint(1, 30)
        body = rng.choice(['', '1D', 'T1H', '2DT3S'])
        return f'P{n}{rng.choice("YM")}{body}', 'calendar-nonzero'
    if rule == 2:
        body = rng.choice(['', '1D', 'T1H'])
        return f'P0Y{rng.randint(1, 9)}M{body}', 'calendar-nonzero'
    if rule == 3:       # fraction in a larger unit
        units = sorted(rng.sample('dhms', rng.randint(2, 4)), key='dhms'.index)
        i = rng.randrange(len(units) - 1)
        parts = []
        for j, u in enumerate(units):
            txt = str(rng.randint(0, 99))
            if j == i or (j == len(units) - 1 and rng.random() < 0.3):
                txt += rng.choice('.,') + _fracdigits(rng)
            parts.append((txt, u))
        if iso:
            return ('P' + ''.join(t + 'D' for t, u in parts if u == 'd') + 'T'
                    + ''.join(t + u.upper() for t, u in parts if u != 'd')), 'fraction-larger-unit'
        return ''.join(t + _ws(rng) + u + _ws(rng) for t, u in parts), 'fraction-larger-unit'
    if rule == 4:       # fraction in two units
        units = sorted(rng.sample('dhms', rng.randint(2, 4)), key='dhms'.index)
        parts = [f'{rng.randint(0, 50)}.{rng.randint(0, 9)}{u}' for u in units]
        return ('PT' + ''.join(p.upper() for p in parts if p[-1] != 'd')) if iso else ''.join(parts), 'fraction-twice'
    if rule == 5:       # repeated unit
        u = rng.choice('dhms')
        a, b = rng.randint(0, 99), rng.randint(0, 99)
        if iso:
            return ('P' if u == 'd' else 'PT') + f'{a}{u.upper()}{b}{u.upper()}', 'repeated-unit'
        return f'{a}{u}{_ws(rng)}{b}{u}', 'repeated-unit'
    if rule == 6:       # misordered units
        units = rng.sample('dhms', rng.randint(2, 4))
        if units == sorted(units, key='dhms'.index):
            units.reverse()
        parts = [f'{rng.randint(0, 99)}{u}' for u in units]
        if iso:
            return 'PT' + ''.join(p.upper() for p in parts), 'misordered'
        return _ws(rng).join(parts), 'misordered'
    if rule == 7:       # stray character inserted
        text, _, _ = render(rng, iso)
        i = rng.randint(0, len(text))
        return text[:i] + rng.choice(STRAY) + text[i:], 'stray-char'
    if rule == 8:       # character replaced by a look-alike / other
        text, _, _ = render(rng, iso)
        i = rng.randrange(len(text))
        return text[:i] + rng.choice(STRAY) + text[i + 1:], 'replaced-char'
    if rule == 9:       # ISO in lower case / mixed
        text, _, _ = render(rng, True)
        return rng.choice([text.lower(), text.replace('P', 'p'), text.replace('T', 't') if 'T' in text else text.lower()]), 'iso-lowercase'
    if rule == 10:      # ISO with inner whitespace
        text, _, _ = render(rng, True)
        core = text.strip(WS)
        if len(core) < 2:
            return 'P 1D', 'iso-inner-ws'
        i = rng.randint(1, len(core) - 1)
        return core[:i] + rng.choice(WS) + core[i:], 'iso-inner-ws'
    if rule == 11:      # ISO time units without T / date unit after T
        return rng.choice([f'P{rng.randint(0, 9)}H', f'P{rng.randint(1, 9)}S', f'P1D{rng.randint(0, 9)}H',
                           f'PT{rng.randint(0, 9)}D', f'PT1H{rng.randint(0, 9)}D', 'PT1HT2M', 'PP1D', 'P1DTT1H']), 'iso-T-misuse'
    if rule == 12:      # broken fractions
        n = rng.randint(0, 99)
        u = rng.choice(['', 's', 'm', 'h', 'd'])
        body = rng.choice([f'{n}.', f'.{n}', f'{n}..5', f'{n}.,5', f'{n}.5.5', f'{n},5,5', f'{n}. 5', f'{n} .5', '.', ','])
        return ('PT' + body + 'S') if iso else body + u, 'broken-fraction'
    if rule == 13:      # signs
        text, _, _ = render(rng, iso)
        core = text.strip(WS)
        return rng.choice(['-', '+']) + core, 'sign'
    if rule == 14:      # exponent, underscore, hex, inf, nan
        return rng.choice(['1e3', '1E3s', '1_0', '1_000s', '0x10', 'inf', 'nan', 'Infinity', '1e3m', 'PT1E3S', 'PT1_0S']), 'float-syntax'
    if rule == 15:      # unit without a number
        return rng.choice(['d', 'h', 'm', 's', '1d h', 'h1m', 'PD', 'PTS', 'P1DTH', 'dhms', ' s ']), 'unit-without-number'
    if rule == 16:      # number without unit in a non-final place
        a, b = rng.randint(0, 99), rng.randint(0, 99)
        return rng.choice([f'{a} {b}', f'{a} {b}s', f'{a}d {b} 3s', f'{a}s{b}', f'{a}s {b}', f'PT{a}', f'P{a}', f'P{a}D{b}', f'P1DT{a}H{b}']), 'number-without-unit'
    if rule == 17:      # both formats mixed
        return rng.choice(['P1d', '1dT2h', 'P1DT2h', '1D2H3M4S P', 'P1D 2h', '1d P1D', 'T1H', '1DT1H']), 'mixed-format'
    if rule == 18:      # ISO weeks / other designators (not supported)
        return rng.choice(['P1W', 'P0W', 'P1DT1W', 'PT1.5W', 'P1Y2M3W']), 'iso-weeks'
    if rule == 19:      # duplicated string / two durations
        text, _, _ = render(rng, iso)
        return text + rng.choice(['', ' ', ',']) + text, 'doubled'
    if rule == 20:      # whitespace inside a number
        a, b = rng.randint(1, 99), rng.randint(0, 99)
        return rng.choice([f'{a} {b}d', f'{a}. {b}s', f'{a} .{b}s', f'{a} ,{b}', f'{a}\t{b}']), 'ws-inside-number'
    if rule == 21:      # fraction in the smallest unit but a smaller zero unit follows
        return rng.choice(['1.5h0m', '1,5d0s', '2.5m0', 'PT1.5H0M', 'P1.5DT0S', 'P0.5DT0H']), 'fraction-before-zero-unit'
    if rule == 22:      # zero years with fraction / zero fraction (accepted by the code: value 0)
        return rng.choice(['P0.0Y', 'P0,00M', 'P0Y0M', 'P0.0YT1S', 'P0.5Y', 'P0Y0.5M', 'P0M0.0D']), 'calendar-zero-forms'
    if rule == 24:      # non-ASCII look-alikes (what the patterns would accept without re.ASCII)
        text, _, _ = render(rng, iso)
        kind = rng.randrange(4)
        zeros = rng.choice(['\uff10', '\u0660', '\u0966', '\u06f0'])      # fullwidth, Arabic-Indic, Devanagari, ext. Arabic
        if kind == 0:       # one digit replaced by a non-ASCII decimal digit
            pos = [i for i, c in enumerate(text) if c in '0123456789']
            i = rng.choice(pos)
            return text[:i] + chr(ord(zeros) + int(text[i])) + text[i + 1:], 'non-ascii-digit'
        if kind == 1:       # all digits
            return ''.join(chr(ord(zeros) + int(c)) if c in '0123456789' else c for c in text), 'non-ascii-digit'
        if kind == 2:       # the long s for the seconds' unit
            n = rng.randint(0, 99)
            return rng.choice([f'{n}\u017f', f'1m{n}\u017f', f'{n} \u017f ', f'2h {n}.5\u017f']), 'non-ascii-unit'
        sp = rng.choice(['\xa0', '\u2003', '\x1c', '\x85', '\u3000'])      # white space outside ASCII
        core = text.strip(WS)
        return rng.choice([sp + core, core + sp, core.replace('d', sp + 'd', 1) if not iso else sp + core]), 'non-ascii-space'
    # long digit strings / long whitespace (still valid or invalid by one char)
    text, _, _ = render(rng, iso)
    return text + rng.choice(['\n', '\n\n', '\x00', ' .', ' 0']), 'trailing'


def _boundaries():
    out = {0, 1, 2, 9, 10, 11, 59, 60, 61, 99, 100, 119, 120, 599, 600, 3599, 3600, 3601, 7200, 35999, 36000, 36001,
           36029, 36030, 36031, 86399, 86400, 86401, 172800, 863969, 863970, 863971, 863999, 864000, 864001,
           865799, 865800, 865801, 10 ** 6, 10 ** 7}
    return sorted(out)


def _int_ops(rng, n_dense, n_rand):
    """integer arguments: dense around unit boundaries, random, large"""
    vals = []
    bases = _boundaries()
    for _ in range(n_dense):
        r = rng.random()
        if r < 0.4:
            b = rng.choice(bases)
        elif r < 0.6:
            b = M * rng.randint(0, 10 ** 7 // M)
        elif r < 0.8:
            b = H * rng.randint(0, 10 ** 7 // H)
        else:
            b = D * rng.randint(0, 10 ** 7 // D + 20)
        vals.append(max(0, b + rng.randint(-70, 70)))
    for _ in range(n_rand):
        r = rng.random()
        if r < 0.7:
            vals.append(rng.randint(0, 10 ** 7))
        elif r < 0.95:
            vals.append(rng.randint(0, 10 ** rng.randint(8, 15)))
        else:
            vals.append(-rng.randint(1, 10 ** 6))
    return vals


def _float_vals(rng, n):
    vals = []
    bases = [0, 1, 10, 60, 600, 3600, 36000, 36030, 86400, 863970, 864000, 865800, 59, 9, 119, 3599, 35999, 86399,
             863999]
    for _ in range(n):
        r = rng.random()
        d = rng.randint(0, 6)
        if r < 0.45:
            x = round(rng.uniform(0, 10 ** rng.choice([0, 1, 2, 3, 4, 5, 6, 7, 8])), d)
        elif r < 0.85:
            b = rng.choice(bases) if rng.random() < 0.7 else rng.choice([M, H, D]) * rng.randint(0, 2000)
            j = rng.randint(0, 6)
            k = rng.choice([0, 1, 2, 3, 4, 5, 6, 9, 49, 50, 51, 95, 99, 499, 500, 501, 995, 996, 4999, 5000, 5001,
                            9995, 9996, 49999, 50000, 50001, 499999, 500000, 500001, 999999])
            x = float(Fraction(b) + rng.choice([-1, 1]) * Fraction(k, 10 ** j))
            if rng.random() < 0.3:
                x += rng.randint(0, 59)
        elif r < 0.95:
            x = rng.randint(0, 10 ** 6) / rng.choice([2, 4, 8, 16])       # dyadic: exact ties
        else:
            x = -round(rng.uniform(0, 100), d)
        if x == 0.0:
            x = 0.0     # no negative zero (time_period(-0.0) is +0.0 anyway, but keep the encoding canonical)
        vals.append(x)
    return vals


def _sep(rng):
    r = rng.random()
    return '' if r < 0.6 else ' ' if r < 0.8 else rng.choice(['\t', '  ', ' \n', '\x0b'])


def scenarios(rng, tier):
    big = tier != 'quick'
    scale = 45 if big else 4
    ops = []
    # fixed seeds: the literal examples of the documentation and the property text
    fixed = ['2m', '20h15m10', '2d 12h', '1.25h', '1d2h3m4.5s', 'P1DT2H3M4.5S', '72H', '', 'P1Y', 'PT1M', 'P1M',
             '1.5h30m', 'P0Y0M1DT0H', '5', ' 5 S ']
    yield {'ops': [['convert', s] for s in fixed]}
    yield {'ops': [['timestr', x, 3, ''] for x in (59.9996, 86399.9995, 3599.9995, 0.9996, 59.9995, 119.9999, 0.0005,
                                                     0.0015, 2.5, 86400.0, 86399.9994)]}
    yield {'ops': [['approx', x, ''] for x in (0.9996, 9.996, 59.96, 59.95, 35999.6, 35999.4, 35999.5, 863999, 863970,
                                                863969, 35999, 36029, 36030, 36031, 9.995, 0.9995, 0.0005, 0.0015,
                                                864000, 865800, 865799, 10 ** 9, 36030.0, 863970.0, 865800.0)]}
    yield {'ops': [['period', v] for v in (None, -5, 0, 7, True, False, -0.5, 2.25, '2m', '', 'P1Y', [1], [])]}
    # (a) integers
    for n in _int_ops(rng, 4000 * scale, 2500 * scale):
        ops.append(['timestr', n, 3, _sep(rng)])
        ops.append(['approx', n, _sep(rng)])
        if rng.random() < 0.15:
            ops.append(['period', n])
    # dense windows: every integer in +-70 of a few boundaries
    for b in (_boundaries() if big else rng.sample(_boundaries(), 10)):
        for n in range(max(0, b - 70), b + 71):
            ops.append(['timestr', n, 3, ''])
            ops.append(['approx', n, ''])
    # (b) floats
    for x in _float_vals(rng, 9000 * scale):
        if abs(x) < 10 ** 9:
            ops.append(['timestr', x, rng.choice([0, 1, 2, 3, 3, 3, 4, 5, 6]), _sep(rng)])
        ops.append(['approx', x, _sep(rng)])
        if rng.random() < 0.1:
            ops.append(['period', x])
    # (c) all unit subsets in both formats
    subsets = [[u for i, u in enumerate('dhms') if mask >> i & 1] for mask in range(1, 16)]
    for _ in range(170 * scale):
        for units in subsets:
            for iso in (False, True):
                text, total, _ = render(rng, iso, units)
                op = ['convert', text, f'{total.numerator}/{total.denominator}', 'render']
                ops.append(op if rng.random() < 0.9 else ['period', text])
    # (d) malformed stream
    for _ in range(6000 * scale):
        text, rule = malformed(rng)
        ops.append(['convert', text, None, rule] if rng.random() < 0.93 else ['period', text])
    # (e) time_period over the types
    for _ in range(300 * scale):
        r = rng.random()
        if r < 0.15:
            v = None
        elif r < 0.3:
            v = rng.choice([True, False])
        elif r < 0.5:
            v = rng.randint(-10 ** 6, 10 ** 6)
        elif r < 0.7:
            v = rng.choice([-1, 1]) * round(rng.uniform(0, 10 ** rng.randint(0, 6)), rng.randint(0, 6))
        elif r < 0.85:
            v = [rng.randint(0, 5)] if rng.random() < 0.5 else []
        else:
            v = render(rng, rng.random() < 0.5)[0]
        ops.append(['period', v])
    rng.shuffle(ops)
    for i in range(0, len(ops), BATCH):
        yield {'ops': ops[i:i + BATCH]}


def shrink(scn):
    yield from shrink_ops(scn)


# ------------------------------------------------------------------ implementation runner

def _reason(err):
    msg = str(err)
    if 'fraction' in msg:
        return 'fraction'
    if 'calendar' in msg or 'year' in msg or 'month' in msg:
        return 'calendar'
    if 'at least one' in msg or 'must be present' in msg:
        return 'empty'
    return 'syntax'


def _fracdepth(text):
    """longest run of digits after a decimal mark"""
    k, i, n = 0, 0, len(text)
    while i < n:
        if text[i] in '.,':
            j = i + 1
            while j < n and text[j] in '0123456789':
                j += 1
            k = max(k, j - i - 1)
            i = j
        else:
            i += 1
    return k


def _snap(x, k):
    """the double x as an exact rational, snapped to the grid 10^-k when within 4 ulp of it"""
    f = Fraction(x)
    if k == 0:
        return f
    g = Fraction(round(f * 10 ** k), 10 ** k)
    if abs(f - g) <= 4 * Fraction(math.ulp(x)) and Fraction(1, 10 ** k) > 64 * Fraction(math.ulp(x)):
        return g
    return f


def _is_num(x):
    return isinstance(x, (int, float)) and not isinstance(x, bool) and x == x and abs(x) != float('inf')


def _num_reply(x, k=0):
    if not _is_num(x):
        # a changed implementation may return anything (None for '', inf, a string): an outcome the model never
        # gives - the lines differ, the oracle judges (FRAMEWORK.md: total on whatever the code under test returns)
        return 'ok n' if x is None else f'ok other:{type(x).__name__}'
    f = _snap(x, k)
    return f'ok f{f.numerator}/{f.denominator}'


def _comparable(x, k):
    """can the double x be compared exactly with a decimal of k places? (grid well above the float resolution)"""
    if k == 0:
        return abs(x) < 2 ** 53        # integers are exact below 2^53
    return Fraction(1, 10 ** k) > 64 * Fraction(math.ulp(x))


def _uncomparable(r, k):
    """a numeric result the exact-rational model cannot be compared with (too fine for a double, inf, nan);
    anything that is not a number IS compared: the lines will differ and the oracle judges"""
    if not isinstance(r, (int, float)) or isinstance(r, bool):
        return False
    return not _is_num(r) or not _comparable(r, k)


def _call(fn, *args):
    try:
        return 'ret', fn(*args)
    except Exception as err:    # pylint: disable=broad-except
        return 'err', err


def _secs_arg(v):
    return enc(v)


def run_impl(scn):
    lines, trace, obs, tags = [], [], [], []
    nontrivial = False
    for op in scn['ops']:
        kind = op[0]
        if kind == 'convert':
            text = op[1]
            k, r = _call(convert, text)
            if k == 'ret' and _uncomparable(r, _fracdepth(text)):
                # (only mutated strings get here) finer than the double can resolve: oracle only
                obs.append(('ret', r, type(r).__name__))
                tags.append('convert:ok:not-compared')
                continue
            lines.append('timeunits convert ' + enc(text))
            if k == 'ret':
                trace.append(_num_reply(r, _fracdepth(text)))
                obs.append(('ret', r, type(r).__name__))
                tags.append('convert:ok' + (':' + op[3] if len(op) > 3 and op[3] else ''))
            else:
                name = type(r).__name__
                trace.append(f'err {name}' + (' ' + _reason(r) if isinstance(r, ValueError) else ''))
                obs.append(('err', name, _reason(r)))
                tags.append(f'convert:{_reason(r)}' + (':' + op[3] if len(op) > 3 and op[3] else ''))
            nontrivial = nontrivial or text.strip(WS) != ''
        elif kind == 'period':
            v = op[1]
            k, r = _call(time_period, v)
            if k == 'ret' and isinstance(v, str) and _uncomparable(r, _fracdepth(v)):
                obs.append(('ret', r, type(r).__name__))
                tags.append('period:str:not-compared')
                continue
            lines.append('timeunits period ' + enc(v))
            if k == 'ret':
                trace.append('ok n' if r is None else _num_reply(r, _fracdepth(v) if isinstance(v, str) else 0))
                obs.append(('ret', r, type(r).__name__))
            else:
                name = type(r).__name__
                trace.append(f'err {name}' + (' ' + _reason(r) if isinstance(r, ValueError) else ''))
                obs.append(('err', name, _reason(r)))
            tags.append('period:' + ('None' if v is None else type(v).__name__))
            nontrivial = True
        elif kind in ('timestr', 'approx'):
            if kind == 'timestr':
                _, x, prec, sep = op
                k, r = _call(timestr, x, sep, prec)
                lines.append(f'timeunits timestr {_secs_arg(x)} {prec} {enc(sep)}')
            else:
                _, x, sep = op
                k, r = _call(timestr_approx, x, sep)
                lines.append(f'timeunits approx {_secs_arg(x)} {enc(sep)}')
            if k == 'ret':
                trace.append('ok ' + enc(r))
                bk, back = _call(convert, r)        # the implementation's own way back
                obs.append(('ret', r, (bk, back if bk == 'ret' else type(back).__name__)))
            else:
                trace.append('err ' + type(r).__name__)
                obs.append(('err', type(r).__name__, None))
            tags.append(f'{kind}:{"float" if isinstance(x, float) else "int"}:{_magnitude(x)}')
            nontrivial = True
        else:
            raise ValueError(f'unknown op {op!r}')
    return {'lines': lines, 'trace': trace, 'obs': obs, 'tags': sorted(set(tags)), 'nontrivial': nontrivial}


def _magnitude(x):
    if x < 0:
        return 'neg'
    for lim, name in ((1, '<1s'), (10, '<10s'), (60, '<1m'), (36000, '<10h'), (864000, '<10d')):
        if x < lim:
            return name
    return '>=10d'


# ------------------------------------------------------------------ independent oracle

class Bad(Exception):
    pass


def _scan_number(t, i):
    """number at t[i:]: digits, optionally one decimal mark followed by digits -> (Fraction, has_fraction, next)"""
    j = i
    while j < len(t) and t[j] in '0123456789':
        j += 1
    if j == i:
        raise Bad('number expected')
    val, hasfrac = Fraction(int(t[i:j])), False
    if j + 1 < len(t) and t[j] in '.,' and t[j + 1] in '0123456789':
        k = j + 1
        while k < len(t) and t[k] in '0123456789':
            k += 1
        val += Fraction(int(t[j + 1:k]), 10 ** (k - j - 1))
        hasfrac, j = True, k
    return val, hasfrac, j


def _combine(parts):
    """parts: [(unit scale or None for years/months, value, has_fraction)] from the largest to the smallest"""
    if not parts:
        raise Bad('at least one part')
    for _sc, _v, hasfrac in parts[:-1]:
        if hasfrac:
            raise Bad('fraction in a larger unit')
    total = Fraction(0)
    for sc, v, _f in parts:
        if sc is None:
            if v != 0:
                raise Bad('calendar unit')
        else:
            total += v * sc
    return total


def ref_convert(text):
    """reference reading of docs/utils.rst 'Time durations with units'; Fraction or raises Bad"""
    t = text.strip(WS)
    if any(ord(c) > 127 for c in t):
        raise Bad('non-ASCII')
    if t.startswith('P'):
        date_units = [('Y', None), ('M', None), ('D', D)]
        time_units = [('H', H), ('M', M), ('S', 1)]
        i, allowed, parts, in_time = 1, date_units, [], False
        while i < len(t):
            if t[i] == 'T':
                if in_time:
                    raise Bad('second T')
                in_time, i, allowed = True, i + 1, time_units
                continue
            val, hasfrac, i = _scan_number(t, i)
            if i >= len(t):
                raise Bad('unit expected')
            letter = t[i]
            i += 1
            names = [n for n, _sc in allowed]
            if letter not in names:
                raise Bad('unit not allowed here')
            k = names.index(letter)
            parts.append((allowed[k][1], val, hasfrac))
            allowed = allowed[k + 1:]
        return _combine(parts)
    scale = {'d': D, 'h': H, 'm': M, 's': 1}
    rank = {'d': 0, 'h': 1, 'm': 2, 's': 3}
    i, minrank, parts = 0, 0, []
    while True:
        while i < len(t) and t[i] in WS:
            i += 1
        if i >= len(t):
            break
        val, hasfrac, i = _scan_number(t, i)
        while i < len(t) and t[i] in WS:
            i += 1
        if i < len(t) and t[i].lower() in rank and t[i] in 'dhmsDHMS':
            u = t[i].lower()
            i += 1
        elif i >= len(t):
            u = 's'                 # the seconds' unit may be left out at the end
        else:
            raise Bad('unit expected')
        if rank[u] < minrank:
            raise Bad('unit order')
        minrank = rank[u] + 1
        parts.append((scale[u], val, hasfrac))
    return _combine(parts)


def _ref(text):
    try:
        return ref_convert(text)
    except Bad as err:
        return err


def _close(x, want, slack=Fraction(0)):
    """double x equals the exact value `want` up to float noise"""
    return abs(Fraction(x) - want) <= slack + Fraction(1, 2 ** 48) * max(1, abs(want))


def _step(x):
    for lim, st in ((1, Fraction(1, 1000)), (10, Fraction(1, 100)), (60, Fraction(1, 10)), (10 * H, Fraction(1)),
                    (10 * D, Fraction(60))):
        if x < lim:
            return st
    return Fraction(3600)


def _normalized(text, sep, prec, approx):
    """d/h/m/s parts in this order, h < 24, m < 60, s < 60, minutes and seconds present (timestr)"""
    parts = text.split(sep) if sep else None
    if parts is None:
        parts, cur = [], ''
        for c in text:
            cur += c
            if c in 'dhms':
                parts.append(cur)
                cur = ''
        if cur:
            return 'trailing text'
    units = ''.join(p[-1:] for p in parts)
    if units not in (['dhms', 'hms', 'ms'] if not approx else ['dhms', 'hms', 'ms', 's', 'dhm', 'hm', 'dh']):
        return f'unit sequence {units!r}'
    for p in parts:
        try:
            v = Fraction(p[:-1])
        except ValueError:
            return f'number {p!r}'
        u = p[-1]
        if (u == 'h' and v >= 24) or (u in 'ms' and v >= 60):
            return f'{p} not normalised'
        if u != 's' and '.' in p:
            return f'fraction in {p}'
        if u == 's' and prec is not None:
            digits = len(p[:-1].split('.')[1]) if '.' in p else 0
            if digits != prec:
                return f'{p}: {digits} decimal places, wanted {prec}'
    if parts and parts[0][:-1] in ('0', '0.0') and parts[0][-1] in 'dh':
        return 'leading zero part'
    return None


def oracle(scn, res):
    out = []

    def bad(clause, what, **sig):
        out.append({'clause': clause, 'what': what, 'sig': sig})

    for op, ob in zip(scn['ops'], res['obs']):
        kind = op[0]
        if kind == 'convert' or (kind == 'period' and isinstance(op[1], str)):
            text = op[1]
            want = _ref(text)
            if kind == 'convert' and len(op) > 2 and op[2] is not None and want != Fraction(op[2]):
                bad('oracle_self_check', f'{text!r}: reference {want!r} differs from the construction {op[2]}')
                continue
            if isinstance(want, Bad):
                if ob[0] == 'ret':
                    bad('malformed_rejected', f'{kind}({text!r}) returned {ob[1]!r}; the documentation excludes it ({want})')
                elif ob[1] != 'ValueError':
                    bad('malformed_rejected', f'{kind}({text!r}) raised {ob[1]} instead of ValueError')
            elif ob[0] != 'ret':
                bad('unit_arithmetic', f'{kind}({text!r}) raised {ob[1]} ({ob[2]}); documented value {want}')
            elif ob[2] != 'float' or not _close(ob[1], want):
                bad('unit_arithmetic', f'{kind}({text!r}) = {ob[1]!r}; documented value {want} = {float(want)!r}')
        elif kind == 'period':
            v = op[1]
            if v is None:
                if ob[0] != 'ret' or ob[1] is not None:
                    bad('none_to_none', f'time_period(None) -> {ob[:2]}')
            elif isinstance(v, (int, float)):
                want = Fraction(v) if v > 0 else Fraction(0)
                if ob[0] != 'ret' or ob[2] != 'float' or Fraction(ob[1]) != want:
                    bad('negative_to_zero' if v < 0 else 'number_passes', f'time_period({v!r}) -> {ob[:2]}, wanted {float(want)!r}')
            elif ob[0] != 'err' or ob[1] != 'TypeError':
                bad('period_type_error', f'time_period({v!r}) -> {ob[:2]}, wanted TypeError')
        else:
            x = op[1]
            sep = op[3] if kind == 'timestr' else op[2]
            prec = op[2] if kind == 'timestr' else None
            if x < 0:
                if ob[0] != 'err' or ob[1] != 'ValueError':
                    bad('negative_refused', f'{kind}({x!r}) -> {ob[:2]}, wanted ValueError')
                continue
            if ob[0] != 'ret':
                bad(kind + '_defined', f'{kind}({x!r}) raised {ob[1]}')
                continue
            text, (bk, back) = ob[1], ob[2]
            want = _ref(text)
            isfloat = isinstance(x, float)
            if isinstance(want, Bad) or bk != 'ret':
                bad(kind + '_inverse', f'{kind}({x!r}, sep={sep!r}) = {text!r} is not a duration: reference {want!r}, convert -> {back!r}')
                continue
            if not _close(back, want):
                bad('unit_arithmetic', f'convert({text!r}) = {back!r}, documented value {want}')
                continue
            xq = Fraction(x)
            if kind == 'timestr':
                if not isfloat:
                    if want != xq or Fraction(back) != xq:
                        bad('timestr_inverse_int', f'timestr({x}) = {text!r} converts back to {back!r}')
                else:
                    if abs(want - xq) > Fraction(1, 2 * 10 ** prec):
                        bad('timestr_inverse_frac', f'timestr({x!r}, prec={prec}) = {text!r} = {want} is off by '
                                                    f'{float(abs(want - xq))!r} > 0.5e-{prec}')
                why = _normalized(text, sep, prec if isfloat else 0, False)
                if why:
                    bad('timestr_normalized', f'timestr({x!r}, prec={prec}) = {text!r}: {why}')
            else:
                if not abs(want - xq) < _step(xq):
                    bad('timestr_approx_error', f'timestr_approx({x!r}) = {text!r} = {want} is off by '
                                                f'{float(abs(want - xq))!r} >= step {float(_step(xq))}')
                why = _normalized(text, sep, None, True)
                if why:
                    bad('timestr_approx_normalized', f'timestr_approx({x!r}) = {text!r}: {why}')
    return out
