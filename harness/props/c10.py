"""C10 -- instability detection: bounded work per burst, unsatisfiable loops are detected,
settling DAGs within the budget are never reported."""
import asyncio
import itertools

import edzed

from . import simcommon
from .. import vtime
from ..enc import enc
from ..runner import shrink_ops

ID = 'C10'
RULE = ("circuits of Not/Xor/And/Or/identity blocks (by object, by name, '_not_NAME' shortcuts) over 1..3 "
        "boolean Inputs / Counters run through the real simulator task: (a) random CYCLIC nets incl. "
        "self-loops, satisfiability of every burst's final inputs decided by brute force; (b) rings of "
        "inverters/identities with a controlling xor; (c) loops closed through on_output 'put'/'inc' events "
        "to an SBlock the chain reads (odd/even inversions: outcome known); (d) DAGs: diamond chains, "
        "ladders, random DAGs with event feedback to SBlocks read downstream, path count below/around "
        "3 x blocks; (e) feedback rings of FuncBlocks whose function returns non-interned ints (1000 + number of true "
        "inputs: every evaluation yields a fresh object equal to the previous output), which rest only if 'unchanged' is "
        "decided by equality. Per burst (first pass, then 1..3 external events sent back-to-back) the recorded "
        "eval_block order is one protocol line; the Lean model replays it (every choice must be one "
        "select_blk can make) and must reproduce: pause or instability error, number of evaluations, "
        "changed flags, all outputs, and the path bound. distinct = hash of (lines, trace); non-trivial = "
        "an instability error, or a burst after the first pass that changed a CBlock output")
ASSUMPTIONS = [
    "block functions are the library's Not/And/Or/Xor (identity = And/Or with one input) and one scripted FuncBlock "
    "function ('big'); values are bools, small ints and ints >= 1000",
    "the documented margin is 3 evaluations per block (simulator._MAX_EVALS_PER_BLOCK), all blocks of the circuit counted",
    "a run-away (more than 30 x limit evaluations without pause or error, or 20 s of wall time in a synchronous loop "
    "of the simulator) is cut by the harness and reported as a violation",
]
EXHAUSTIVE = {'quick': False, 'thorough': False}

DOC_MARGIN = 3

_prev_eval_block = edzed.CBlock.eval_block      # simcommon's logging wrapper
_GUARD = {'n': 0, 'max': None}


class Runaway(Exception):
    pass


def _guarded_eval_block(self):
    if _GUARD['max'] is not None:
        _GUARD['n'] += 1
        if _GUARD['n'] > _GUARD['max']:
            raise Runaway('no pause and no instability error')
    return _prev_eval_block(self)


edzed.CBlock.eval_block = _guarded_eval_block


# ---------------------------------------------------------------- structure of a scenario (independent of edzed)

def all_refs(cb):
    return (list(cb.get('pos', [])) + list(cb.get('named', {}).values())
            + [r for g in cb.get('groups', {}).values() for r in g])


def graph(scn):
    """nodes (CBlocks incl. automatic inverters), their predecessors, readers of every block"""
    preds = {}
    for j, cb in enumerate(scn['cblocks']):
        p = []
        for kind, x in all_refs(cb):
            if kind == 'k':
                continue
            name = {'s': f's{x}', 'c': f'c{x}', 'ns': f'_not_s{x}', 'nc': f'_not_c{x}'}[kind]
            p.append(name)
            if kind == 'ns':
                preds[name] = [f's{x}']
            elif kind == 'nc':
                preds[name] = [f'c{x}']
        preds[f'c{j}'] = p
    readers = {}
    for b, p in preds.items():
        for a in set(p):
            readers.setdefault(a, set()).add(b)
    events = {f'c{j}': [i for i, _ in cb.get('events', [])] for j, cb in enumerate(scn['cblocks'])}
    return preds, readers, events


def nblocks_of(scn):
    preds, _, _ = graph(scn)
    return len(scn['sblocks']) + len(preds)


def path_potential(scn):
    """P[b] = number of paths starting in CBlock b in the graph 'a change of b wakes c' (direct readers and,
    through on_output events, the readers of the destination SBlock); None if that graph has a cycle"""
    preds, readers, events = graph(scn)
    P, state = {}, {}

    def wakes(b):
        out = list(readers.get(b, ()))
        for i in events.get(b, []):
            out.extend(readers.get(f's{i}', ()))
        return out

    def visit(b):
        if state.get(b) == 1:
            raise ValueError('cycle')
        if b in P:
            return P[b]
        state[b] = 1
        v = 1 + sum(visit(c) for c in wakes(b))
        state[b] = 2
        P[b] = v
        return v
    try:
        for b in preds:
            visit(b)
    except ValueError:
        return None
    return P


def source_weight(scn, P, i):
    _, readers, _ = graph(scn)
    return sum(P[c] for c in readers.get(f's{i}', ()))


def block_fn(cb, vals):
    fn = cb['fn']
    if fn == 'not':
        return not vals[0]
    if fn == 'and':
        return all(bool(v) for v in vals)
    if fn == 'or':
        return any(bool(v) for v in vals)
    if fn == 'xor':
        return sum(1 for v in vals if v) % 2 == 1
    raise ValueError(fn)


def satisfiable(scn, souts):
    """is there an assignment of outputs to all CBlocks that agrees with every block's function,
    for the given SBlock outputs?  (brute force)"""
    preds, _, _ = graph(scn)
    names = sorted(preds)
    for bits in itertools.product([False, True], repeat=len(names)):
        val = dict(zip(names, bits))
        val.update(souts)
        ok = True
        for name in names:
            if name.startswith('_not_'):
                exp = not val[preds[name][0]]
            else:
                cb = scn['cblocks'][int(name[1:])]
                vals = []
                for kind, x in cb['pos']:
                    if kind == 'k':
                        vals.append(x)
                    else:
                        vals.append(val[{'s': f's{x}', 'c': f'c{x}', 'ns': f'_not_s{x}', 'nc': f'_not_c{x}'}[kind]])
                exp = block_fn(cb, vals)
            if val[name] != exp:
                ok = False
                break
        if ok:
            return True
    return False


# ---------------------------------------------------------------- generators

def _bursts(rng, sblocks, targets, nmax=4):
    bursts = []
    for _ in range(rng.randint(1, nmax)):
        burst = []
        for _ in range(rng.choice([1, 1, 2, 3])):
            i = rng.choice(targets)
            if sblocks[i]['kind'] == 'counter':
                burst.append([i, 'inc'] if rng.random() < 0.7 else [i, 'put', rng.randint(0, 2)])
            else:
                burst.append([i, 'put', rng.choice([True, False])])
        bursts.append(burst)
    return bursts


def _order(rng, n):
    order = list(range(n))
    rng.shuffle(order)
    return order


def _gate(rng, refs_fn, fns=('not', 'xor', 'and', 'or', 'idn')):
    fn = rng.choice(fns)
    if fn == 'not':
        return {'fn': 'not', 'pos': [refs_fn()]}
    if fn == 'idn':
        return {'fn': rng.choice(['and', 'or']), 'pos': [refs_fn()]}
    return {'fn': fn, 'pos': [refs_fn() for _ in range(rng.choice([2, 2, 3]))]}


def gen_cyclic(rng):
    ns = rng.randint(1, 3)
    sblocks = [{'kind': 'input', 'init': rng.choice([True, False])} for _ in range(ns)]
    nc = rng.randint(1, 7)
    srcs = [['s', i] for i in range(ns)] + [['c', k] for k in range(nc)] * 2

    def ref():
        r = list(rng.choice(srcs))
        if rng.random() < 0.12:
            r[0] = 'n' + r[0]
        return r
    cblocks = []
    for _ in range(nc):
        cb = _gate(rng, ref)
        cb['byname'] = rng.random() < 0.5
        cblocks.append(cb)
    return {'family': 'cyclic', 'sblocks': sblocks, 'cblocks': cblocks, 'order': _order(rng, nc),
            'bursts': _bursts(rng, sblocks, list(range(ns)))}


def gen_ring(rng):
    """c0 = xor(s0, c[k-1]) (or a plain gate), c[j] = not/identity(c[j-1])"""
    k = rng.randint(1, 7)
    sblocks = [{'kind': 'input', 'init': rng.choice([True, False])}]
    cblocks = []
    ctrl = rng.random() < 0.7
    for j in range(k):
        prev = ['c', (j - 1) % k]
        if j == 0 and ctrl:
            cb = {'fn': 'xor', 'pos': [['s', 0], prev]}
        elif rng.random() < 0.5:
            cb = {'fn': 'not', 'pos': [prev]}
        else:
            cb = {'fn': rng.choice(['and', 'or']), 'pos': [prev]}
        cb['byname'] = rng.random() < 0.5
        cblocks.append(cb)
    if not ctrl and rng.random() < 0.5:
        # an observer outside the ring
        cblocks.append({'fn': 'and', 'pos': [['s', 0], ['c', rng.randrange(k)]], 'byname': True})
    return {'family': 'ring', 'sblocks': sblocks, 'cblocks': cblocks, 'order': _order(rng, len(cblocks)),
            'bursts': _bursts(rng, sblocks, [0])}


def gen_valring(rng):
    """a feedback ring of FuncBlocks computing non-interned values: c0 = 1000 + truthy(s0) + truthy(c[k-1]),
    c[j] = 1000 + truthy(c[j-1]).  Every block settles after one lap (all values >= 1000 are truthy), but every
    evaluation returns a FRESH int object equal to the previous output: the ring rests only if 'unchanged' is
    decided by ==, not by identity"""
    k = rng.randint(2, 5)
    sblocks = [{'kind': 'input', 'init': rng.choice([True, False, 0, 1])}]
    cblocks = []
    for j in range(k):
        pos = [['c', (j - 1) % k]] + ([['s', 0]] if j == 0 else [])
        cblocks.append({'fn': 'f', 'script': 'big', 'unpack': rng.random() < 0.5, 'pos': pos,
                        'byname': rng.random() < 0.5})
    return {'family': 'valring', 'sblocks': sblocks, 'cblocks': cblocks, 'order': _order(rng, len(cblocks)),
            'bursts': _bursts(rng, sblocks, [0]), 'expect': 'stable'}


def gen_evloop(rng):
    """s1 -> c0 -> ... -> c[k-1] --on_output--> s1"""
    pure = rng.random() < 0.5
    counter = (not pure) and rng.random() < 0.4
    sblocks = [{'kind': 'input', 'init': rng.choice([True, False])},
               {'kind': 'counter', 'init': rng.randint(0, 1)} if counter
               else {'kind': 'input', 'init': rng.choice([True, False])}]
    k = rng.randint(1, 4)
    cblocks, inversions = [], 0
    for j in range(k):
        prev = ['s', 1] if j == 0 else ['c', j - 1]
        if not pure and rng.random() < 0.4:
            cb = {'fn': rng.choice(['xor', 'and', 'or']), 'pos': [prev, ['s', 0]]}
        elif rng.random() < 0.5:
            cb = {'fn': 'not', 'pos': [prev]}
            inversions += 1
        else:
            cb = {'fn': rng.choice(['and', 'or']), 'pos': [prev]}
        cb['byname'] = rng.random() < 0.5
        cblocks.append(cb)
    cblocks[-1]['events'] = [[1, 'inc' if counter else 'put']]
    if rng.random() < 0.3:
        # a second event: the loop signal is also copied to / counted by the other SBlock? no: keep s0 external
        cblocks[rng.randrange(k)].setdefault('events', []).append([1, 'inc' if counter else 'put'])
    scn = {'family': 'evloop', 'sblocks': sblocks, 'cblocks': cblocks, 'order': _order(rng, k),
           'bursts': _bursts(rng, sblocks, [0, 1] if not pure else [1])}
    if pure and sum(len(cb.get('events', [])) for cb in cblocks) == 1:
        scn['expect'] = 'unstable_first' if inversions % 2 else 'stable'
    return scn


def gen_diamonds(rng):
    k = rng.randint(1, 5)
    sblocks = [{'kind': 'input', 'init': rng.choice([True, False])} for _ in range(rng.randint(1, 2))]
    cblocks = []
    src = ['s', 0]
    for _ in range(k):
        a, b = len(cblocks), len(cblocks) + 1
        for _ in range(2):
            cb = {'fn': 'not', 'pos': [list(src)]} if rng.random() < 0.5 else \
                 {'fn': rng.choice(['and', 'or']), 'pos': [list(src)]}
            cblocks.append(cb)
        pos = [['c', a], ['c', b]]
        if len(sblocks) > 1 and rng.random() < 0.3:
            pos.append(['s', 1])
        cblocks.append({'fn': rng.choice(['xor', 'xor', 'and', 'or']), 'pos': pos})
        src = ['c', len(cblocks) - 1]
    for cb in cblocks:
        cb['byname'] = rng.random() < 0.5
    return {'family': 'diamonds', 'sblocks': sblocks, 'cblocks': cblocks, 'order': _order(rng, len(cblocks)),
            'bursts': _bursts(rng, sblocks, list(range(len(sblocks))), nmax=5)}


def gen_ladder(rng):
    k = rng.randint(1, 4)
    sblocks = [{'kind': 'input', 'init': rng.choice([True, False])} for _ in range(2)]
    cblocks = []
    a, b = ['s', 0], ['s', 1]
    for _ in range(k):
        na = {'fn': rng.choice(['xor', 'and', 'or']), 'pos': [list(a), list(b)]}
        nb = {'fn': rng.choice(['xor', 'and', 'or']), 'pos': [list(b), list(a)]}
        if rng.random() < 0.3:
            nb['pos'][1][0] = 'n' + nb['pos'][1][0]
        cblocks += [na, nb]
        a, b = ['c', len(cblocks) - 2], ['c', len(cblocks) - 1]
    if rng.random() < 0.5:
        cblocks.append({'fn': 'xor', 'pos': [list(a), list(b)]})
    for cb in cblocks:
        cb['byname'] = rng.random() < 0.5
    return {'family': 'ladder', 'sblocks': sblocks, 'cblocks': cblocks, 'order': _order(rng, len(cblocks)),
            'bursts': _bursts(rng, sblocks, [0, 1], nmax=5)}


def gen_dag(rng):
    """random DAG; feedback events go to secondary SBlocks that are read only downstream of their writers"""
    ns = rng.randint(1, 4)
    nsec = rng.randint(0, min(2, ns - 1)) if ns > 1 else 0
    sblocks = []
    for i in range(ns):
        if i >= ns - nsec and rng.random() < 0.4:
            sblocks.append({'kind': 'counter', 'init': rng.randint(0, 1)})
        else:
            sblocks.append({'kind': 'input', 'init': rng.choice([True, False])})
    primary, secondary = list(range(ns - nsec)), list(range(ns - nsec, ns))
    nc = rng.randint(1, 9)
    first_reader = {i: rng.randint(1, nc) for i in secondary}
    cblocks = []
    for j in range(nc):
        avail = [['s', i] for i in primary] + [['c', q] for q in range(j)] * 2
        avail += [['s', i] for i in secondary if first_reader[i] <= j]

        def ref():
            r = list(rng.choice(avail))
            if rng.random() < 0.15:
                r[0] = 'n' + r[0]
            return r
        cb = _gate(rng, ref)
        evs = []
        for i in secondary:
            if j < first_reader[i] and rng.random() < 0.4:
                evs.append([i, 'inc' if sblocks[i]['kind'] == 'counter' else 'put'])
        if evs:
            cb['events'] = evs
        cb['byname'] = rng.random() < 0.5
        cblocks.append(cb)
    return {'family': 'dag', 'sblocks': sblocks, 'cblocks': cblocks, 'order': _order(rng, nc),
            'bursts': _bursts(rng, sblocks, primary, nmax=5)}


FAMILIES = [gen_cyclic, gen_cyclic, gen_ring, gen_evloop, gen_evloop, gen_diamonds, gen_ladder, gen_dag, gen_dag, gen_valring]

FIXED = [
    # tests/test_simulator.py::test_instability_1 -- three inverters in a ring
    {'family': 'ring', 'sblocks': [{'kind': 'input', 'init': False}],
     'cblocks': [{'fn': 'not', 'pos': [['c', 2]], 'byname': True}, {'fn': 'not', 'pos': [['c', 0]], 'byname': True},
                 {'fn': 'not', 'pos': [['c', 1]], 'byname': True}], 'bursts': []},
    # tests/test_simulator.py::test_instability_2 -- xor with feedback, stable until ctrl becomes True
    {'family': 'ring', 'sblocks': [{'kind': 'input', 'init': False}],
     'cblocks': [{'fn': 'xor', 'pos': [['s', 0], ['c', 0]], 'byname': True}], 'bursts': [[[0, 'put', True]]]},
    # the smallest event loop: c0 = not s1, on_output put s1
    {'family': 'evloop', 'sblocks': [{'kind': 'input', 'init': False}, {'kind': 'input', 'init': False}],
     'cblocks': [{'fn': 'not', 'pos': [['s', 1]], 'events': [[1, 'put']]}], 'bursts': [], 'expect': 'unstable_first'},
]


def scenarios(rng, tier):
    yield from FIXED
    n = 10000 if tier == 'quick' else 300000
    for k in range(n):
        yield FAMILIES[k % len(FAMILIES)](rng)


def shrink(scn):
    yield from shrink_ops(scn, 'bursts')
    for bi, b in enumerate(scn.get('bursts', [])):
        for cand in shrink_ops({'ops': b}):
            if cand['ops']:
                nb = list(scn['bursts'])
                nb[bi] = cand['ops']
                yield {**scn, 'bursts': nb}
    n = len(scn['cblocks'])
    if n > 1:
        last = n - 1
        used = any(r[0] in ('c', 'nc') and r[1] == last for cb in scn['cblocks'] for r in all_refs(cb))
        if not used:
            cand = {**scn, 'cblocks': scn['cblocks'][:-1],
                    'order': [j for j in (scn.get('order') or range(n)) if j != last]}
            cand.pop('expect', None)
            yield cand


# ---------------------------------------------------------------- implementation runner

def run_impl(scn):
    lines, trace, bursts = [], [], []
    info = {'error': None}
    log = []
    simcommon._EVAL_LOG = log
    edzed.reset_circuit()
    circuit = edzed.get_circuit()
    try:
        blocks = simcommon.build(scn, circuit)
    except Exception:
        simcommon._EVAL_LOG = None
        raise
    sblocks = [blocks[f's{i}'] for i in range(len(scn['sblocks']))]
    P = path_potential(scn)
    maxev = getattr(edzed.simulator, '_MAX_EVALS_PER_BLOCK', DOC_MARGIN)
    _GUARD['n'] = 0
    _GUARD['max'] = 30 * DOC_MARGIN * nblocks_of(scn) + 200
    state = {'pos': 0}

    async def main(loop):
        asyncio.create_task(circuit.run_forever())
        try:
            await circuit.wait_init()
        except edzed.EdzedInvalidState:
            pass
        if not circuit.is_finalized():
            info['error'] = repr(circuit.error)
            return
        line, cbl, cidx = simcommon.reset_line(scn, circuit)
        nblocks = len(list(circuit.getblocks()))
        info['nblocks'] = nblocks
        lines.append('burst' + line[3:])
        pot = 'x' if P is None else ';'.join(str(P[b.name]) for b in cbl)
        trace.append(f'ok limit={maxev * nblocks} pot={pot}')

        def flush(bound):
            evs = log[state['pos']:]
            state['pos'] = len(log)
            _GUARD['n'] = 0
            lines.append('burst run ' + (','.join(str(cidx[name]) for name, _, _ in evs) or '-'))
            err = circuit.error
            outs = {b.name: b.output for b in list(circuit.getblocks())}
            rec = {'evals': len(evs), 'outs': outs, 'bound': bound,
                   'changed': sum(1 for _, ch, _ in evs if ch)}
            if err is None:
                rec['fin'] = 'idle'
            elif isinstance(err, edzed.EdzedCircuitError) and 'instability' in str(err):
                rec['fin'] = 'unstable'
            else:
                rec['fin'] = 'error'
                rec['error'] = repr(err)
            bursts.append(rec)
            if rec['fin'] == 'error':
                trace.append('err SimError ' + type(err).__name__)
                return False
            trace.append(f"{rec['fin']} n={len(evs)} chg={''.join('1' if ch else '0' for _, ch, _ in evs)} "
                         f"sel=1 bound={'x' if bound is None else bound} {simcommon.outs_str(cbl, sblocks)}")
            return err is None

        alive = flush(None if P is None else sum(P.values()))
        for burst in scn.get('bursts', []):
            if not alive:
                break
            bound = 0
            for ev in burst:
                i = ev[0]
                before = sblocks[i].output
                if ev[1] == 'put':
                    edzed.ExtEvent(sblocks[i], 'put').send(ev[2])
                    lines.append(f'burst ext {i} put {enc(ev[2])}')
                else:
                    edzed.ExtEvent(sblocks[i], 'inc').send()
                    lines.append(f'burst ext {i} inc')
                trace.append('ok ' + enc(sblocks[i].output))
                if P is not None and sblocks[i].output != before:
                    bound += source_weight(scn, P, i)
            await vtime.settle(loop)
            alive = flush(None if P is None else bound)
        try:
            await circuit.shutdown()
        except Exception:
            pass

    try:
        with simcommon.watchdog():
            vtime.run(main)
    finally:
        simcommon._EVAL_LOG = None
        _GUARD['max'] = None
    info.update(lines=lines, trace=trace, bursts=bursts, acyclic=P is not None)
    nblocks = info.get('nblocks') or nblocks_of(scn)
    later_change = any(b['changed'] for b in bursts[1:])
    unstable = any(b['fin'] == 'unstable' for b in bursts)
    info['nontrivial'] = unstable or later_change
    tags = [f"family={scn.get('family')}", f"ncblocks={len(scn['cblocks'])}"]
    tags.append('outcome=unstable-first-pass' if bursts and bursts[0]['fin'] == 'unstable'
                else 'outcome=unstable-later' if unstable else 'outcome=settles')
    if any(cb.get('events') for cb in scn['cblocks']):
        tags.append('event-feedback')
    if P is not None:
        lim = DOC_MARGIN * nblocks
        worst = max([b['bound'] for b in bursts if b['bound'] is not None] or [0])
        tags.append('dag-bound<=limit' if worst <= lim else 'dag-bound>limit')
    else:
        tags.append('cyclic')
    if bursts:
        tags.append('max-evals/limit=%d%%' % (10 * round(10 * max(b['evals'] for b in bursts) / (DOC_MARGIN * nblocks))))
    info['tags'] = tags
    return info


# ---------------------------------------------------------------- independent oracle

def oracle(scn, res):
    out = []
    if res['error']:
        return [{'clause': 'circuit_starts', 'what': f"the circuit did not start: {res['error']}"}]
    limit = DOC_MARGIN * nblocks_of(scn)
    P = path_potential(scn)
    has_events = any(cb.get('events') for cb in scn['cblocks'])
    ns = len(scn['sblocks'])
    for k, b in enumerate(res['bursts']):
        where = 'first pass' if k == 0 else f'burst {k}'
        if b['fin'] == 'error':
            out.append({'clause': 'terminates_with_instability_error',
                        'what': f"{where}: {b['evals']} evaluations, then {b['error']} instead of the instability error"})
            break
        if b['evals'] > limit:
            out.append({'clause': 'bounded_work',
                        'what': f"{where}: {b['evals']} evaluations without a pause, limit is {DOC_MARGIN} x {limit // DOC_MARGIN} blocks"})
        if b['fin'] == 'unstable' and b['evals'] < limit:
            out.append({'clause': 'premature_instability',
                        'what': f"{where}: instability reported after {b['evals']} evaluations, the margin is {limit}"})
        if b['fin'] == 'idle':
            bad = simcommon.consistency_violations(scn, b['outs'])
            if bad:
                out.append({'clause': 'idle_consistent', 'what': f'{where}: paused although ' + '; '.join(bad[:3])})
            if not has_events and P is None and len(scn['cblocks']) <= 8 and scn.get('family') != 'valring':
                souts = {f's{i}': b['outs'][f's{i}'] for i in range(ns)}
                if not satisfiable(scn, souts):
                    out.append({'clause': 'unsat_detected',
                                'what': f'{where}: no consistent assignment exists for inputs {souts}, yet the simulator paused'})
        if P is not None and b['bound'] is not None:
            if b['fin'] == 'unstable' and b['bound'] <= limit:
                out.append({'clause': 'dag_never_unstable',
                            'what': f"{where}: acyclic, {b['bound']} paths <= {limit}, reported as unstable"})
            if b['evals'] > b['bound']:
                out.append({'clause': 'dag_path_bound',
                            'what': f"{where}: {b['evals']} evaluations, only {b['bound']} paths from the changed blocks"})
    if P is not None and not has_events and res['bursts'] and res['bursts'][0]['fin'] != 'error':
        ncb = len(P)
        if res['bursts'][0]['evals'] != ncb:
            out.append({'clause': 'first_pass_linear',
                        'what': f"acyclic network of {ncb} CBlocks, the first pass took {res['bursts'][0]['evals']} "
                                f"evaluations (select_blk should take blocks without pending inputs first)"})
    exp = scn.get('expect')
    if exp == 'unstable_first' and res['bursts'] and res['bursts'][0]['fin'] == 'idle':
        out.append({'clause': 'unsat_detected', 'what': 'event loop with an odd number of inversions paused'})
    if exp == 'stable' and any(b['fin'] == 'unstable' for b in res['bursts']):
        out.append({'clause': 'stable_not_reported',
                    'what': ('a feedback ring that settles on equal (freshly computed) values reported as unstable'
                             if scn.get('family') == 'valring' else
                             'event loop with an even number of inversions reported as unstable')})
    return out
