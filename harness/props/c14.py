"""C14 -- external events enter only a running circuit and are always marked as external.

Correspondence with lean/EdzedModel/ExtEvent.lean (+ the life-cycle model of ErrorReg.lean):
  * 'send' scenarios: a real circuit is driven into one of the life-cycle phases (not started, aborted before
    start, task created, initialising, running, cancellation requested, aborting / cleaning up / finished after
    every kind of stop), then ExtEvent objects are constructed and sent with all data shapes; constructor result,
    is_ready() after every life-cycle step, exception or the data recorded by the destination are compared;
  * 'names' scenarios: blocks named in every possible way (user names, automatic names of arbitrary classes,
    _ctrl, _not_NAME, _cron_*) send internal events; names and the sources seen by a probe are compared.
"""
import asyncio
import itertools

import edzed

from .. import vtime
from ..enc import enc, enc_data
from ..runner import shrink_ops

ID = 'C14'
RULE = ("send: all life-cycle phases (notStarted, abortedBeforeStart, taskCreated, initialising, running, "
        "finalizedNotStarted/finalizedTaskCreated = after an explicit Circuit.finalize(), "
        "cancelRequested, and aborting/cleaningUp/finished after each stop kind: abort(), handler error, control "
        "abort/shutdown events, shutdown(), bare cancel) x constructor arguments (6 destination kinds, valid and "
        "invalid event types, default/plain/marked/empty/non-string default source) x data shapes (positional value "
        "absent/int/None/str/tuple; source item absent, plain, already marked, near-miss prefixes, empty, non-string; "
        "other items incl. items named like parameters of the methods on the way: etype, data, handler, dest) x destination block kinds (generic _event, specific handler, Input.put) -- the phase x "
        "source-shape x value product is enumerated completely, the other dimensions are random; "
        "names: user names incl. reserved/empty ones, automatic names of classes called Probe/ext/Ext/extra/ext_x/"
        "e/ex/..., _ctrl, _not_NAME, _cron_utc/_cron_local. distinct = hash of (lines, trace); non-trivial = at "
        "least one event delivered or one block created")
ASSUMPTIONS = [
    "user filters that rewrite the 'source' item are user code and outside the claim",
    "the destination's handler is a probe; what the handler does with the data belongs to other properties",
]
EXHAUSTIVE = {'quick': False, 'thorough': False}

STOP_KINDS = ['abort', 'handler', 'ctrlAbort', 'ctrlShutdown', 'shutdown', 'cancel']
PHASES = (['notStarted', 'abortedBeforeStart', 'taskCreated', 'initialising', 'running', 'cancelRequested',
           'abortedStartFinished', 'eagerRefused', 'finalizedNotStarted', 'finalizedTaskCreated']
          + [f'{p}:{k}' for p in ('aborting', 'stopping1', 'cleaningUp', 'finished') for k in STOP_KINDS])
# 'aborting:K'  = right after the stop K was requested, in the same step of the caller;
# 'stopping1:K' = one event-loop iteration later (a task created for shutdown() has made its first step, a
#                 requested cancellation has been delivered)
SOURCES = ['<absent>', 'src', '_ext_x', '', '_ext', '_ext_', '_ext__', 'ext_', '_Ext_a', 'pump_ext_1', ' _ext_d',
           '__ext_', 5, None, ('t',)]
FRAGMENTS = ['_ext_', '_ext', 'ext_', '_', 'a', ' ', 'E', 'x_', '_EXT_', 'ext']


def rand_source(rng):
    """source strings assembled from fragments of the prefix: near misses at every position"""
    return ''.join(rng.choice(FRAGMENTS) for _ in range(rng.randint(1, 4)))

VALUES = ['<absent>', 7, None, 'v', (1, 2)]
CTOR_SOURCES = ['<default>', 'abc', '_ext_abc', '', '_ext', 5, None]
ETYPES = ['ev', 'ev', 'ev', '', 5]
DESTS = ['sblockObj', 'sblockName', 'cblockObj', 'cblockName', 'unknownName', 'notABlock']
CLASS_NAMES = ['Probe2', 'ext', 'Ext', 'extra', 'ext_x', 'e', 'ex', 'ext_', 'X_ext_', 'exT']


def recipe(phase):
    base, _, kind = phase.partition(':')
    if base == 'notStarted':
        return []
    if base == 'abortedBeforeStart':
        return ['preabort']
    if base == 'eagerRefused':
        # the loop uses asyncio.eager_task_factory: run_forever() refuses to start (RuntimeError)
        return ['eager']
    if base == 'taskCreated':
        return ['create']
    # an explicit Circuit.finalize() (documented: to inspect the connections before the start) changes nothing
    if base == 'finalizedNotStarted':
        return ['finalize']
    if base == 'finalizedTaskCreated':
        return ['finalize', 'create']
    if base == 'initialising':
        return ['create', 'settle0']
    if base == 'abortedStartFinished':
        return ['preabort', 'create', 'settle0', 'advance']
    run = ['create', 'wait_init']
    if base == 'running':
        return run
    if base == 'cancelRequested':
        return run + ['rawCancel']
    if base == 'aborting':
        return run + [kind if kind != 'cancel' else 'cancel']
    if base == 'stopping1':
        return run + [kind, 'yield1']
    if base == 'cleaningUp':
        return run + [kind, 'settle']
    if base == 'finished':
        return run + [kind, 'settle', 'advance']
    raise AssertionError(phase)


def scenarios(rng, tier):
    def send(dest_block=None, **kw):
        s = {'dest': rng.choice(['sblockObj', 'sblockName']), 'etype': 'ev', 'csrc': rng.choice(CTOR_SOURCES[:5]),
             'value': '<absent>', 'source': '<absent>', 'extra': {},
             'block': dest_block or rng.choice(['probe', 'probeh', 'loginput', 'pinput'])}
        s.update(kw)
        return s
    # phase x source shape x value: complete
    for phase in PHASES:
        sends = [send(source=src, value=val, extra=rng.choice([{}, {'a': 1}, {'b': None, 'sourcex': 's'},
                                                                 {'etype': 'fault', 'data': 3}]))
                 for src in SOURCES for val in VALUES]
        rng.shuffle(sends)
        for i in range(0, len(sends), 12):
            yield {'kind': 'send', 'phase': phase, 'ops': sends[i:i + 12]}
    # constructor arguments
    for phase in ('notStarted', 'running', 'finished:abort'):
        ops = [send(dest=d, etype=e, csrc=c) for d in DESTS for e in ('ev', '', 5) for c in CTOR_SOURCES]
        for i in range(0, len(ops), 21):
            yield {'kind': 'send', 'phase': phase, 'ops': ops[i:i + 21]}
    n = 150 if tier == 'quick' else 30000
    for _ in range(n):
        phase = rng.choice(PHASES)
        ops = []
        for _ in range(rng.randint(1, 6)):
            extra = {k: rng.choice([0, 'x', None, (1,)])
                     for k in rng.sample(['a', 'b', 'value2', 'sourcex', 'src', 'etype', 'data', 'handler', 'dest'],
                                         rng.randint(0, 3))}
            ops.append(send(dest=rng.choice(DESTS[:2] * 4 + DESTS), etype=rng.choice(ETYPES),
                            csrc=rng.choice(CTOR_SOURCES + [rand_source(rng)] * 4), value=rng.choice(VALUES),
                            source=rng.choice(SOURCES + [rand_source(rng)] * 8), extra=extra))
        yield {'kind': 'send', 'phase': phase, 'ops': ops}
    # names
    user = ['a', 'x_1', '_x', '__', '', '_ext_', '_ext_me', 'ext_', 'e', '_not_a', '_ctrl2', 'Ext', ' ', '1']
    for cls in CLASS_NAMES:
        yield {'kind': 'names', 'ops': [['auto', cls], ['auto', cls], ['user', 'u1'], ['auto', cls]]}
    yield {'kind': 'names', 'ops': [['user', u] for u in user]}
    yield {'kind': 'names', 'ops': [['ctrl'], ['notOf', 'a'], ['user', 'a'], ['cron', 0], ['cron', 1], ['notOf', 'n1'],
                                    ['auto', 'Probe2'], ['notOf', '_x']]}
    for _ in range(40 if tier == 'quick' else 4000):
        ops = []
        for _ in range(rng.randint(1, 6)):
            r = rng.random()
            if r < 0.4:
                ops.append(['auto', rng.choice(CLASS_NAMES)])
            elif r < 0.7:
                ops.append(['user', rng.choice(user) + rng.choice(['', '', 'q', '_', '9'])])
            elif r < 0.8:
                ops.append(['notOf', rng.choice(['a', 'u1', 'zz'])])
            elif r < 0.9:
                ops.append(['cron', rng.randint(0, 1)])
            else:
                ops.append(['ctrl'])
        yield {'kind': 'names', 'ops': ops}


def shrink(scn):
    yield from shrink_ops(scn)


# ---------------------------------------------------------------- blocks

class Probe(edzed.SBlock):
    def __init__(self, *args, log, **kwargs):
        self.log = log
        super().__init__(*args, **kwargs)

    def _event(self, etype, data):
        self.log.append((self.name, etype, dict(data)))
        return ('R', len(self.log))

    def init_regular(self):
        self.set_output(None)


class ProbeH(edzed.SBlock):
    def __init__(self, *args, log, **kwargs):
        self.log = log
        super().__init__(*args, **kwargs)

    def _event_ev(self, *, source, **data):
        self.log.append((self.name, 'ev', dict(data, source=source)))
        return ('R', len(self.log))

    def init_regular(self):
        self.set_output(None)


class LogInput(edzed.Input):
    def __init__(self, *args, log, **kwargs):
        self.log = log
        super().__init__(*args, **kwargs)

    def _event_ev(self, **data):
        self.log.append((self.name, 'ev', dict(data)))
        return ('R', len(self.log))


class Boom(edzed.SBlock):
    def _event_boom(self, **_data):
        raise RuntimeError('src1')

    def init_regular(self):
        self.set_output(None)


class SlowInit(edzed.AddonAsync, edzed.SBlock):
    async def init_async(self):
        await asyncio.sleep(1.0)
        self.set_output(1)


class SlowStop(edzed.AddonAsync, edzed.SBlock):
    def init_regular(self):
        self.set_output(None)

    async def stop_async(self):
        await asyncio.sleep(1.0)


def _val(x):
    return tuple(x) if isinstance(x, list) else x


# ---------------------------------------------------------------- 'send' scenarios

def run_send(scn):
    edzed.reset_circuit()
    circuit = edzed.get_circuit()
    log = []
    circuit.set_persistent_data({})
    blocks = {'probe': Probe('probe', log=log), 'probeh': ProbeH('probeh', log=log),
              'loginput': LogInput('loginput', log=log, initdef=0),
              # a destination with ACTIVE persistence (the event goes through AddonPersistence.event)
              'pinput': LogInput('pinput', log=log, initdef=0, persistent=True)}
    boom = Boom('boom')
    edzed.ControlBlock('_ctrl', _reserved=True)
    SlowInit('slowinit', init_timeout=5)
    SlowStop('slowstop', stop_timeout=5)
    cblk = edzed.Not('cnot').connect('loginput')
    lines, trace, sends, life = ['ext reset'], ['ok'], [], []

    def life_line(op):
        lines.append(op)
        trace.append(f'ready={1 if circuit.is_ready() else 0}')
        life.append((op, circuit.is_ready()))

    async def main(loop):
        simtask = None
        for step in recipe(scn['phase']):
            if step == 'preabort':
                circuit.abort(RuntimeError('src1'))
                life_line('ext life abort x1')
            elif step == 'eager':
                loop.set_task_factory(asyncio.eager_task_factory)
                try:
                    refused = asyncio.ensure_future(circuit.run_forever())
                    try:
                        await refused
                    except RuntimeError:
                        pass
                finally:
                    loop.set_task_factory(None)
                await asyncio.sleep(0)
                lines.append('ext reset')       # the start was refused: the circuit is as before the start
                trace.append('ok')
                life.append(('eager-refused', circuit.is_ready()))
            elif step == 'finalize':
                circuit.finalize()
                life.append(('finalize', circuit.is_ready()))
            elif step == 'create':
                simtask = asyncio.create_task(circuit.run_forever())
            elif step == 'settle0':
                await vtime.settle(loop)
                life_line('ext life start -')
                life_line('ext life-settle')
            elif step == 'wait_init':
                await circuit.wait_init()
                await vtime.settle(loop)
                life_line('ext life start -')
            elif step == 'rawCancel' or step == 'cancel':
                simtask.cancel()
                life_line('ext life rawCancel')
            elif step == 'abort':
                circuit.abort(RuntimeError('src1'))
                life_line('ext life abort x1')
            elif step == 'handler':
                try:
                    edzed.ExtEvent(boom, 'boom').send()
                except RuntimeError:
                    pass
                life_line('ext life handlerErr 1')
            elif step == 'ctrlAbort':
                edzed.ExtEvent('_ctrl', 'abort').send(error=RuntimeError('src1'))
                life_line('ext life ctrlAbort 1')
            elif step == 'ctrlShutdown':
                edzed.ExtEvent('_ctrl', 'shutdown').send()
                life_line('ext life ctrlShutdown')
            elif step == 'shutdown':
                asyncio.create_task(circuit.shutdown())
                life_line('ext life shutdownTask')
            elif step == 'yield1':
                await asyncio.sleep(0)
                life_line('ext life tick')
            elif step == 'settle':
                await vtime.settle(loop)
                life_line('ext life-settle')
            elif step == 'advance':
                await vtime.advance_to(loop, loop.now_us + 3_000_000)
                life_line('ext life finish')
                life_line('ext life-settle')
            else:
                raise AssertionError(step)
        for s in scn['ops']:
            do_send(s)
        if simtask is not None:
            if not simtask.done():
                try:
                    await circuit.shutdown()
                except Exception:
                    pass
            try:
                await simtask
            except BaseException:
                pass

    def do_send(s):
        kind = s['dest']
        target = blocks[s['block']]
        dest = {'sblockObj': target, 'sblockName': target.name, 'cblockObj': cblk, 'cblockName': 'cnot',
                'unknownName': 'nobody', 'notABlock': 3.14}[kind]
        etype = s['etype']
        kwargs = {} if s['csrc'] == '<default>' else {'source': _val(s['csrc'])}
        csrc_enc = 's' + '_ext_'.encode().hex() if s['csrc'] == '<default>' else enc(_val(s['csrc']))
        lines.append(f"ext ctor {kind} {enc(etype)} {csrc_enc}")
        try:
            ev = edzed.ExtEvent(dest, etype, **kwargs)
        except TypeError:
            trace.append('TypeError')
            sends.append({'ctor': 'TypeError'})
            return
        except KeyError:
            trace.append('KeyError')
            sends.append({'ctor': 'KeyError'})
            return
        if not isinstance(dest, (str, edzed.SBlock)) or (isinstance(dest, str) and dest == 'cnot'):
            trace.append('ok-for-non-sblock')
            sends.append({'ctor': 'accepted-non-sblock', 'what': repr(dest)})
            return
        trace.append('ok ' + ev._source.encode().hex())
        data = {k: _val(v) for k, v in s['extra'].items()}
        if s['source'] != '<absent>':
            data['source'] = _val(s['source'])
        args = () if s['value'] == '<absent>' else (_val(s['value']),)
        lines.append(f"ext send {ev._source.encode().hex()} {'-' if not args else enc(args[0])} {enc_data(data)}")
        before = len(log)
        ready = circuit.is_ready()
        rec = {'ctor': 'ok', 'default_source': ev._source, 'ready': ready, 'sent': dict(data), 'args': args,
               'phase': scn['phase']}
        try:
            ret = ev.send(*args, **data)
        except edzed.EdzedInvalidState:
            trace.append('InvalidState')
            rec.update(result='InvalidState', delivered=log[before:])
        except TypeError:
            trace.append('TypeError')
            rec.update(result='TypeError', delivered=log[before:])
        except Exception as err:        # nothing else is documented
            trace.append('raised ' + type(err).__name__)
            rec.update(result='raised ' + type(err).__name__, delivered=log[before:])
        else:
            got = log[before:]
            if len(got) == 1:
                trace.append('delivered ' + enc_data(got[0][2]))
            else:
                trace.append(f'delivered-{len(got)}-times')
            rec.update(result='ret', ret=ret, delivered=got, delivered_index=len(log))
        sends.append(rec)

    vtime.run(main)
    ndel = sum(1 for r in sends if r.get('result') == 'ret')
    tags = [f"phase={scn['phase']}"] + sorted({f"send={r.get('result', 'ctor-' + r['ctor'])}" for r in sends})
    return {'lines': lines, 'trace': trace, 'tags': tags, 'nontrivial': ndel > 0 or len(sends) > 0,
            'sends': sends, 'life': life, 'internal': [], 'names': []}


# ---------------------------------------------------------------- 'names' scenarios

def run_names(scn):
    edzed.reset_circuit()
    circuit = edzed.get_circuit()
    log = []
    Probe('probe', log=log)
    lines, trace, names, pending = ['ext reset'], ['ok'], [], []
    classes = {}
    need_run = False
    created_user = set()
    counts = {}
    for op in scn['ops']:
        kind = op[0]
        if kind == 'user':
            name = op[1]
            lines.append(f"ext name user {name.encode().hex() or '-'}")
            if name in created_user or name == 'probe':
                lines.pop()
                continue
            try:
                blk = Probe(name, log=log, on_output=edzed.Event('probe', 'ev'))
            except ValueError:
                trace.append(f"0 {name.encode().hex()} ext={1 if name.startswith('_ext_') else 0}")
                names.append(('user', name, None))
                continue
            created_user.add(name)
            need_run = True
            trace.append(f"1 {blk.name.encode().hex()} ext={1 if blk.name.startswith('_ext_') else 0}")
            names.append(('user', name, blk.name))
        elif kind == 'auto':
            cls = classes.get(op[1])
            if cls is None:
                cls = classes[op[1]] = type(op[1], (Probe,), {})
            n = counts.get(op[1], 0)
            counts[op[1]] = n + 1
            blk = cls(None, log=log, on_output=edzed.Event('probe', 'ev'))
            need_run = True
            lines.append(f"ext name auto {op[1].encode().hex()} {str(n).encode().hex()}")
            trace.append(f"1 {blk.name.encode().hex()} ext={1 if blk.name.startswith('_ext_') else 0}")
            names.append(('auto', op[1], blk.name))
        elif kind == 'ctrl':
            if '_ctrl' in [b.name for b in circuit.getblocks()] or counts.get('<ctrl>'):
                continue
            counts['<ctrl>'] = 1
            Probe(None, log=log, on_output=edzed.Event('_ctrl', 'nonexistent', efilter=lambda d: False))
            counts['Probe'] = counts.get('Probe', 0)      # (class Probe itself is not in CLASS_NAMES)
            names.append(('ctrl', None, '_ctrl'))
            lines.append('ext name ctrl')
            pending.append((len(trace), '_ctrl'))
            trace.append(None)      # filled in after finalize
        elif kind == 'notOf':
            target = op[1]
            if target not in created_user and not target.startswith('_'):
                Probe(target, log=log)
                created_user.add(target)
            if target.startswith('_'):
                # '_not__x' is not a shortcut: the resolver does not create an inverter for it
                continue
            edzed.Not(None).connect('_not_' + target)
            names.append(('notOf', target, '_not_' + target))
            lines.append(f"ext name notOf {target.encode().hex()}")
            pending.append((len(trace), '_not_' + target))
            trace.append(None)
        elif kind == 'cron':
            utc = bool(op[1])
            edzed.TimeDate(None, utc=utc)
            names.append(('cron', utc, '_cron_utc' if utc else '_cron_local'))
            lines.append(f"ext name cron {1 if utc else 0}")
            pending.append((len(trace), '_cron_utc' if utc else '_cron_local'))
            trace.append(None)

    async def main(loop):
        simtask = asyncio.create_task(circuit.run_forever())
        try:
            await circuit.wait_init()
        except Exception:
            pass
        await vtime.settle(loop)
        try:
            await circuit.shutdown()
        except Exception:
            pass

    vtime.run(main)
    existing = {b.name for b in circuit.getblocks()}
    # reserved names are created by the resolver / finalize: look them up in the real circuit now
    for i, name in pending:
        trace[i] = (f"1 {name.encode().hex()} ext={1 if name.startswith('_ext_') else 0}"
                    if name in existing else f'missing {name}')
    internal = [(src_blk, etype, data.get('source')) for src_blk, etype, data in log]
    tags = ['kind=names'] + sorted({f'name={n[0]}' for n in names})
    return {'lines': lines, 'trace': trace, 'tags': tags, 'nontrivial': need_run or bool(names),
            'sends': [], 'life': [], 'internal': internal, 'names': names}


def run_impl(scn):
    return run_send(scn) if scn['kind'] == 'send' else run_names(scn)


# ---------------------------------------------------------------- oracle

# the circuit is running in these phases: a task created for shutdown() has not run yet, a requested
# cancellation has not been delivered yet
READY_PHASES = {'initialising', 'running', 'cancelRequested', 'aborting:shutdown', 'aborting:cancel'}


def oracle(scn, res):
    out = []
    for r in res['sends']:
        if r['ctor'] == 'accepted-non-sblock':
            out.append({'clause': 'ctor_checks', 'what': f"ExtEvent accepted the destination {r['what']}"})
        if r['ctor'] != 'ok':
            continue
        if not r['default_source'].startswith('_ext_'):
            out.append({'clause': 'ext_source_prefixed', 'what': f"default source {r['default_source']!r}"})
        # delivered iff the circuit is running (phase label from the scenario, not from is_ready())
        should = r['phase'] in READY_PHASES
        src = r['sent'].get('source', '<absent>')
        bad_source = src != '<absent>' and not isinstance(src, str)
        if not should:
            if r['result'] != 'InvalidState' or r['delivered']:
                out.append({'clause': 'send_delivers_iff_ready',
                            'what': f"phase {r['phase']}: send -> {r['result']}, delivered {r['delivered']}"})
            continue
        if bad_source:
            if r['result'] != 'TypeError' or r['delivered']:
                out.append({'clause': 'non_string_source_refused', 'what': f"source {src!r}: {r['result']}"})
            continue
        if r['result'] != 'ret' or len(r['delivered']) != 1:
            out.append({'clause': 'send_delivers_iff_ready',
                        'what': f"phase {r['phase']}: send -> {r['result']}, delivered {r['delivered']}"})
            continue
        got = r['delivered'][0][2]
        want_ret = ('R', r['delivered_index'])
        if r['ret'] != want_ret:
            out.append({'clause': 'returns_handler_result',
                        'what': f"send() returned {r['ret']!r}, the handler of {r['delivered'][0][0]} returned {want_ret!r}"})
        gsrc = got.get('source')
        want_src = (r['default_source'] if src == '<absent>' else (src if src.startswith('_ext_') else '_ext_' + src))
        if not isinstance(gsrc, str) or not gsrc.startswith('_ext_') or gsrc != want_src:
            out.append({'clause': 'ext_source_prefixed', 'what': f"sent source {src!r}, delivered {gsrc!r}"})
        want = dict(r['sent'])
        want['source'] = want_src
        if r['args']:
            want['value'] = r['args'][0]
        if got != want:
            out.append({'clause': 'data_unchanged_otherwise', 'what': f"sent {r['sent']} {r['args']}, delivered {got}"})
    # readiness after every life-cycle step, against the phase reached so far
    # (covered by the per-send check above; here: never ready once it was refused after a start)
    seen_stop = False
    for op, ready in res['life']:
        if op == 'eager-refused' and ready:
            out.append({'clause': 'send_delivers_iff_ready', 'what': 'is_ready() True after a refused start'})
        if any(k in op for k in ('abort', 'handlerErr', 'ctrlAbort', 'ctrlShutdown')):
            seen_stop = True
        if seen_stop and ready:
            out.append({'clause': 'send_delivers_iff_ready', 'what': f'is_ready() True after a stop ({op})'})
            break
    # internal events never carry the external mark
    for blk, etype, source in res['internal']:
        if isinstance(source, str) and source.startswith('_ext_'):
            nm = [n for n in res['names'] if n[2] == source]
            shape = {}
            if nm and nm[0][0] == 'auto':
                shape = {'auto_named': True, 'class_name_marked': nm[0][1] == 'ext' or nm[0][1].startswith('ext_')}
            out.append({'clause': 'internal_source_never_ext',
                        'what': f"internal event from block {source!r} carries a source beginning with '_ext_'",
                        'sig': shape})
    for kind, arg, name in res['names']:
        if kind == 'user' and name is not None and name.startswith('_'):
            out.append({'clause': 'internal_source_never_ext', 'what': f'user-defined name {name!r} accepted'})
    return out
