"""C14 -- external events enter only a running circuit and are always marked as external.

Correspondence with lean/EdzedModel/ExtEvent.lean (+ the life-cycle model of ErrorReg.lean):
  * 'send' scenarios: a real circuit is driven into one of the life-cycle phases (not started, aborted before
    start, task created, initialising, running, cancellation requested, aborting / cleaning up / finished after
    every kind of stop), then ExtEvent objects are constructed and sent with all data shapes; constructor result,
    is_ready() after every life-cycle step, exception or the data recorded by the destination are compared;
  * 'names' scenarios: blocks named in every possible way (user names, automatic names of arbitrary classes,
    _ctrl, _not_NAME, _cron_*) send internal events; names and the sources seen by a probe are compared.
  * 'ctor' scenarios (lean/EdzedModel/BlkCtor.lean): the constructors themselves -- Block / SBlock / CBlock with every
    kind of name, `_reserved`, comment, debug, x_ / X_ / refused keywords, initdef with and without
    init_from_value (real method, the two dummies, a data attribute, a property that raises), classes deriving from each other (automatic
    names count the instances of the class), duplicates, a finalized / aborted circuit; ExtEvent with positional
    and keyword arguments; Const (shared instances, unhashable values, UNDEF); get_circuit / reset_circuit from
    "no circuit at all"; is_current_task inside / outside the simulation task.  Compared: exception class or the
    name, the sorted list of instance attributes, comment / debug / initdef / x attributes, the stored source,
    the names registered in the circuit and its is_ready / finalized / error state.
"""
import asyncio
import itertools

import edzed

from .. import vtime
from ..enc import enc, enc_data
from ..runner import shrink_ops

ID = 'C14'
RULE = ("send: all life-cycle phases (notStarted, abortedBeforeStart, taskCreated, initialising, running, "
        "finalizedNotStarted/finalizedTaskCreated = after an explicit Circuit.finalize(), "
        "cancelRequested, and aborting/cleaningUp/finished after each stop kind: abort(), handler error, control "
        "abort/shutdown events, shutdown(), bare cancel) x constructor arguments (6 destination kinds, valid and "
        "invalid event types, default/plain/marked/empty/non-string default source) x data shapes (positional value "
        "absent/int/None/str/tuple; source item absent, plain, already marked, near-miss prefixes, empty, non-string; "
        "other items incl. items named like parameters of the methods on the way: etype, data, handler, dest) x destination block kinds (generic _event, specific handler, Input.put) -- the phase x "
        "source-shape x value product is enumerated completely, the other dimensions are random; "
        "names: user names incl. reserved/empty ones, automatic names of classes called Probe/ext/Ext/extra/ext_x/"
        "e/ex/..., _ctrl, _not_NAME, _cron_utc/_cron_local; "
        "ctor: random sequences of constructor calls (Block/SBlock/CBlock x name shapes x _reserved truth values x "
        "comment/debug x accepted and refused keywords x initdef x init_from_value kinds x class hierarchies; "
        "ExtEvent argument shapes; Const values; get/reset_circuit; finalize/abort before; is_current_task contexts). "
        "distinct = hash of (lines, trace); non-trivial = at "
        "least one event delivered or one block created")
ASSUMPTIONS = [
    "user filters that rewrite the 'source' item are user code and outside the claim",
    "the destination's handler is a probe; what the handler does with the data belongs to other properties",
]
EXHAUSTIVE = {'quick': False, 'thorough': False}

STOP_KINDS = ['abort', 'handler', 'ctrlAbort', 'ctrlShutdown', 'shutdown', 'cancel']
PHASES = (['notStarted', 'abortedBeforeStart', 'taskCreated', 'initialising', 'running', 'cancelRequested',
           'abortedStartFinished', 'eagerRefused', 'finalizedNotStarted', 'finalizedTaskCreated']
          + [f'{p}:{k}' for p in ('aborting', 'stopping1', 'cleaningUp', 'finished') for k in STOP_KINDS])
# 'aborting:K'  = right after the stop K was requested, in the same step of the caller;
# 'stopping1:K' = one event-loop iteration later (a task created for shutdown() has made its first step, a
#                 requested cancellation has been delivered)
SOURCES = ['<absent>', 'src', '_ext_x', '', '_ext', '_ext_', '_ext__', 'ext_', '_Ext_a', 'pump_ext_1', ' _ext_d',
           '__ext_', 5, None, ('t',)]
FRAGMENTS = ['_ext_', '_ext', 'ext_', '_', 'a', ' ', 'E', 'x_', '_EXT_', 'ext']


def rand_source(rng):
    """source strings assembled from fragments of the prefix: near misses at every position"""
    return ''.join(rng.choice(FRAGMENTS) for _ in range(rng.randint(1, 4)))

VALUES = ['<absent>', 7, None, 'v', (1, 2)]
CTOR_SOURCES = ['<default>', 'abc', '_ext_abc', '', '_ext', 5, None]
ETYPES = ['ev', 'ev', 'ev', '', 5]
DESTS = ['sblockObj', 'sblockName', 'cblockObj', 'cblockName', 'unknownName', 'notABlock']
CLASS_NAMES = ['Probe2', 'ext', 'Ext', 'extra', 'ext_x', 'e', 'ex', 'ext_', 'X_ext_', 'exT']


def recipe(phase):
    base, _, kind = phase.partition(':')
    if base == 'notStarted':
        return []
    if base == 'abortedBeforeStart':
        return ['preabort']
    if base == 'eagerRefused':
        # the loop uses asyncio.eager_task_factory: run_forever() refuses to start (RuntimeError)
        return ['eager']
    if base == 'taskCreated':
        return ['create']
    # an explicit Circuit.finalize() (documented: to inspect the connections before the start) changes nothing
    if base == 'finalizedNotStarted':
        return ['finalize']
    if base == 'finalizedTaskCreated':
        return ['finalize', 'create']
    if base == 'initialising':
        return ['create', 'settle0']
    if base == 'abortedStartFinished':
        return ['preabort', 'create', 'settle0', 'advance']
    run = ['create', 'wait_init']
    if base == 'running':
        return run
    if base == 'cancelRequested':
        return run + ['rawCancel']
    if base == 'aborting':
        return run + [kind if kind != 'cancel' else 'cancel']
    if base == 'stopping1':
        return run + [kind, 'yield1']
    if base == 'cleaningUp':
        return run + [kind, 'settle']
    if base == 'finished':
        return run + [kind, 'settle', 'advance']
    raise AssertionError(phase)


def scenarios(rng, tier):
    def send(dest_block=None, **kw):
        s = {'dest': rng.choice(['sblockObj', 'sblockName']), 'etype': 'ev', 'csrc': rng.choice(CTOR_SOURCES[:5]),
             'value': '<absent>', 'source': '<absent>', 'extra': {},
             'block': dest_block or rng.choice(['probe', 'probeh', 'loginput', 'pinput'])}
        s.update(kw)
        return s
    # phase x source shape x value: complete
    for phase in PHASES:
        sends = [send(source=src, value=val, extra=rng.choice([{}, {'a': 1}, {'b': None, 'sourcex': 's'},
                                                                 {'etype': 'fault', 'data': 3}]))
                 for src in SOURCES for val in VALUES]
        rng.shuffle(sends)
        for i in range(0, len(sends), 12):
            yield {'kind': 'send', 'phase': phase, 'ops': sends[i:i + 12]}
    # a SUCCESSOR circuit is running (reset_circuit() after the end, new blocks, started): an ExtEvent aimed at a
    # block of the FINISHED circuit must still be refused -- "the circuit" of the property is the destination's
    for kind in STOP_KINDS:
        sends = [send(dest='sblockObj', source=src, value=val) for src in ('<absent>', 'src', '_ext_x') for val in VALUES[:3]]
        rng.shuffle(sends)
        yield {'kind': 'send', 'phase': f'finished:{kind}', 'successor': True, 'ops': sends[:6]}
    # constructor arguments
    for phase in ('notStarted', 'running', 'finished:abort'):
        ops = [send(dest=d, etype=e, csrc=c) for d in DESTS for e in ('ev', '', 5) for c in CTOR_SOURCES]
        for i in range(0, len(ops), 21):
            yield {'kind': 'send', 'phase': phase, 'ops': ops[i:i + 21]}
    n = 150 if tier == 'quick' else 30000
    for _ in range(n):
        phase = rng.choice(PHASES)
        ops = []
        for _ in range(rng.randint(1, 6)):
            extra = {k: rng.choice([0, 'x', None, (1,)])
                     for k in rng.sample(['a', 'b', 'value2', 'sourcex', 'src', 'etype', 'data', 'handler', 'dest'],
                                         rng.randint(0, 3))}
            ops.append(send(dest=rng.choice(DESTS[:2] * 4 + DESTS), etype=rng.choice(ETYPES),
                            csrc=rng.choice(CTOR_SOURCES + [rand_source(rng)] * 4), value=rng.choice(VALUES),
                            source=rng.choice(SOURCES + [rand_source(rng)] * 8), extra=extra))
        yield {'kind': 'send', 'phase': phase, 'ops': ops}
    yield from ctor_scenarios(rng, tier)
    # names
    user = ['a', 'x_1', '_x', '__', '', '_ext_', '_ext_me', 'ext_', 'e', '_not_a', '_ctrl2', 'Ext', ' ', '1']
    for cls in CLASS_NAMES:
        yield {'kind': 'names', 'ops': [['auto', cls], ['auto', cls], ['user', 'u1'], ['auto', cls]]}
    yield {'kind': 'names', 'ops': [['user', u] for u in user]}
    yield {'kind': 'names', 'ops': [['ctrl'], ['notOf', 'a'], ['user', 'a'], ['cron', 0], ['cron', 1], ['notOf', 'n1'],
                                    ['auto', 'Probe2'], ['notOf', '_x']]}
    for _ in range(40 if tier == 'quick' else 4000):
        ops = []
        for _ in range(rng.randint(1, 6)):
            r = rng.random()
            if r < 0.4:
                ops.append(['auto', rng.choice(CLASS_NAMES)])
            elif r < 0.7:
                ops.append(['user', rng.choice(user) + rng.choice(['', '', 'q', '_', '9'])])
            elif r < 0.8:
                ops.append(['notOf', rng.choice(['a', 'u1', 'zz'])])
            elif r < 0.9:
                ops.append(['cron', rng.randint(0, 1)])
            else:
                ops.append(['ctrl'])
        yield {'kind': 'names', 'ops': ops}


def shrink(scn):
    yield from shrink_ops(scn)


# ---------------------------------------------------------------- blocks

class Probe(edzed.SBlock):
    def __init__(self, *args, log, **kwargs):
        self.log = log
        super().__init__(*args, **kwargs)

    def _event(self, etype, data):
        self.log.append((self.name, etype, dict(data)))
        return ('R', len(self.log))

    def init_regular(self):
        self.set_output(None)


class ProbeH(edzed.SBlock):
    def __init__(self, *args, log, **kwargs):
        self.log = log
        super().__init__(*args, **kwargs)

    def _event_ev(self, *, source, **data):
        self.log.append((self.name, 'ev', dict(data, source=source)))
        return ('R', len(self.log))

    def init_regular(self):
        self.set_output(None)


class LogInput(edzed.Input):
    def __init__(self, *args, log, **kwargs):
        self.log = log
        super().__init__(*args, **kwargs)

    def _event_ev(self, **data):
        self.log.append((self.name, 'ev', dict(data)))
        return ('R', len(self.log))


class Boom(edzed.SBlock):
    def _event_boom(self, **_data):
        raise RuntimeError('src1')

    def init_regular(self):
        self.set_output(None)


class SlowInit(edzed.AddonAsync, edzed.SBlock):
    async def init_async(self):
        await asyncio.sleep(1.0)
        self.set_output(1)


class SlowStop(edzed.AddonAsync, edzed.SBlock):
    def init_regular(self):
        self.set_output(None)

    async def stop_async(self):
        await asyncio.sleep(1.0)


def _val(x):
    return tuple(x) if isinstance(x, list) else x


# ---------------------------------------------------------------- 'send' scenarios

def run_send(scn):
    edzed.reset_circuit()
    circuit = edzed.get_circuit()
    log = []
    circuit.set_persistent_data({})
    blocks = {'probe': Probe('probe', log=log), 'probeh': ProbeH('probeh', log=log),
              'loginput': LogInput('loginput', log=log, initdef=0),
              # a destination with ACTIVE persistence (the event goes through AddonPersistence.event)
              'pinput': LogInput('pinput', log=log, initdef=0, persistent=True)}
    boom = Boom('boom')
    edzed.ControlBlock('_ctrl', _reserved=True)
    SlowInit('slowinit', init_timeout=5)
    SlowStop('slowstop', stop_timeout=5)
    cblk = edzed.Not('cnot').connect('loginput')
    lines, trace, sends, life = ['ext reset'], ['ok'], [], []

    def life_line(op):
        lines.append(op)
        trace.append(f'ready={1 if circuit.is_ready() else 0}')
        life.append((op, circuit.is_ready()))

    async def main(loop):
        simtask = None
        for step in recipe(scn['phase']):
            if step == 'preabort':
                circuit.abort(RuntimeError('src1'))
                life_line('ext life abort x1')
            elif step == 'eager':
                loop.set_task_factory(asyncio.eager_task_factory)
                try:
                    refused = asyncio.ensure_future(circuit.run_forever())
                    try:
                        await refused
                    except RuntimeError:
                        pass
                finally:
                    loop.set_task_factory(None)
                await asyncio.sleep(0)
                lines.append('ext reset')       # the start was refused: the circuit is as before the start
                trace.append('ok')
                life.append(('eager-refused', circuit.is_ready()))
            elif step == 'finalize':
                circuit.finalize()
                life.append(('finalize', circuit.is_ready()))
            elif step == 'create':
                simtask = asyncio.create_task(circuit.run_forever())
            elif step == 'settle0':
                await vtime.settle(loop)
                life_line('ext life start -')
                life_line('ext life-settle')
            elif step == 'wait_init':
                await circuit.wait_init()
                await vtime.settle(loop)
                life_line('ext life start -')
            elif step == 'rawCancel' or step == 'cancel':
                simtask.cancel()
                life_line('ext life rawCancel')
            elif step == 'abort':
                circuit.abort(RuntimeError('src1'))
                life_line('ext life abort x1')
            elif step == 'handler':
                try:
                    edzed.ExtEvent(boom, 'boom').send()
                except RuntimeError:
                    pass
                life_line('ext life handlerErr 1')
            elif step == 'ctrlAbort':
                edzed.ExtEvent('_ctrl', 'abort').send(error=RuntimeError('src1'))
                life_line('ext life ctrlAbort 1')
            elif step == 'ctrlShutdown':
                edzed.ExtEvent('_ctrl', 'shutdown').send()
                life_line('ext life ctrlShutdown')
            elif step == 'shutdown':
                asyncio.create_task(circuit.shutdown())
                life_line('ext life shutdownTask')
            elif step == 'yield1':
                await asyncio.sleep(0)
                life_line('ext life tick')
            elif step == 'settle':
                await vtime.settle(loop)
                life_line('ext life-settle')
            elif step == 'advance':
                await vtime.advance_to(loop, loop.now_us + 3_000_000)
                life_line('ext life finish')
                life_line('ext life-settle')
            else:
                raise AssertionError(step)
        succ = None
        if scn.get('successor'):
            # the finished circuit is replaced by a new, running one
            assert simtask is not None
            try:
                await simtask
            except BaseException:
                pass
            edzed.reset_circuit()
            succ = edzed.get_circuit()
            Probe('probe_b', log=[])
            succ_task = asyncio.create_task(succ.run_forever())
            await succ.wait_init()
            assert succ.is_ready() and not circuit.is_ready()
        for s in scn['ops']:
            do_send(s)
        if succ is not None:
            try:
                await succ.shutdown()
            except Exception:
                pass
            try:
                await succ_task
            except BaseException:
                pass
        if simtask is not None:
            if not simtask.done():
                try:
                    await circuit.shutdown()
                except Exception:
                    pass
            try:
                await simtask
            except BaseException:
                pass

    def do_send(s):
        kind = s['dest']
        target = blocks[s['block']]
        dest = {'sblockObj': target, 'sblockName': target.name, 'cblockObj': cblk, 'cblockName': 'cnot',
                'unknownName': 'nobody', 'notABlock': 3.14}[kind]
        etype = s['etype']
        kwargs = {} if s['csrc'] == '<default>' else {'source': _val(s['csrc'])}
        csrc_enc = 's' + '_ext_'.encode().hex() if s['csrc'] == '<default>' else enc(_val(s['csrc']))
        lines.append(f"ext ctor {kind} {enc(etype)} {csrc_enc}")
        try:
            ev = edzed.ExtEvent(dest, etype, **kwargs)
        except TypeError:
            trace.append('TypeError')
            sends.append({'ctor': 'TypeError'})
            return
        except KeyError:
            trace.append('KeyError')
            sends.append({'ctor': 'KeyError'})
            return
        if not isinstance(dest, (str, edzed.SBlock)) or (isinstance(dest, str) and dest == 'cnot'):
            trace.append('ok-for-non-sblock')
            sends.append({'ctor': 'accepted-non-sblock', 'what': repr(dest)})
            return
        trace.append('ok ' + ev._source.encode().hex())
        data = {k: _val(v) for k, v in s['extra'].items()}
        if s['source'] != '<absent>':
            data['source'] = _val(s['source'])
        args = () if s['value'] == '<absent>' else (_val(s['value']),)
        lines.append(f"ext send {ev._source.encode().hex()} {'-' if not args else enc(args[0])} {enc_data(data)}")
        before = len(log)
        ready = circuit.is_ready()
        rec = {'ctor': 'ok', 'default_source': ev._source, 'ready': ready, 'sent': dict(data), 'args': args,
               'phase': scn['phase']}
        try:
            ret = ev.send(*args, **data)
        except edzed.EdzedInvalidState:
            trace.append('InvalidState')
            rec.update(result='InvalidState', delivered=log[before:])
        except TypeError:
            trace.append('TypeError')
            rec.update(result='TypeError', delivered=log[before:])
        except Exception as err:        # nothing else is documented
            trace.append('raised ' + type(err).__name__)
            rec.update(result='raised ' + type(err).__name__, delivered=log[before:])
        else:
            got = log[before:]
            if len(got) == 1:
                trace.append('delivered ' + enc_data(got[0][2]))
            else:
                trace.append(f'delivered-{len(got)}-times')
            rec.update(result='ret', ret=ret, delivered=got, delivered_index=len(log))
        sends.append(rec)

    vtime.run(main)
    ndel = sum(1 for r in sends if r.get('result') == 'ret')
    tags = [f"phase={scn['phase']}"] + (['successor-circuit-running'] if scn.get('successor') else []) + sorted({f"send={r.get('result', 'ctor-' + r['ctor'])}" for r in sends})
    return {'lines': lines, 'trace': trace, 'tags': tags, 'nontrivial': ndel > 0 or len(sends) > 0,
            'sends': sends, 'life': life, 'internal': [], 'names': []}


# ---------------------------------------------------------------- 'names' scenarios

def run_names(scn):
    edzed.reset_circuit()
    circuit = edzed.get_circuit()
    log = []
    Probe('probe', log=log)
    lines, trace, names, pending = ['ext reset'], ['ok'], [], []
    classes = {}
    need_run = False
    created_user = set()
    counts = {}
    for op in scn['ops']:
        kind = op[0]
        if kind == 'user':
            name = op[1]
            lines.append(f"ext name user {name.encode().hex() or '-'}")
            if name in created_user or name == 'probe':
                lines.pop()
                continue
            try:
                blk = Probe(name, log=log, on_output=edzed.Event('probe', 'ev'))
            except ValueError:
                trace.append(f"0 {name.encode().hex()} ext={1 if name.startswith('_ext_') else 0}")
                names.append(('user', name, None))
                continue
            created_user.add(name)
            need_run = True
            trace.append(f"1 {blk.name.encode().hex()} ext={1 if blk.name.startswith('_ext_') else 0}")
            names.append(('user', name, blk.name))
        elif kind == 'auto':
            cls = classes.get(op[1])
            if cls is None:
                cls = classes[op[1]] = type(op[1], (Probe,), {})
            n = counts.get(op[1], 0)
            counts[op[1]] = n + 1
            blk = cls(None, log=log, on_output=edzed.Event('probe', 'ev'))
            need_run = True
            lines.append(f"ext name auto {op[1].encode().hex()} {str(n).encode().hex()}")
            trace.append(f"1 {blk.name.encode().hex()} ext={1 if blk.name.startswith('_ext_') else 0}")
            names.append(('auto', op[1], blk.name))
        elif kind == 'ctrl':
            if '_ctrl' in [b.name for b in circuit.getblocks()] or counts.get('<ctrl>'):
                continue
            counts['<ctrl>'] = 1
            Probe(None, log=log, on_output=edzed.Event('_ctrl', 'nonexistent', efilter=lambda d: False))
            counts['Probe'] = counts.get('Probe', 0)      # (class Probe itself is not in CLASS_NAMES)
            names.append(('ctrl', None, '_ctrl'))
            lines.append('ext name ctrl')
            pending.append((len(trace), '_ctrl'))
            trace.append(None)      # filled in after finalize
        elif kind == 'notOf':
            target = op[1]
            if target not in created_user and not target.startswith('_'):
                Probe(target, log=log)
                created_user.add(target)
            if target.startswith('_'):
                # '_not__x' is not a shortcut: the resolver does not create an inverter for it
                continue
            edzed.Not(None).connect('_not_' + target)
            names.append(('notOf', target, '_not_' + target))
            lines.append(f"ext name notOf {target.encode().hex()}")
            pending.append((len(trace), '_not_' + target))
            trace.append(None)
        elif kind == 'cron':
            utc = bool(op[1])
            edzed.TimeDate(None, utc=utc)
            names.append(('cron', utc, '_cron_utc' if utc else '_cron_local'))
            lines.append(f"ext name cron {1 if utc else 0}")
            pending.append((len(trace), '_cron_utc' if utc else '_cron_local'))
            trace.append(None)

    async def main(loop):
        simtask = asyncio.create_task(circuit.run_forever())
        try:
            await circuit.wait_init()
        except Exception:
            pass
        await vtime.settle(loop)
        try:
            await circuit.shutdown()
        except Exception:
            pass

    vtime.run(main)
    existing = {b.name for b in circuit.getblocks()}
    # reserved names are created by the resolver / finalize: look them up in the real circuit now
    for i, name in pending:
        trace[i] = (f"1 {name.encode().hex()} ext={1 if name.startswith('_ext_') else 0}"
                    if name in existing else f'missing {name}')
    internal = [(src_blk, etype, data.get('source')) for src_blk, etype, data in log]
    tags = ['kind=names'] + sorted({f'name={n[0]}' for n in names})
    return {'lines': lines, 'trace': trace, 'tags': tags, 'nontrivial': need_run or bool(names),
            'sends': [], 'life': [], 'internal': internal, 'names': names}


def run_impl(scn):
    if scn['kind'] == 'ctor':
        return run_ctor(scn)
    return run_send(scn) if scn['kind'] == 'send' else run_names(scn)



# ---------------------------------------------------------------- 'ctor' scenarios

CT_NAMES = [None, None, 'a', 'b', 'x_1', '_x', '_ext_1', '_ext_', '_', '', 'ext', 5, ['t'], {'undef': 1}, True,
            {'blk': 'a'}]
CT_RESERVED = ['<absent>', False, True, 0, 1, '', 'x', None, [], ['t'], {'undef': 1}]
CT_CLASSES = [('K', None), ('ext', None), ('Sub', 'ext'), ('ext_a', None), ('Ext', None), ('e', None), ('K2', 'K')]
CT_KEYS = ['x_a', 'X_b', 'x_', 'xa', 'colour', '_x', 'X', 'name2', 'initdef', 'on_every_output', 'x_a2']
CT_VALUES = [None, 0, 1, 'v', '', ['t', 1], True, False, {'undef': 1}, {'list': [1]}]
CT_IFV = ['n', 'n', 'm', 'd', 'a', 'x', 'p', 'r']


def ctor_scenarios(rng, tier):
    def block_op():
        kind = rng.choice(['s', 's', 's', 'c', 'b'])
        cls, base = rng.choice(CT_CLASSES)
        args = [rng.choice(CT_NAMES)] if rng.random() < 0.85 else rng.choice([[], ['a', 'b']])
        kw = {}
        if args == [] and rng.random() < 0.7:
            kw['name'] = rng.choice(CT_NAMES)
        elif rng.random() < 0.05:
            kw['name'] = 'dup'
        r = rng.choice(CT_RESERVED)
        if r != '<absent>':
            kw['_reserved'] = r
        if rng.random() < 0.4:
            kw['comment'] = rng.choice(CT_VALUES)
        if rng.random() < 0.4:
            kw['debug'] = rng.choice(CT_VALUES)
        if rng.random() < 0.3:
            kw['on_output'] = rng.choice([None, {'ev': 1}, [], 5, 'x', {'blk': 'a'}])
        if kind == 's' and rng.random() < 0.3:
            kw['on_every_output'] = rng.choice([None, {'ev': 1}, 7])
        for k in rng.sample(CT_KEYS, rng.choice([0, 0, 1, 1, 2, 3])):
            kw[k] = rng.choice(CT_VALUES)
        return {'op': 'block', 'kind': kind, 'cls': cls, 'base': base, 'ifv': rng.choice(CT_IFV) if kind == 's' else 'n',
                'args': args, 'kw': kw}

    def ext_op():
        dest = rng.choice(['a', 'b', 'nobody', {'blk': 'a'}, {'blk': 'b'}, 5, None, {'ev': 1}, '_ext_0'])
        shape = rng.random()
        etype = rng.choice(['ev', 'put', '', 5, None])
        source = rng.choice(['s', '', '_ext_', '_ext_q', '_ext', None, 5, ['t']])
        if shape < 0.25:
            return {'op': 'ext', 'args': [dest], 'kw': {}}
        if shape < 0.5:
            return {'op': 'ext', 'args': [dest, etype], 'kw': {'source': source}}
        if shape < 0.75:
            return {'op': 'ext', 'args': [dest, etype, source], 'kw': {}}
        if shape < 0.85:
            return {'op': 'ext', 'args': [], 'kw': {'dest': dest, 'etype': etype, 'source': source}}
        if shape < 0.9:
            return {'op': 'ext', 'args': [dest, etype, source, 1], 'kw': {}}
        if shape < 0.95:
            return {'op': 'ext', 'args': [dest], 'kw': {'dest': dest}}
        return {'op': 'ext', 'args': [dest], 'kw': {'colour': 1}}

    fixed = [
        [{'op': 'reset', 'how': 'none'}, {'op': 'getcircuit'}, {'op': 'getcircuit'}, {'op': 'resetcircuit'},
         {'op': 'getcircuit'}],
        [{'op': 'reset', 'how': 'none'}, {'op': 'resetcircuit'}, {'op': 'getcircuit'}],
        [{'op': 'reset', 'how': 'none'},
         {'op': 'block', 'kind': 's', 'cls': 'ext', 'base': None, 'ifv': 'n', 'args': [None], 'kw': {}},
         {'op': 'block', 'kind': 's', 'cls': 'Sub', 'base': 'ext', 'ifv': 'n', 'args': [None], 'kw': {}},
         {'op': 'block', 'kind': 's', 'cls': 'ext', 'base': None, 'ifv': 'n', 'args': [None], 'kw': {}},
         {'op': 'block', 'kind': 's', 'cls': 'Sub', 'base': 'ext', 'ifv': 'n', 'args': ['_ext_5'], 'kw': {'_reserved': 1}},
         {'op': 'block', 'kind': 's', 'cls': 'ext', 'base': None, 'ifv': 'n', 'args': [None], 'kw': {}},
         {'op': 'getcircuit'}],
    ]
    fixed += [[{'op': 'reset', 'how': 'api'}, {'op': 'iscurrent', 'ctx': c}] for c in ('nostart', 'outside', 'inside', 'after')]
    fixed += [[{'op': 'reset', 'how': 'api'}, {'op': 'const', 'v': v1}, {'op': 'const', 'v': v2}, {'op': 'const', 'v': v1}]
              for v1, v2 in ((1, True), ({'list': [1]}, {'list': [1]}), ('a', 'a'), ({'undef': 1}, None), (['t'], ['t']),
                             (0, False), ({'blk': 'zz'}, 1))]
    for ops in fixed:
        yield {'kind': 'ctor', 'ops': ops}
    n = 120 if tier == 'quick' else 12000
    for _ in range(n):
        ops = [{'op': 'reset', 'how': rng.choice(['none', 'api', 'api'])}]
        # two plain blocks first, so that names and objects exist
        for nm in ('a', 'b'):
            if rng.random() < 0.8:
                ops.append({'op': 'block', 'kind': rng.choice(['s', 'c']), 'cls': 'K', 'base': None, 'ifv': 'n',
                            'args': [nm], 'kw': {}})
        for _ in range(rng.randint(2, 9)):
            r = rng.random()
            if r < 0.55:
                ops.append(block_op())
            elif r < 0.8:
                ops.append(ext_op())
            elif r < 0.86:
                ops.append({'op': 'const', 'v': rng.choice(CT_VALUES + [{'blk': 'a'}])})
            elif r < 0.9:
                ops.append({'op': 'getcircuit'})
            elif r < 0.93:
                ops.append({'op': 'resetcircuit'})
            elif r < 0.96:
                ops.append({'op': 'finalize'})
            else:
                ops.append({'op': 'abort'})
        yield {'kind': 'ctor', 'ops': ops}


class _EvLike:
    """an Event-like object: it has a `send` attribute (that is all `event_tuple` asks for)"""
    def send(self, *args, **kwargs):
        return None


def run_ctor(scn):
    from edzed import simulator as sim
    lines, trace, recs = [], [], []
    classes, consts, circuits = {}, [], []

    def circuit_line():
        c = sim._current_circuit
        if c is None:
            return 'none'
        if not any(c is x for x in circuits):
            circuits.append(c)
        b = lambda x: 1 if x else 0
        return (f"circ n={len(circuits)} ready={b(c.is_ready())} fin={b(c.is_finalized())} err={b(c.error is not None)} "
                f"blocks={','.join(n.encode().hex() for n in c._blocks)}")

    def note_circuit():
        c = sim._current_circuit
        if c is not None and not any(c is x for x in circuits):
            circuits.append(c)

    def value(x):
        """scenario value -> (python value, protocol token | None when it cannot be expressed)"""
        if isinstance(x, dict):
            if 'undef' in x:
                return edzed.UNDEF, 'vu'
            if 'list' in x:
                return list(x['list']), 'v' + enc(list(x['list']))
            if 'ev' in x:
                return _EvLike(), 'e'
            if 'blk' in x:
                c = sim._current_circuit
                blk = c._blocks.get(x['blk']) if c is not None else None
                if blk is None:
                    return None, None
                return blk, 'b' + x['blk'].encode().hex()
        if isinstance(x, list):
            return tuple(x), 'v' + enc(tuple(x))
        return x, 'v' + enc(x)

    def values(args, kw):
        pa, ta, pk, tk = [], [], {}, []
        for a in args:
            v, t = value(a)
            if t is None:
                return None
            pa.append(v)
            ta.append(t)
        for k in kw:
            v, t = value(kw[k])
            if t is None:
                return None
            pk[k] = v
            tk.append(f'{k.encode().hex()}={t}')
        return pa, ('|'.join(ta) or '-'), pk, ('|'.join(tk) or '-')

    def tok(v):
        if isinstance(v, edzed.Block):
            return 'o' + v.name.encode().hex()
        try:
            return 'v' + enc(v)
        except ValueError:
            return '?'

    def get_class(kind, cls, base, ifv):
        """one Python class per NAME (the model identifies classes by their __name__): the first use decides the
        kind, the base and the init_from_value member; returns (class, kind, base, ifv) as they really are"""
        if cls in classes:
            return classes[cls]
        root = {'s': edzed.SBlock, 'c': edzed.CBlock, 'b': edzed.Block}[kind]
        parent = root
        if base:
            parent, kind, _pb, pifv = get_class(kind, base, None, 'n')
            if ifv == 'n':
                ifv = pifv          # inherited
        if kind != 's':
            ifv = 'n'
        ns = {}
        if kind == 'c':
            ns['calc_output'] = lambda self: None
        if ifv == 'm':
            ns['init_from_value'] = lambda self, value: None
        elif ifv == 'd':
            ns['init_from_value'] = edzed.SBlock.dummy_method
        elif ifv == 'a':
            ns['init_from_value'] = edzed.SBlock.dummy_async_method
        elif ifv == 'x':
            ns['init_from_value'] = 5
        elif ifv == 'p':
            def getter_a(self):
                raise AttributeError('no such thing')
            ns['init_from_value'] = property(getter_a)
        elif ifv == 'r':
            def getter_r(self):
                raise RuntimeError('broken property')
            ns['init_from_value'] = property(getter_r)
        classes[cls] = (type(cls, (parent,), ns), kind, base, ifv)
        return classes[cls]

    def exc_name(err):
        return type(err).__name__

    ops = list(scn['ops'])
    if not ops or ops[0]['op'] != 'reset':
        ops.insert(0, {'op': 'reset', 'how': 'api'})       # (a shrunk scenario may have lost its first operation)
    for op in ops:
        kind = op['op']
        if kind == 'reset':
            if op['how'] == 'none':
                edzed.reset_circuit()
                sim._current_circuit = None       # test set-up: the state of a freshly imported module
                circuits.clear()
                lines.append('ext w-reset')
                trace.append('ok')
            else:
                edzed.reset_circuit()
                edzed.get_circuit()     # (reset_circuit() does nothing when there is no circuit at all)
                circuits.clear()
                lines += ['ext w-reset', 'ext w-getcircuit']
                trace += ['ok', circuit_line()]
            classes.clear()
            consts.clear()
        elif kind == 'getcircuit':
            edzed.get_circuit()
            lines.append('ext w-getcircuit')
            trace.append(circuit_line())
        elif kind == 'resetcircuit':
            edzed.reset_circuit()
            classes.clear()
            lines.append('ext w-resetcircuit')
            trace.append(circuit_line())
        elif kind == 'finalize':
            edzed.get_circuit().finalize()
            lines.append('ext w-finalize')
            trace.append(circuit_line())
        elif kind == 'abort':
            edzed.get_circuit().abort(RuntimeError('src1'))
            lines.append('ext w-abort')
            trace.append(circuit_line())
        elif kind == 'block':
            vals = values(op['args'], op['kw'])
            if vals is None:
                continue
            pa, ta, pk, tk = vals
            cls, ckind, cbase, cifv = get_class(op['kind'], op['cls'], op['base'], op['ifv'])
            bases = ','.join(b.encode().hex() for b in ([cbase] if cbase else [])) or '-'
            lines.append(f"ext w-block {ckind} {op['cls'].encode().hex()} {bases} {cifv} {ta} {tk}")
            rec = {'op': 'block', 'args': op['args'], 'kw': op['kw'], 'cls': op['cls'], 'kind': ckind}
            try:
                blk = cls(*pa, **pk)
            except (TypeError, ValueError, RuntimeError, edzed.EdzedInvalidState) as err:
                trace.append(exc_name(err))
                rec['result'] = exc_name(err)
            else:
                attrs = vars(blk)
                xs = sorted(f'{k.encode().hex()}={tok(v)}' for k, v in attrs.items()
                            if k.startswith('x_') or k.startswith('X_'))
                trace.append(f"ok {blk.name.encode().hex()} attrs={','.join(sorted(attrs))} "
                             f"comment={tok(blk.comment)} debug={tok(blk.debug)} "
                             f"initdef={tok(attrs['initdef']) if 'initdef' in attrs else '-'} x={','.join(xs)}")
                rec.update(result='ok', name=blk.name, registered=blk.circuit._blocks.get(blk.name) is blk)
            note_circuit()
            recs.append(rec)
        elif kind == 'ext':
            vals = values(op['args'], op['kw'])
            if vals is None:
                continue
            pa, ta, pk, tk = vals
            lines.append(f'ext w-ext {ta} {tk}')
            rec = {'op': 'ext', 'args': op['args'], 'kw': op['kw']}
            try:
                ev = edzed.ExtEvent(*pa, **pk)
            except (TypeError, KeyError) as err:
                trace.append(exc_name(err))
                rec['result'] = exc_name(err)
            else:
                trace.append(f'ok {tok(ev._source)} dest={tok(ev._dest)} etype={tok(ev._etype)}')
                rec.update(result='ok', source=ev._source)
            note_circuit()
            recs.append(rec)
        elif kind == 'const':
            v, t = value(op['v'])
            if t is None:
                continue
            lines.append(f'ext w-const {t}')
            try:
                c = edzed.Const(v)
            except (ValueError, TypeError) as err:
                trace.append(exc_name(err))
            else:
                same = any(c is p for p in consts)
                consts.append(c)
                trace.append(f'ok same={1 if same else 0} out={tok(c.output)}')
        elif kind == 'iscurrent':
            trace_line = run_iscurrent(op['ctx'], lines)
            trace.append(trace_line)
            note_circuit()
    nblk = sum(1 for r in recs if r.get('result') == 'ok')
    tags = ['kind=ctor'] + sorted({f"ctor-{r['op']}={r['result']}" for r in recs})
    return {'lines': lines, 'trace': trace, 'tags': tags, 'nontrivial': bool(recs) or len(lines) > 2,
            'sends': [], 'life': [], 'internal': [], 'names': [], 'ctor': recs}


def run_iscurrent(ctx, lines):
    """Circuit.is_current_task() asked before the start, from another task while the simulation runs, from
    inside the simulation task (a block's init_regular), and after the end without a running loop"""
    circuit = edzed.get_circuit()
    seen = {}

    class Asker(edzed.SBlock):
        def init_regular(self):
            seen['inside'] = self.circuit.is_current_task()
            self.set_output(None)

    if ctx == 'nostart':
        lines.append('ext w-iscurrent - x')
        return '1' if circuit.is_current_task() else '0'
    Asker('asker')

    async def main(loop):
        simtask = asyncio.create_task(circuit.run_forever())
        await circuit.wait_init()
        seen['outside'] = circuit.is_current_task()
        await circuit.shutdown()
        try:
            await simtask
        except BaseException:
            pass

    vtime.run(main)
    if ctx == 'after':
        lines.append('ext w-iscurrent 1 x')
        return '1' if circuit.is_current_task() else '0'
    if ctx == 'outside':
        lines.append('ext w-iscurrent 1 2')
    else:
        lines.append('ext w-iscurrent 1 1')
    return '1' if seen[ctx] else '0'


# ---------------------------------------------------------------- oracle

# the circuit is running in these phases: a task created for shutdown() has not run yet, a requested
# cancellation has not been delivered yet
READY_PHASES = {'initialising', 'running', 'cancelRequested', 'aborting:shutdown', 'aborting:cancel'}


def oracle(scn, res):
    out = []
    for r in res['sends']:
        if r['ctor'] == 'accepted-non-sblock':
            out.append({'clause': 'ctor_checks', 'what': f"ExtEvent accepted the destination {r['what']}"})
        if r['ctor'] != 'ok':
            continue
        if not r['default_source'].startswith('_ext_'):
            out.append({'clause': 'ext_source_prefixed', 'what': f"default source {r['default_source']!r}"})
        # delivered iff the circuit is running (phase label from the scenario, not from is_ready())
        should = r['phase'] in READY_PHASES
        src = r['sent'].get('source', '<absent>')
        bad_source = src != '<absent>' and not isinstance(src, str)
        if not should:
            if r['result'] != 'InvalidState' or r['delivered']:
                out.append({'clause': 'send_delivers_iff_ready',
                            'what': f"phase {r['phase']}: send -> {r['result']}, delivered {r['delivered']}"})
            continue
        if bad_source:
            if r['result'] != 'TypeError' or r['delivered']:
                out.append({'clause': 'non_string_source_refused', 'what': f"source {src!r}: {r['result']}"})
            continue
        if r['result'] != 'ret' or len(r['delivered']) != 1:
            out.append({'clause': 'send_delivers_iff_ready',
                        'what': f"phase {r['phase']}: send -> {r['result']}, delivered {r['delivered']}"})
            continue
        got = r['delivered'][0][2]
        want_ret = ('R', r['delivered_index'])
        if r['ret'] != want_ret:
            out.append({'clause': 'returns_handler_result',
                        'what': f"send() returned {r['ret']!r}, the handler of {r['delivered'][0][0]} returned {want_ret!r}"})
        gsrc = got.get('source')
        want_src = (r['default_source'] if src == '<absent>' else (src if src.startswith('_ext_') else '_ext_' + src))
        if not isinstance(gsrc, str) or not gsrc.startswith('_ext_') or gsrc != want_src:
            out.append({'clause': 'ext_source_prefixed', 'what': f"sent source {src!r}, delivered {gsrc!r}"})
        want = dict(r['sent'])
        want['source'] = want_src
        if r['args']:
            want['value'] = r['args'][0]
        if got != want:
            out.append({'clause': 'data_unchanged_otherwise', 'what': f"sent {r['sent']} {r['args']}, delivered {got}"})
    # readiness after every life-cycle step, against the phase reached so far
    # (covered by the per-send check above; here: never ready once it was refused after a start)
    seen_stop = False
    for op, ready in res['life']:
        if op == 'eager-refused' and ready:
            out.append({'clause': 'send_delivers_iff_ready', 'what': 'is_ready() True after a refused start'})
        if any(k in op for k in ('abort', 'handlerErr', 'ctrlAbort', 'ctrlShutdown')):
            seen_stop = True
        if seen_stop and ready:
            out.append({'clause': 'send_delivers_iff_ready', 'what': f'is_ready() True after a stop ({op})'})
            break
    # internal events never carry the external mark
    for blk, etype, source in res['internal']:
        if isinstance(source, str) and source.startswith('_ext_'):
            nm = [n for n in res['names'] if n[2] == source]
            shape = {}
            if nm and nm[0][0] == 'auto':
                shape = {'auto_named': True, 'class_name_marked': nm[0][1] == 'ext' or nm[0][1].startswith('ext_')}
            out.append({'clause': 'internal_source_never_ext',
                        'what': f"internal event from block {source!r} carries a source beginning with '_ext_'",
                        'sig': shape})
    for r in res.get('ctor', []):
        if r['op'] == 'block' and r['result'] == 'ok':
            given = r['args'][0] if r['args'] else r['kw'].get('name')
            rsv = r['kw'].get('_reserved', False)
            falsy = rsv in (False, None, 0, '', []) or rsv == {'undef': 1}
            if isinstance(given, str) and given.startswith('_') and falsy:
                out.append({'clause': 'internal_source_never_ext',
                            'what': f"Block({given!r}, _reserved={rsv!r}) accepted a reserved name"})
            if given is None and not r['name'].startswith(f"_{r['cls']}_"):
                out.append({'clause': 'internal_source_never_ext', 'what': f"automatic name {r['name']!r} of class {r['cls']}"})
            if not r['registered']:
                out.append({'clause': 'ctor_checks', 'what': f"block {r['name']!r} is not registered in its circuit"})
            if not isinstance(r['name'], str) or not r['name']:
                out.append({'clause': 'ctor_checks', 'what': f"block name {r['name']!r}"})
            bad = [k for k in r['kw'] if k not in ('name', 'comment', 'on_output', '_reserved', 'debug', 'on_every_output',
                                                    'initdef') and not k.startswith(('x_', 'X_'))]
            if bad:
                out.append({'clause': 'ctor_checks', 'what': f"keyword(s) {bad} accepted"})
        if r['op'] == 'ext' and r['result'] == 'ok' and not (isinstance(r['source'], str) and r['source'].startswith('_ext_')):
            out.append({'clause': 'ext_source_prefixed', 'what': f"ExtEvent default source {r['source']!r}"})
    for kind, arg, name in res['names']:
        if kind == 'user' and name is not None and name.startswith('_'):
            out.append({'clause': 'internal_source_never_ext', 'what': f'user-defined name {name!r} accepted'})
    return out
