"""C13 -- interval notations: correspondence with lean/EdzedModel/Interval.lean + independent oracle."""
import datetime as dt
import itertools
import re

from edzed.blocklib import timeinterval as ti
from edzed.blocklib.timedate import TimeDate, TimeSpan

ID = 'C13'
RULE = (
    "one scenario = one interval specification (string, nested sequence or set) for a time, date or "
    "date-time interval + probe moments; generated from a numeric reference interval by rendering every "
    "endpoint in a chosen notation (time: H:M, H:M:S, fraction with '.'/',', ISO basic/extended with/without T, "
    "1..4 integers; date: month name abbreviated to >=3 letters in any case, day/month order, optional periods, "
    "--MMDD, --MM-DD, 2 integers; date-time: year/month-day/time in any order, YYYY-MM-DD, YYYY-mon-DD, ISO T "
    "forms, 5..7 integers), every range separator ('/', ' - ', '-') and delimiter (',', ';', trailing, extra "
    "whitespace) that is unambiguous for the chosen notations; endpoints: quick = every 41st point of the "
    "h/m/s grid, thorough = the whole grid (86400), each with random microseconds; all 366 days of the leap "
    "year x notation families; random date-times of years 1..9999; probes = both endpoints of every range and "
    "their neighbours (+-1 us / +-1 day, cyclic), day/year limits and random moments. Malformed stream: "
    "documented-malformed classes (out-of-range fields, missing parts, three endpoints, single time value, empty "
    "range, mixed delimiters, decimal comma with comma delimiter, time zones, short/unknown month names, wrong "
    "sequence lengths, wrong types) with the expectation 'rejected', and character-level mutations of valid "
    "strings without expectation (model and implementation must agree on accept/reject, exception kind and "
    "value). Strings outside ASCII, ISO week dates and integers beyond a C int are answered 'unsupported' by "
    "the model and not compared. A case is distinct by its (lines, trace) hash; non-trivial if the "
    "specification has at least one range or is rejected.")
ASSUMPTIONS = [
    "CPython 3.12 semantics of time.fromisoformat/datetime.fromisoformat/strptime/re are modelled "
    "(for ASCII input), not verified",
    "set inputs contain at most one malformed range (the iteration order of a set decides which error is raised first)",
]
EXHAUSTIVE = {'quick': False, 'thorough': False}

DAY_US = 86400 * 10 ** 6
MONTHS = ['', 'January', 'February', 'March', 'April', 'May', 'June', 'July', 'August',
          'September', 'October', 'November', 'December']      # the oracle's own table (English names)
MLEN = [0, 31, 29, 31, 30, 31, 30, 31, 31, 30, 31, 30, 31]      # leap year
DAYS = [(m, d) for m in range(1, 13) for d in range(1, MLEN[m] + 1)]
CLS = {'t': ti.TimeInterval, 'd': ti.DateInterval, 'dt': ti.DateTimeInterval}
EPLEN = {'t': 4, 'd': 2, 'dt': 7}


# ------------------------------------------------------------------ encoding

def enc_tree(x):
    if isinstance(x, str):
        return 's' + x.encode('utf-8').hex()
    if isinstance(x, bool):
        raise ValueError(x)
    if isinstance(x, int):
        return f'i{x}'
    if isinstance(x, (list, tuple)):
        return '[' + ','.join(enc_tree(i) for i in x) + ']'
    raise ValueError(f'not encodable: {x!r}')


def enc_ranges(lst):
    if not lst:
        return '-'
    return ','.join('.'.join(map(str, a)) + '/' + '.'.join(map(str, b)) for a, b in lst)


def to_py(spec, as_set):
    if as_set and isinstance(spec, list):
        def tup(x):
            return tuple(tup(i) for i in x) if isinstance(x, list) else x
        return {tup(r) for r in spec}
    return spec


def err_name(exc):
    if isinstance(exc, TypeError):
        return 'TypeError'
    if isinstance(exc, ValueError):
        return 'ValueError'
    return type(exc).__name__


# ------------------------------------------------------------------ notations

def ws(rng):
    return rng.choice(['', '', '', ' ', '  ', '\t', ' \t'])


def time_notations(e, rng):
    """all string/sequence notations of the time of day e = (h, m, s, us); (notation, family)"""
    h, m, s, us = e
    out = [([h, m, s, us], 'seq4')]
    if us == 0:
        out.append(([h, m, s], 'seq3'))
        if s == 0:
            out += [([h, m], 'seq2'), (f'{h}:{m}', 'H:M'), (f'{h:02}:{m:02}', 'HH:MM'), (f'{h}:{m:02}', 'H:MM'),
                    (f'T{h:02}{m:02}', 'THHMM'), (f'T{h:02}:{m:02}', 'THH:MM'), (f'{h:02}{m:02}', 'HHMM')]
            if m == 0:
                out += [([h], 'seq1'), (f'T{h:02}', 'THH'), (f'{h:02}', 'HH')]
        out += [(f'{h}:{m}:{s}', 'H:M:S'), (f'{h:02}:{m:02}:{s:02}', 'HH:MM:SS'), (f'{h:02}:{m}:{s:02}', 'HH:M:SS'),
                (f'T{h:02}{m:02}{s:02}', 'THHMMSS'), (f'{h:02}{m:02}{s:02}', 'HHMMSS'),
                (f'T{h:02}:{m:02}:{s:02}', 'THH:MM:SS')]
    frac = f'{us:06d}'.rstrip('0') or '0'
    frac2 = frac + '0' * rng.randint(0, 6 - len(frac))
    out += [(f'{h}:{m}:{s}.{frac}', 'H:M:S.f'), (f'{h}:{m:02}:{s},{frac2}', 'H:M:S,f'),
            (f'{h:02}:{m:02}:{s:02}.{frac2}', 'HH:MM:SS.f'), (f'{h:02}:{m:02}:{s:02},{frac}', 'HH:MM:SS,f'),
            (f'T{h:02}{m:02}{s:02}.{frac}', 'THHMMSS.f'), (f'T{h:02}{m:02}{s:02},{frac2}', 'THHMMSS,f'),
            (f'{h:02}{m:02}{s:02}.{frac}', 'HHMMSS.f'), (f'T{h:02}:{m:02}:{s:02}.{us:06d}', 'THH:MM:SS.ffffff'),
            (f'{h:02}:{m:02}:{s:02}.{us:06d}', 'canonical-us')]
    return out


def recase(name, rng):
    r = rng.random()
    if r < 0.25:
        return name
    if r < 0.45:
        return name.upper()
    if r < 0.65:
        return name.lower()
    return ''.join(c.upper() if rng.random() < 0.5 else c.lower() for c in name)


def month_name(mo, rng, full=None):
    name = MONTHS[mo]
    n = len(name) if full else (3 if full is False else rng.randint(3, len(name)))
    return recase(name[:n], rng)


def date_notations(e, rng):
    mo, d = e
    out = [([mo, d], 'seq2'), (f'--{mo:02}{d:02}', '--MMDD'), (f'--{mo:02}-{d:02}', '--MM-DD')]
    nm = lambda: month_name(mo, rng)                # noqa: E731
    dd = lambda: rng.choice([f'{d}', f'{d:02}'])    # noqa: E731
    out += [(f'{month_name(mo, rng, True)} {d}', 'Month D'), (f'{month_name(mo, rng, False)} {d}', 'Mon D'),
            (f'{nm()} {dd()}', 'mon D'), (f'{dd()} {nm()}', 'D mon'), (f'{dd()}.{nm()}', 'D.mon'),
            (f'{nm()}. {dd()}', 'mon. D'), (f'{dd()}. {nm()}.', 'D. mon.'), (f'{nm()}{dd()}', 'monD'),
            (f'{dd()}{nm()}', 'Dmon'), (f'{dd()}.{nm()}.', 'D.mon.'), (f'{nm()}.{dd()}.', 'mon.D.'),
            (f'{nm()}  {ws(rng)}{dd()}', 'mon  D')]
    return out


def trad_time(e, rng):
    """a traditional (colon) time notation, needed inside traditional date-times"""
    return rng.choice([n for n in time_notations(e, rng) if isinstance(n[0], str) and ':' in n[0]
                       and not n[0].startswith('T')])


def datetime_notations(e, rng):
    y, mo, d, h, mi, s, us = e
    out = [([y, mo, d, h, mi, s, us], 'seq7')]
    if us == 0:
        out.append(([y, mo, d, h, mi, s], 'seq6'))
        if s == 0:
            out.append(([y, mo, d, h, mi], 'seq5'))
    tm, tfam = trad_time((h, mi, s, us), rng)
    md, mdfam = rng.choice([n for n in date_notations((mo, d), rng) if isinstance(n[0], str)
                            and not n[0].startswith('--')])
    parts = [f'{y:04}', md, tm]
    for perm in itertools.permutations(range(3)):
        out.append(((' ' + ws(rng)).join(parts[i] for i in perm), 'trad:' + ''.join('YDT'[i] for i in perm)))
    # the four parts year / month name / day / time in any of the 24 orders (theorem datetime_parts_in_any_order)
    four = [f'{y:04}', month_name(mo, rng, False), rng.choice([f'{d}', f'{d:02}']), tm]
    perm4 = list(itertools.permutations(range(4)))
    for perm in rng.sample(perm4, 6):
        out.append((' '.join(four[i] for i in perm), 'trad4:' + ''.join('YMDT'[i] for i in perm)))
    ymd = f'{y:04}-{mo:02}-{d:02}'
    ymond = f'{y:04}-{month_name(mo, rng)}-{d:02}'
    out += [(f'{ymd} {tm}', 'YYYY-MM-DD time'), (f'{tm} {ymd}', 'time YYYY-MM-DD'),
            (f'{ymond} {tm}', 'YYYY-mon-DD time'), (f'{tm}  {ymond}', 'time YYYY-mon-DD'),
            (f'{y:04} --{mo:02}{d:02} {tm}', 'YYYY --MMDD time'), (f'{y:04} {tm} --{mo:02}-{d:02}', 'YYYY time --MM-DD'),
            (f'{tm} {y:04} --{mo:02}{d:02}', 'time YYYY --MMDD')]
    frac = f'{us:06d}'.rstrip('0') or '0'
    if us == 0:
        if s == 0:
            out += [(f'{ymd}T{h:02}:{mi:02}', 'isoext-HM'), (f'{y:04}{mo:02}{d:02}T{h:02}{mi:02}', 'isobasic-HM'),
                    (f'{ymd}T{h:02}{mi:02}', 'isoext-date basic-time'), (f'{y:04}{mo:02}{d:02}T{h:02}:{mi:02}', 'isobasic-date ext-time')]
            if mi == 0:
                out += [(f'{ymd}T{h:02}', 'isoext-H'), (f'{y:04}{mo:02}{d:02}T{h:02}', 'isobasic-H')]
        out += [(f'{ymd}T{h:02}:{mi:02}:{s:02}', 'isoext-HMS'),
                (f'{y:04}{mo:02}{d:02}T{h:02}{mi:02}{s:02}', 'isobasic-HMS'),
                (f'{ymd} {h:02}:{mi:02}:{s:02}', 'canonical')]
    out += [(f'{ymd}T{h:02}:{mi:02}:{s:02}.{frac}', 'isoext-f'), (f'{ymd}T{h:02}:{mi:02}:{s:02},{frac}', 'isoext,f'),
            (f'{y:04}{mo:02}{d:02}T{h:02}{mi:02}{s:02}.{frac}', 'isobasic-f'),
            (f'{ymd} {h:02}:{mi:02}:{s:02}.{us:06d}', 'canonical-us')]
    return out


NOTATIONS = {'t': time_notations, 'd': date_notations, 'dt': datetime_notations}


def range_strings(kind, na, nb, rng):
    """the unambiguous ways of joining two endpoint strings into a range string (docs 2A + best practices:
    the separator character must not occur inside the endpoints; ' - ' disambiguates hyphenated dates)"""
    out = []
    for sep, fam in [('/', 'sep/'), (' / ', 'sep/'), (' - ', 'sep - '), ('  -  ', 'sep - '), ('-', 'sep-'), ('- ', 'sep-')]:
        s = na + sep + nb
        if '/' in sep:
            ok = s.count('/') == 1
        elif ' - ' in sep:
            ok = '/' not in s and len(s.split(' - ')) == 2
        else:
            ok = '/' not in s and ' - ' not in s and s.count('-') == 1
        if ok:
            out.append((s, fam))
    return out


def join_interval(range_strs, rng, force=None):
    """join range strings with a delimiter that is unambiguous for them; None if impossible"""
    has_comma = any(',' in r for r in range_strs)
    choices = [';'] if has_comma else [';', ',']
    delim = force or rng.choice(choices)
    if delim == ',' and has_comma:
        return None
    trailing = rng.random() < 0.5
    if has_comma and len(range_strs) == 1:
        trailing = True         # "it is mandatory for one-range intervals with a decimal comma"
    if not range_strs:
        return rng.choice(['', ' ', ' \t '])
    s = (ws(rng) + delim + ws(rng)).join(range_strs)
    if trailing:
        s += ws(rng) + delim + ws(rng)
    return ws(rng) + s


# ------------------------------------------------------------------ endpoints, neighbours

def rand_time(rng):
    return (rng.randrange(24), rng.randrange(60), rng.choice([0, 0, rng.randrange(60)]),
            rng.choice([0, 0, 0, rng.randrange(10 ** 6), 500000, 1, 999999, rng.randrange(1000) * 1000]))


def rand_datetime(rng):
    y = rng.choice([rng.randint(1, 9999), rng.randint(1990, 2040), 2024, 2000, 1900])
    mo = rng.randint(1, 12)
    leap = y % 4 == 0 and (y % 100 != 0 or y % 400 == 0)
    dmax = MLEN[mo] if (mo != 2 or leap) else 28
    return (y, mo, rng.randint(1, dmax)) + rand_time(rng)


def us_of(t):
    return ((t[0] * 60 + t[1]) * 60 + t[2]) * 10 ** 6 + t[3]


def time_of(us):
    us %= DAY_US
    s, u = divmod(us, 10 ** 6)
    return [s // 3600, s // 60 % 60, s % 60, u]


def probes_for(kind, ranges, rng):
    out = []
    for a, b in ranges:
        for e in (a, b):
            if kind == 't':
                out += [time_of(us_of(e) + k) for k in (-1, 0, 1)]
            elif kind == 'd':
                i = DAYS.index(tuple(e))
                out += [list(DAYS[(i + k) % 366]) for k in (-1, 0, 1)]
            else:
                x = dt.datetime(*e)
                for k in (-1, 0, 1):
                    try:
                        p = x + dt.timedelta(microseconds=k)
                    except OverflowError:
                        continue
                    out.append([p.year, p.month, p.day, p.hour, p.minute, p.second, p.microsecond])
    if kind == 't':
        out += [[0, 0, 0, 0], [23, 59, 59, 999999], list(rand_time(rng))]
    elif kind == 'd':
        out += [[1, 1], [12, 31], [2, 29], list(rng.choice(DAYS))]
    else:
        out += [list(rand_datetime(rng)), [1, 1, 1, 0, 0, 0, 0], [9999, 12, 31, 23, 59, 59, 999999]]
    seen, res = set(), []
    for p in out:
        if tuple(p) not in seen:
            seen.add(tuple(p))
            res.append(p)
    return res


# ------------------------------------------------------------------ scenario builders

def build(kind, ranges, rng, want=None):
    """render the numeric interval `ranges` (list of (a, b) endpoint tuples) in random notations"""
    ref = sorted([list(a), list(b)] for a, b in ranges)
    notfn = NOTATIONS[kind]
    form = want or rng.choice(['str', 'str', 'str', 'seq', 'mixed'])
    fams = []
    spec_ranges = []
    for a, b in ranges:
        na, nb = rng.choice(notfn(a, rng)), rng.choice(notfn(b, rng))
        single = kind == 'd' and tuple(a) == tuple(b) and rng.random() < 0.6
        both_str = isinstance(na[0], str) and isinstance(nb[0], str)
        if form == 'str' and not both_str:
            strs = [n for n in notfn(a, rng) if isinstance(n[0], str)]
            na = rng.choice(strs)
            strs = [n for n in notfn(b, rng) if isinstance(n[0], str)]
            nb = rng.choice(strs)
            both_str = True
        fams += [na[1], nb[1]]
        if single and isinstance(na[0], str):
            spec_ranges.append(ws(rng) + na[0] + ws(rng))
            fams.append('single')
            continue
        if both_str and (form == 'str' or rng.random() < 0.5):
            cands = range_strings(kind, ws(rng) + na[0] + ws(rng), ws(rng) + nb[0] + ws(rng), rng)
            if cands:
                s, f = rng.choice(cands)
                spec_ranges.append(s)
                fams.append(f)
                continue
        if single and rng.random() < 0.5:
            spec_ranges.append([na[0]])
            fams.append('single-seq')
        else:
            spec_ranges.append([na[0], nb[0]])
    as_set = False
    if form == 'str' and all(isinstance(r, str) for r in spec_ranges):
        spec = join_interval(spec_ranges, rng)
        if spec is None:
            spec = spec_ranges
        else:
            fams.append('delim;' if ';' in spec else ('delim,' if ',' in spec else 'delim-none'))
    else:
        spec = spec_ranges
        if rng.random() < 0.15:
            as_set = True
    return {'kind': kind, 'spec': spec, 'as_set': as_set, 'ref': ref, 'expect': 'ok',
            'probes': probes_for(kind, ranges, rng), 'fams': sorted(set(fams))}


def rand_ranges(kind, rng, n=None, first=None):
    n = rng.choice([0, 1, 1, 1, 2, 2, 3]) if n is None else n
    out = []
    for i in range(n):
        if kind == 't':
            a, b = rand_time(rng), rand_time(rng)
            if rng.random() < 0.1:
                b = a
        elif kind == 'd':
            a, b = rng.choice(DAYS), rng.choice(DAYS)
            if rng.random() < 0.25:
                b = a
        else:
            a, b = rand_datetime(rng), rand_datetime(rng)
            if rng.random() < 0.7:
                a, b = min(a, b), max(a, b)
        if i == 0 and first is not None:
            a = first
        out.append((a, b))
    return out


# ---- malformed stream

def malformed(rng):
    """(kind, spec, class) with the expectation: rejected"""
    k = rng.choice(['t', 't', 'd', 'd', 'dt', 'dt', 'seq', 'seq'])
    h, m, s = rng.randrange(24), rng.randrange(60), rng.randrange(60)
    mo, d = rng.choice(DAYS)
    y = rng.randint(1000, 9999)
    nm = month_name(mo, rng)
    t2 = f'{(h + 1) % 24}:{m:02}'
    if k == 't':
        bad, cls = rng.choice([
            (f'{rng.randint(24, 99)}:{m:02}', 'hour>23'), (f'{h}:{rng.randint(60, 99)}', 'minute>59'),
            (f'{h}:{m}:{rng.randint(60, 99)}', 'second>59'), (f'{h}', 'H only, one digit') if h < 10 else (f'{h}:', 'H:'),
            (f'{h}:', 'H:'), (f':{m:02}', ':M'), (f'{h}:{m}:', 'H:M:'), (f'{h}:{m}:{s}.', 'H:M:S.'),
            (f'{h % 10}:{m}:{s}.1234567', 'fraction of 7 digits'), (f'{h}h{m:02}', 'letter separator'),
            (f'{h:02}:{m:02} pm', 'trailing text'), (f'{h:02}:{m:02}Z', 'time zone Z'),
            (f'{h:02}:{m:02}+01:00', 'time zone offset'), (f'{h:02}:{m:02}:{s:02}-05', 'time zone offset'),
            (f'-{h}:{m:02}', 'negative hour'), ('noon', 'word'), (f'{h:02}.{m:02}.{s:02}', 'dots only'),
            (f'{h} : {m:02}', 'inner blanks'), (f'T{h}:{m:02}', 'T with one-digit hour') if h < 10 else (f'{h}:{m}:', 'H:M:'),
        ])
        shape = rng.randrange(6)
        if shape == 0:
            return 't', f'{bad} - {t2}', cls
        if shape == 1:
            return 't', f'{t2}/{bad};', cls
        if shape == 2:
            return 't', [[bad, t2]], cls
        if shape == 3:
            return 't', rng.choice([f'{h}:{m:02}-{t2}-{t2}', f'{h}:{m:02} - {t2} - {t2}', f'{h}:{m:02}/{t2}/{t2}']), 'three endpoints'
        if shape == 4:
            return 't', rng.choice([f'{h}:{m:02}', f'{h}:{m:02};', [f'{h}:{m:02}'], [[f'{h}:{m:02}']], [[[h, m]]]]), 'single time value'
        return 't', rng.choice([
            (f'{h}:{m:02}-{t2},,{t2}-{h}:{m:02}'), (f'{h}:{m:02}-{t2}; ;{t2}-{h}:{m:02}'),
            (f'{h}:{m:02}/{t2}; {t2}-{h}:{m:02}, {h}:{m:02}-{t2}'),
            (f'T{h:02}{m:02}{s:02},5/T0411,134355,5/1344'), (f'{h}:{m:02}-'), (f'-{t2}'), (f'{h}:{m:02} - {t2} {t2}'),
        ]), 'empty range / mixed delimiters / decimal comma with comma delimiter / missing endpoint'
    if k == 'd':
        wrong_day = rng.choice([0, MLEN[mo] + 1, 32, 99])
        bad, cls = rng.choice([
            (f'{nm[:2]} {d}', 'month abbreviated to 2 letters'), (f'{nm[:1]} {d}', 'month abbreviated to 1 letter'),
            (f'{nm}x {d}', 'unknown month name'), (f'Foo {d}', 'unknown month name'), (f'{nm} {wrong_day}', 'day out of range'),
            (f'{wrong_day} {nm}', 'day out of range'), (f'{nm}', 'missing day'), (f'{d}', 'missing month'),
            (f'{nm} {d} {d}', 'two days'), (f'{nm} {nm} {d}', 'two months'), (f'{d}.. {nm}', 'two periods'),
            (f'--{rng.randint(13, 99)}{d:02}', 'month>12'), (f'--{mo:02}{wrong_day:02}', 'day out of range'),
            (f'--{mo}{d:02}' if mo < 10 else f'--{mo:02}', 'incomplete --MMDD'), (f'{nm} {d} 2020', 'year in a date'),
            (f'{mo}/{d}', 'numeric month'), (f'{nm} {d}th', 'trailing text'), (f'{d} of {nm}', 'extra word'),
            (f'{nm} 1{d:02}', 'three-digit day'), ('', 'empty string as a range'),
        ])
        shape = rng.randrange(5)
        other = f'{month_name(rng.randint(1, 12), rng)} {rng.randint(1, 28)}'
        if bad == '':
            return 'd', rng.choice([[''], f'{other},,{other}', f'{other}; ;']), cls
        if shape == 0:
            return 'd', f'{bad} - {other}', cls
        if shape == 1:
            return 'd', f'{other}/{bad};', cls
        if shape == 2:
            return 'd', bad if '/' not in bad else [bad], cls
        if shape == 3:
            return 'd', [[bad, other]], cls
        return 'd', rng.choice([f'{other}-{other}-{other}', f'{other} - {other} - {other}', f'{other}/{other}/{other}']), 'three endpoints'
    if k == 'dt':
        tm = f'{h}:{m:02}'
        bad, cls = rng.choice([
            (f'{nm} {d} {tm}', 'missing year'), (f'{y} {nm} {d}', 'missing time'), (f'{y} {tm}', 'missing month and day'),
            (f'{y} {nm} {tm}', 'missing day'), (f'{y} {d} {tm}', 'missing month'),
            (f'{y % 100:02} {nm} {d} {tm}', 'two-digit year'), (f'{y} {nm} {d} {rng.randint(24, 99)}:{m:02}', 'hour>23'),
            (f'{y} {nm} {MLEN[mo] + 1} {tm}', 'day out of range'), (f'{y}-{rng.randint(13, 99)}-{d:02} {tm}', 'month>12'),
            (f'{y}-{mo:02}-{MLEN[mo] + 1:02}T{h:02}:{m:02}', 'day out of range (ISO)'),
            (f'{y}-{mo}-{d} {tm}' if mo < 10 or d < 10 else f'{y}-{mo:02} {tm}', 'YYYY-M-D with one digit'),
            (f'0000 {nm} {d} {tm}', 'year 0'), (f'{y}-{mo:02}-{d:02}T{h:02}:{m:02}Z', 'time zone Z'),
            (f'{y}-{mo:02}-{d:02}T{h:02}:{m:02}+01:00', 'time zone offset'), (f'{y}-{mo:02}-{d:02}', 'ISO date without time'),
            (f'{y}-{mo:02}-{d:02}T', 'ISO date with empty time'), (f'{y} {nm[:2]} {d} {tm}', 'month abbreviated to 2 letters'),
            (f'{y} {nm} {d} {tm} {tm}', 'two times'), (f'{y} {y} {nm} {d} {tm}', 'two years'),
            (f'{y}-{mo:02}-{d:02}T{h:02}:{m:02}:{rng.randint(60, 99)}', 'second>59 (ISO)'),
            ('2023 Feb 29 12:00', 'Feb 29 in a common year'), ('1900-02-29T12:00', 'Feb 29 in 1900'),
        ])
        other = f'{y}-01-01T00:00'
        shape = rng.randrange(5)
        if shape == 0:
            return 'dt', f'{bad} / {other}', cls
        if shape == 1:
            return 'dt', f'{other} / {bad};', cls
        if shape == 2:
            return 'dt', [[other, bad]], cls
        if shape == 3:
            return 'dt', rng.choice([f'{other}/{other}/{other}', f'{other} - {other} - {other}',
                                     f'{other}-{other}', other, [[other]]]), 'three endpoints / ambiguous hyphen / single value'
        return 'dt', f'{bad}/{other}', cls
    # sequences
    kind = rng.choice(['t', 'd', 'dt'])
    good = {'t': [h, m], 'd': [mo, d], 'dt': [y, mo, d, h, m]}[kind]
    choice = rng.randrange(9)
    if choice == 0:
        n = {'t': rng.choice([0, 5, 6]), 'd': rng.choice([0, 1, 3]), 'dt': rng.choice([0, 3, 4, 8])}[kind]
        badep = ([1] * n)
        return kind, [[badep, good]], 'wrong sequence length'
    if choice == 1:
        full = {'t': [h, m, s, 0], 'd': [mo, d], 'dt': [y, mo, d, h, m, s, 0]}[kind]
        i = rng.randrange(len(full))
        hi = {'t': [24, 60, 60, 10 ** 6], 'd': [13, MLEN[mo] + 1], 'dt': [10000, 13, 32, 24, 60, 60, 10 ** 6]}[kind][i]
        full[i] = rng.choice([hi, hi + rng.randint(1, 50), -1, -rng.randint(2, 100)])
        if kind != 't' and full[i] == -1 and i < 3:
            full[i] = 0
        return kind, [[good, full]], 'field out of range'
    if choice == 2:
        return kind, [[good, good, good]], 'three endpoints'
    if choice == 3:
        return kind, [[]], 'empty range'
    if choice == 4 and kind != 'd':
        return kind, [[good]], 'single value'
    if choice == 5:
        return kind, [good], 'integers where endpoints are expected (TypeError)'
    if choice == 6:
        return kind, [[good, 5]], 'integer where an endpoint is expected (TypeError)'
    if choice == 7:
        return kind, [7], 'integer where a range is expected (TypeError)'
    return kind, 7, 'integer where an interval is expected (TypeError)'


# ---- digit runs (docs 1A: the year is a 4-digit integer, MM and DD have exactly two digits, the day and the
# hours/minutes/seconds one or two digits, the fraction 1 to 6 digits): a digit run is ONE field

def digit_run_cases(rng):
    """traditional date-time strings with a digit run one longer than a field allows, or two fields glued"""
    mo, d = rng.choice(DAYS)
    d = min(d, 28)
    y = rng.randint(1000, 9999)
    h, mi, sec = rng.randrange(24), rng.randrange(60), rng.randrange(60)
    k = rng.randint(1, 9)
    nm = month_name(mo, rng, False)
    cands = [
        f'{nm} {y} {k}{h:02}:{mi:02}', f'{nm} {y}{k} {h}:{mi:02}', f'{nm} {y} {h}:{mi:02}:{sec:02}{k}',
        f'{y}-{mo:02}-{d:02}{h:02}:{mi:02}', f'{d} {nm} {y}{h:02}:{mi:02}', f'{k}{y} {nm} {d} {h}:{mi:02}',
        f'{nm} {y} {h}:{mi:02}{k}', f'{h}:{mi:02}{k} {nm} {y}', f'{nm} {k} {y}{d:02} {h}:{mi:02}',
        f'{y}-{mo:02}-{d:02}{k} {h}:{mi:02}', f'{y}{k}-{mo:02}-{d:02} {h}:{mi:02}', f'{nm}{d}{y} {h}:{mi:02}',
        f'{h}:{mi:02}:{sec:02}.{k}{y} {nm} {d}', f'{nm} {y} {k}{k}{h}:{mi:02}:{sec}',
    ]
    # generic: a digit inserted next to a digit, or a blank between two parts removed
    base = rng.choice([f'{nm} {d} {y} {h}:{mi:02}', f'{y} {d} {nm} {h}:{mi:02}:{sec:02}', f'{h}:{mi:02} {d}. {nm} {y}',
                       f'{y}-{mo:02}-{d:02} {h}:{mi:02}', f'{h:02}:{mi:02}:{sec:02} {y}-{nm}-{d:02}'])
    pos = [i for i, c in enumerate(base) if c.isdigit()]
    i = rng.choice(pos)
    cands.append(base[:i] + str(k) + base[i:])
    cands.append(base[:i + 1] + str(k) + base[i + 1:])
    blanks = [i for i, c in enumerate(base) if c == ' ']
    j = rng.choice(blanks)
    cands.append(base[:j] + base[j + 1:])
    return cands


def digit_runs_ok(s):
    """docs-based rule for a traditional date-time string: every maximal digit run is one field"""
    years = 0
    for m in re.finditer(r'[0-9]+', s):
        n, a = m.end() - m.start(), m.start()
        is_frac = a >= 1 and s[a - 1] in '.,' and re.search(r'[0-9]{1,2}:[0-9]{1,2}:[0-9]{1,2}$', s[:a - 1]) is not None
        if is_frac:
            if n > 6:
                return False
        elif n == 4:
            years += 1
        elif n > 2:
            return False
    return years == 1


ALPHABET = list('0123456789') * 2 + list('::..,,--//;; TZW+') + list('abcdefgjlmnoprstuvyJFMASOND')


def mutate(s, rng):
    """character-level mutations of a valid interval string (no expectation)"""
    s = list(s)
    for _ in range(rng.choice([1, 1, 1, 2, 3])):
        op = rng.randrange(5)
        i = rng.randrange(len(s) + 1)
        if op == 0 and s:
            del s[min(i, len(s) - 1)]
        elif op == 1:
            s.insert(i, rng.choice(ALPHABET))
        elif op == 2 and s:
            s[min(i, len(s) - 1)] = rng.choice(ALPHABET)
        elif op == 3 and len(s) > 1:
            j = min(i, len(s) - 2)
            s[j], s[j + 1] = s[j + 1], s[j]
        elif s:
            j = min(i, len(s) - 1)
            s.insert(j, s[j])
    return ''.join(s)


QUIRKS = [  # accepted by CPython's fromisoformat although undocumented; compared, no expectation
    ('t', '12:30:45:123 - 13:00'), ('t', '12304512/1300'), ('t', '12.5/13'), ('t', '1230,5/13;'),
    ('t', '12:30:45.1234567/13:00'), ('t', 'T12/T13'), ('t', '12/13'), ('dt', '20200105X1000/2021-01-05T10'),
    ('dt', '2020-W01-1T10:00/2021-01-05T10:00'), ('dt', '2020-01-05T10:00:00:5/2021-01-05T10:00'),
    ('dt', '2020 OCT 5 10:00/2021-01-05T10:00'), ('dt', '2020-01-05T10:00-/2021-01-05T10:00'),
    ('dt', '2020-01-05T10:00+25:00/2021-01-05T10:00'), ('t', '١٢:٣٠ - 13:00'), ('t', '12:30 - 13:00'),
    ('d', 'März 5'), ('d', 'Mar 5'), ('t', [[[2 ** 31, 0], [1, 0]]]), ('t', [[[2 ** 31 - 1, 0], [1, 0]]]),
    ('t', [[[1, 2, 3, 4, 2 ** 40], [1, 0]]]), ('d', 'mar 5\x1f'), ('t', '\x0c12:30 - 13:00\x1c'),
]


def scenarios(rng, tier):
    quick = tier == 'quick'
    for kind, spec in QUIRKS:
        yield {'kind': kind, 'spec': spec, 'as_set': False, 'ref': None, 'expect': None, 'probes': [], 'fams': ['quirk']}
    # empty intervals
    for kind in 't', 'd', 'dt':
        for spec in ['', ' ', [], '\t  ']:
            yield {'kind': kind, 'spec': spec, 'as_set': False, 'ref': [], 'expect': 'ok',
                   'probes': probes_for(kind, [], rng), 'fams': ['empty']}
    # 1. time endpoints on the h/m/s grid (+ random microseconds)
    stride = 41 if quick else 1
    off = rng.randrange(stride)
    for idx in range(off, 86400, stride):
        a = (idx // 3600, idx // 60 % 60, idx % 60, rng.choice([0, 0, rng.randrange(10 ** 6)]))
        yield build('t', rand_ranges('t', rng, n=rng.choice([1, 1, 2, 3]), first=a), rng)
    # every notation family of one endpoint against the same partner: all must agree
    for _ in range(150 if quick else 3000):
        a, b = rand_time(rng), rand_time(rng)
        for na, fam in time_notations(a, rng):
            nb = rng.choice(time_notations(b, rng))[0]
            ref = [[list(a), list(b)]]
            if isinstance(na, str) and isinstance(nb, str):
                for s, f in range_strings('t', na, nb, rng):
                    spec = join_interval([s], rng)
                    yield {'kind': 't', 'spec': spec, 'as_set': False, 'ref': ref, 'expect': 'ok',
                           'probes': probes_for('t', [(a, b)], rng) if f == 'sep/' else [], 'fams': [fam, f]}
            else:
                yield {'kind': 't', 'spec': [[na, nb]], 'as_set': False, 'ref': ref, 'expect': 'ok', 'probes': [],
                       'fams': [fam]}
    # 2. all days of the leap year
    for a in DAYS:
        if quick:
            for _ in range(3):
                yield build('d', rand_ranges('d', rng, n=rng.choice([1, 1, 2]), first=a), rng)
        else:
            for na, fam in date_notations(a, rng):
                for _ in range(2):
                    b = rng.choice(DAYS)
                    nb = rng.choice(date_notations(b, rng))[0]
                    ref = [[list(a), list(b)]]
                    if isinstance(na, str) and isinstance(nb, str):
                        cands = range_strings('d', na, nb, rng)
                        s, f = rng.choice(cands)
                        yield {'kind': 'd', 'spec': join_interval([s], rng), 'as_set': False, 'ref': ref, 'expect': 'ok',
                               'probes': probes_for('d', [(a, b)], rng), 'fams': [fam, f]}
                    else:
                        yield {'kind': 'd', 'spec': [[na, nb]], 'as_set': False, 'ref': ref, 'expect': 'ok',
                               'probes': probes_for('d', [(a, b)], rng), 'fams': [fam]}
            for _ in range(4):
                yield build('d', rand_ranges('d', rng, first=a, n=rng.choice([1, 2, 3])), rng)
    # membership of every day in a few wrapping / non-wrapping date ranges (exhaustive probes)
    for _ in range(4 if quick else 60):
        a, b = rng.choice(DAYS), rng.choice(DAYS)
        scn = build('d', [(a, b)], rng)
        scn['probes'] = [list(x) for x in DAYS]
        yield scn
    # 3. random date-times
    for _ in range(5000 if quick else 60000):
        yield build('dt', rand_ranges('dt', rng), rng)
    for _ in range(60 if quick else 1500):
        a, b = rand_datetime(rng), rand_datetime(rng)
        a, b = min(a, b), max(a, b)
        ref = [[list(a), list(b)]]
        for na, fam in datetime_notations(a, rng):
            nb = rng.choice(datetime_notations(b, rng))[0]
            if isinstance(na, str) and isinstance(nb, str):
                cands = range_strings('dt', na, nb, rng)
                if not cands:
                    continue
                s, f = rng.choice(cands)
                spec = join_interval([s], rng)
                if spec is None:
                    continue
                yield {'kind': 'dt', 'spec': spec, 'as_set': False, 'ref': ref, 'expect': 'ok',
                       'probes': probes_for('dt', [(a, b)], rng), 'fams': [fam, f]}
            else:
                yield {'kind': 'dt', 'spec': [[na, nb]], 'as_set': False, 'ref': ref, 'expect': 'ok', 'probes': [],
                       'fams': [fam]}
    # 4. malformed: documented-malformed classes
    for _ in range(6000 if quick else 60000):
        kind, spec, cls = malformed(rng)
        yield {'kind': kind, 'spec': spec, 'as_set': isinstance(spec, list) and rng.random() < 0.1 and _hashable(spec),
               'ref': None, 'expect': 'reject', 'probes': [], 'fams': ['malformed: ' + cls]}
    # 4b. digit runs: a run one digit longer than a field allows / two fields glued (oracle clause malformed_not_misread)
    other = '2000-01-01T00:00'
    for _ in range(150 if quick else 3000):
        for bad in digit_run_cases(rng):
            yield {'kind': 'dt', 'spec': [[other, bad]], 'as_set': False, 'ref': None, 'expect': None, 'probes': [],
                   'fams': ['digit-run'], 'dr': [bad]}
    # 5. character-level mutations of valid strings (no expectation)
    n = 0
    want = 20000 if quick else 250000
    while n < want:
        kind = rng.choice(['t', 'd', 'dt'])
        base = build(kind, rand_ranges(kind, rng, n=rng.choice([1, 1, 2])), rng, want='str')
        if not isinstance(base['spec'], str):
            continue
        n += 1
        yield {'kind': kind, 'spec': mutate(base['spec'], rng), 'as_set': False, 'ref': None, 'expect': None,
               'probes': base['probes'][:4], 'fams': ['mutated']}
    # 6. TimeDate.parse / TimeSpan.parse
    for _ in range(400 if quick else 8000):
        r = rng.random()
        times = None if r < 0.2 else build('t', rand_ranges('t', rng), rng)['spec']
        dates = None if rng.random() < 0.2 else build('d', rand_ranges('d', rng), rng)['spec']
        wr = rng.random()
        if wr < 0.2:
            wd = None
        elif wr < 0.55:
            wd = ''.join(rng.choice('01234567 \t') for _ in range(rng.randint(0, 9)))
            if rng.random() < 0.15:
                # a stray character anywhere: ranges written with '-', separators, letters, 8 and 9
                k = rng.randint(0, len(wd))
                wd = wd[:k] + rng.choice('89x-,.;mM/') + wd[k:]
        else:
            wd = [rng.randint(0, 7) for _ in range(rng.randint(0, 8))]
            if rng.random() < 0.1:
                wd.append(rng.choice([8, -1, 9, 70]))
        if rng.random() < 0.08:
            kind, spec, _cls = malformed(rng)
            if kind == 't':
                times = spec
            elif kind == 'd':
                dates = spec
        yield {'op': 'td', 'times': times, 'dates': dates, 'weekdays': wd}
    for _ in range(200 if quick else 4000):
        span = build('dt', rand_ranges('dt', rng), rng)['spec']
        if rng.random() < 0.1:
            kind, spec, _cls = malformed(rng)
            if kind == 'dt':
                span = spec
        yield {'op': 'ts', 'span': span}


def _hashable(spec):
    return all(isinstance(r, (str, list)) for r in spec)


def shrink(scn):
    if scn.get('op'):
        return
    if scn.get('probes'):
        yield {**scn, 'probes': []}
        for i in range(len(scn['probes'])):
            yield {**scn, 'probes': [scn['probes'][i]]}


# ------------------------------------------------------------------ implementation runner

def run_impl(scn):
    op = scn.get('op')
    lines, trace, tags = [], [], []
    if op == 'td':
        enc3 = [('n' if x is None else enc_tree(x)) for x in (scn['times'], scn['dates'], scn['weekdays'])]
        lines.append('interval td ' + ' '.join(enc3))
        try:
            r = TimeDate.parse(scn['times'], scn['dates'], scn['weekdays'])
        except Exception as err:    # noqa: BLE001
            trace.append('err ' + err_name(err))
            return {'lines': lines, 'trace': trace, 'tags': ['td', 'td-rejected'], 'result': None}
        wd = r['weekdays']
        trace.append('ok ' + ' '.join([
            'n' if r['times'] is None else enc_ranges(r['times']),
            'n' if r['dates'] is None else enc_ranges(r['dates']),
            'n' if wd is None else ('.'.join(map(str, wd)) or '-')]))
        return {'lines': lines, 'trace': trace, 'tags': ['td'], 'result': r}
    if op == 'ts':
        lines.append('interval ts ' + enc_tree(scn['span']))
        try:
            r = TimeSpan.parse(scn['span'])
        except Exception as err:    # noqa: BLE001
            trace.append('err ' + err_name(err))
            return {'lines': lines, 'trace': trace, 'tags': ['ts', 'ts-rejected'], 'result': None}
        trace.append('ok ' + enc_ranges(r))
        return {'lines': lines, 'trace': trace, 'tags': ['ts'], 'result': r}

    kind = scn['kind']
    cls = CLS[kind]
    spec = scn['spec']
    tags = [f'kind={kind}'] + [f'{kind}:{f}' for f in scn.get('fams', [])]
    tags.append('form=' + ('str' if isinstance(spec, str) else 'set' if scn.get('as_set') else 'seq'))
    lines.append(f'interval parse {kind} {enc_tree(spec)}')
    res = {'lines': lines, 'trace': trace, 'tags': tags}
    try:
        iv = cls(to_py(spec, scn.get('as_set')))
    except Exception as err:    # noqa: BLE001
        trace.append('err ' + err_name(err))
        res.update(accepted=False, error=err_name(err), nontrivial=True)
        tags.append('rejected:' + err_name(err))
        return res
    aslist = iv.as_list()
    asstr = iv.as_string()
    trace.append('ok ' + enc_ranges(aslist))
    lines.append('interval str')
    trace.append('s' + asstr.encode().hex())
    # range_endpoints(): a set of date/time objects (what TimeDate / TimeSpan register with cron)
    lines.append('interval endpoints')
    try:
        eps = sorted(ti.export_dt(x) for x in iv.range_endpoints())
        trace.append(','.join('.'.join(map(str, e)) for e in eps) or '-')
    except Exception as err:    # noqa: BLE001
        eps = 'err ' + err_name(err)
        trace.append(eps)
    members = []
    for p in scn.get('probes', []):
        lines.append('interval in ' + '.'.join(map(str, p)))
        try:
            # dates as TimeDate.recalc builds them
            obj = {'t': dt.time, 'd': lambda mo, d: ti.convert_date_seq([mo, d]), 'dt': dt.datetime}[kind](*p)
            got = obj in iv
        except Exception as err:    # noqa: BLE001
            members.append('err ' + err_name(err))
            trace.append('err ' + err_name(err))
            continue
        members.append(got)
        trace.append('b1' if got else 'b0')
    # round trips (also compared with the model)
    back = {}
    for name, inp in (('list', aslist), ('string', asstr)):
        lines.append(f'interval parse {kind} {enc_tree(inp)}')
        try:
            again = cls(inp)
        except Exception as err:    # noqa: BLE001
            trace.append('err ' + err_name(err))
            back[name] = 'err ' + err_name(err)
        else:
            trace.append('ok ' + enc_ranges(again.as_list()))
            back[name] = again.as_list()
            back[name + '_str'] = again.as_string()
    res.update(accepted=True, aslist=aslist, asstr=asstr, members=members, back=back, nontrivial=bool(aslist),
               endpoints=eps)
    tags.append(f'ranges={len(aslist)}')
    return res


# ------------------------------------------------------------------ oracle (independent of the model)

def _day_index(mo, d):
    return sum(MLEN[1:mo]) + d - 1


def _days_from_civil(y, m, d):
    """days since 0000-03-01 (proleptic Gregorian), integer arithmetic only"""
    y -= m <= 2
    era = y // 400
    yoe = y - era * 400
    doy = (153 * (m + (-3 if m > 2 else 9)) + 2) // 5 + d - 1
    doe = yoe * 365 + yoe // 4 - yoe // 100 + doy
    return era * 146097 + doe


def _lin(kind, e):
    if kind == 't':
        return us_of(e)
    if kind == 'd':
        return _day_index(*e)
    return _days_from_civil(*e[:3]) * DAY_US + us_of(e[3:])


def _member(kind, ranges, x):
    xv = _lin(kind, x)
    for a, b in ranges:
        av, bv = _lin(kind, a), _lin(kind, b)
        if kind == 't':
            if av == bv or (xv - av) % DAY_US < (bv - av) % DAY_US:
                return True
        elif kind == 'd':
            if (xv - av) % 366 <= (bv - av) % 366:
                return True
        elif av <= xv < bv:
            return True
    return False


def oracle(scn, res):
    out = []
    op = scn.get('op')
    if op == 'td':
        r = res['result']
        if r is None:
            return out
        for key, cls in (('times', ti.TimeInterval), ('dates', ti.DateInterval)):
            if scn[key] is None:
                if r[key] is not None:
                    out.append({'clause': 'timedate_parse', 'what': f'{key}=None became {r[key]!r}'})
            elif r[key] != cls(scn[key]).as_list():
                out.append({'clause': 'timedate_parse', 'what': f'{key}: {r[key]!r} differs from the interval normal form'})
        wd = scn['weekdays']
        if wd is None:
            exp = None
        else:
            # docs: a string of digits 0-7 (blanks ignored) or a sequence of such numbers; anything else is malformed
            if isinstance(wd, str):
                bad = [c for c in wd if c not in ' \t' and c not in '01234567']
                nums = [int(c) for c in wd if c in '01234567']
            else:
                bad = [x for x in wd if not (isinstance(x, int) and 0 <= x <= 7)]
                nums = [x for x in wd if x not in bad]
            if bad:
                return out + [{'clause': 'malformed_rejected',
                               'what': f'weekdays {wd!r} accepted as {r["weekdays"]!r} although {bad!r} is not a weekday number'}]
            exp = sorted({7 if x == 0 else x for x in nums})
        if r['weekdays'] != exp:
            out.append({'clause': 'weekday_normalisation', 'what': f'weekdays {wd!r} -> {r["weekdays"]!r}, expected {exp!r}'})
        return out
    if op == 'ts':
        r = res['result']
        if r is not None and r != ti.DateTimeInterval(scn['span']).as_list():
            out.append({'clause': 'timespan_parse', 'what': f'{r!r} differs from the interval normal form'})
        return out

    kind = scn['kind']
    expect = scn.get('expect')
    if not res['accepted']:
        if expect == 'ok':
            out.append({'clause': 'notation_accepted',
                        'what': f'{kind} {scn["spec"]!r} (families {scn.get("fams")}) rejected with {res["error"]}'})
        elif res['error'] not in ('ValueError', 'TypeError', 'OverflowError'):
            out.append({'clause': 'malformed_rejected_with_error',
                        'what': f'{kind} {scn["spec"]!r}: unexpected exception {res["error"]}'})
        return out
    aslist = res['aslist']
    for ep in scn.get('dr', []):
        # written from docs/sblocks2.rst 1A, not from the model: the string was ACCEPTED although one of its digit
        # runs cannot be a single field (year = 4 digits, MM/DD = 2, day/H/M/S = 1 or 2, fraction = 1..6)
        if 'T' not in ep and not digit_runs_ok(ep):
            out.append({'clause': 'malformed_not_misread',
                        'what': f'date-time {ep!r} has a digit run that is no single field, yet it is accepted as '
                                f'{[r for r in aslist if r][0][1]!r}',
                        'sig': {'shape': 'digit_run_split'}})
            return out
    if expect == 'reject':
        out.append({'clause': 'malformed_rejected',
                    'what': f'malformed {kind} {scn["spec"]!r} ({scn.get("fams")}) accepted as {aslist!r}'})
        return out
    n = EPLEN[kind]
    if aslist != sorted(aslist) or any(len(r) != 2 or any(len(e) != n or any(type(v) is not int for v in e) for e in r)
                                       for r in aslist):
        out.append({'clause': 'normal_form_sorted_full', 'what': f'{scn["spec"]!r} -> {aslist!r}'})
        if any(len(r) != 2 or any(len(e) != n for e in r) for r in aslist):
            return out          # not even the shape of a normal form: the other clauses cannot be evaluated
    if scn.get('ref') is not None and aslist != scn['ref']:
        out.append({'clause': 'notations_agree',
                    'what': f'{kind} {scn["spec"]!r} (families {scn.get("fams")}) -> {aslist!r}, expected {scn["ref"]!r}'})
    back = res['back']
    if back.get('list') != aslist:
        out.append({'clause': 'asList_roundtrip', 'what': f'{aslist!r} fed back gives {back.get("list")!r}'})
    if back.get('string') != aslist:
        out.append({'clause': 'asString_roundtrip', 'what': f'{res["asstr"]!r} fed back gives {back.get("string")!r}'})
    elif back.get('string_str') != res['asstr'] or back.get('list_str') != res['asstr']:
        out.append({'clause': 'asString_roundtrip', 'what': f'rendering not stable: {res["asstr"]!r}'})
    want_eps = sorted({tuple(e) for r in aslist for e in r})
    got_eps = res.get('endpoints')
    if isinstance(got_eps, str) or [tuple(e) for e in got_eps] != want_eps:
        out.append({'clause': 'range_endpoints', 'what': f'{aslist!r}: range_endpoints() = {res.get("endpoints")!r}'})
    for p, got in zip(scn.get('probes', []), res['members']):
        exp = _member(kind, aslist, p)
        if got != exp:
            out.append({'clause': 'membership', 'what': f'{kind} {aslist!r}: {p!r} in interval = {got}, expected {exp}'})
            break
    return out
