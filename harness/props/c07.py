"""C07 -- TimeDate / TimeSpan follow the wall clock: trace acceptance by lean/EdzedModel/Cron.lean
(the recalculation service of the REAL cron tasks on a virtual wall clock) + an independent
datetime oracle sampling the outputs around every boundary and mid-range."""
import datetime as dt
import sys

import edzed

from .. import vtime
from ..simrun import Sim

ID = 'C07'
LAMBDA_US = 5000                      # "a few milliseconds" (DESIGN.md 6)
HOUR_US = 3600 * 10 ** 6
BOUND_US = HOUR_US + LAMBDA_US        # "correct again within one hour" (+ the accuracy)
PROBE_US = 10000                      # the oracle samples 10 ms before / after every boundary
DAY_US = 86400 * 10 ** 6
APPROACH_US = 20000

RULE = ("1..4 TimeDate/TimeSpan blocks spread over the local and the UTC cron of one real circuit on the "
        "virtual wall clock (integer microseconds, clock-read latency 2/50/200 us, loop wake-up latency "
        "0/100/400 us), 1..3 virtual days starting on/around Dec 31, Feb 28/29 (leap and common years) and "
        "random dates; interval sets: wrapping and non-wrapping time ranges, equal end points, microsecond "
        "end points, end points < 1 ms apart, date ranges over the year end and Feb 29, weekday sets, None "
        "versus empty arguments, TimeSpans in the past / present / future / empty; start instants and "
        "'reconfig' events (placement before/after the timers of the instant, bursts of several blocks) at "
        "offsets of 1 us .. 2 ms around boundaries of the same and of other blocks, new end points placed "
        "1 us .. a few read latencies after the reconfiguration; forward clock jumps 30 s .. 1 h at "
        "arbitrary instants and just before boundaries; latency spikes: 1..3 timer wake-ups 2..20 ms late at "
        "chosen alarms (injected by the harness, reported to the model as `late` records that excuse that "
        "window only) in 1..3 day runs of 2..5 blocks with 3..6 time ranges each, so that tens of alarms "
        "follow the spike; output-event hooks: blocks whose on_output event (Edge filter / EventCond selecting "
        "the rising or falling edge, or every change) sends 'reconfig' with the next configuration of a list "
        "to themselves or to another block, so that reconfigurations run synchronously inside cron's alarm "
        "processing, with the current alarm time, other ones or none in common (end points from a small pool "
        "of times of day shared by all blocks). Every recalc of every block is logged with the "
        "reading it was given (in-process wrapper) and the Lean acceptance predicate checks S1 (output = "
        "calendar predicate of the reading, Lean civil calendar), S2 (every boundary served within 5 ms), "
        "S3 (recalculated within 1 h + 5 ms after a jump), the legality of every group of blocks cron "
        "recalculates, and the alarm times each block registers; civil-from-days is compared with "
        "datetime for every day 1970-2100 (thorough) / about 2500 sampled days incl. all month ends around leap years (quick). distinct = hash of "
        "(lines, trace); non-trivial = at least one cron recalculation changed an output or a jump/reconfig "
        "happened")
ASSUMPTIONS = [
    "local time == UTC on the virtual clock (no DST rules); DST changes are covered only as forward clock jumps",
    "clock jumps are forward, 30 s .. 1 h (the property's range); backward jumps are not generated",
    "time is integer microseconds; each clock read costs a fixed latency; asyncio timers fire exactly on time "
    "plus the configured wake-up latency",
    "cron's sleep loop is validated by trace acceptance on the explored schedules, not verified",
]
EXHAUSTIVE = {'quick': False, 'thorough': False}

MAX_READS_PER_DAY = 2000            # a day of cron with 4 busy blocks needs about 150


class Livelock(RuntimeError):
    pass


EPOCH = vtime.EPOCH
EPOCH_ORD = EPOCH.toordinal()
US = dt.timedelta(microseconds=1)


def to_us(d):
    return (d - EPOCH) // US


def from_us(us):
    return EPOCH + dt.timedelta(microseconds=us)


# ------------------------------------------------------------------ recording wrapper (process-local)

_REC = None     # list of events while a scenario runs


def _wrap(cls):
    orig = cls.recalc

    def set_output(self, value):
        # remember every value handed to set_output: a recalc may be followed, before it returns, by a nested
        # reconfiguration of the same block (triggered by its own output event)
        self.__dict__.setdefault('_c07_sets', []).append(value)
        return super(cls, self).set_output(value)

    def recalc(self, now):
        if _REC is None or not hasattr(self, '_c07_id'):
            return orig(self, now)
        caller = sys._getframe(1).f_code.co_name
        alarms = {}
        for tod, blks in self._cron._alarms.items():
            ids = sorted(b._c07_id for b in blks if hasattr(b, '_c07_id'))
            alarms[tod_us(tod)] = ids
        if caller == '_event_reconfig':
            ev = {'k': 'config', 'blk': self._c07_id, 'state': _cfg_state(self), 'read': to_us(now), 'out': None,
                  'alarms': sorted(t for t, ids in alarms.items() if self._c07_id in ids)}
        else:
            ev = {'k': 'recalc', 'blk': self._c07_id, 'read': to_us(now), 'out': None,
                  'now_obj': now, 'cron': self._cron.name, 'alarms': alarms}
        # the record is placed BEFORE the call: everything the output change triggers synchronously (an
        # on_output event reconfiguring this or another block) follows it in the trace
        _REC.append(ev)
        sets = self.__dict__.setdefault('_c07_sets', [])
        n0 = len(sets)
        try:
            return orig(self, now)
        finally:
            ev['out'] = sets[n0] if len(sets) > n0 else self.output
    cls.recalc = recalc
    cls.set_output = set_output


def _cfg_state(blk):
    """the configuration `get_state()` would export, read from the attributes: the recalc wrapper runs inside the
    FIRST `_event_reconfig` too, when the block has no output yet and (since /repo 6d74b5d) get_state() refuses"""
    if hasattr(blk, '_span'):
        return blk._span.as_list()
    return blk._export3(blk._times, blk._dates, blk._weekdays)


def tod_us(t):
    return ((t.hour * 60 + t.minute) * 60 + t.second) * 10 ** 6 + t.microsecond


_wrap(edzed.TimeDate)
_wrap(edzed.TimeSpan)


# ------------------------------------------------------------------ scenario generation

def hms(us):
    s, u = divmod(us, 10 ** 6)
    return [s // 3600, s // 60 % 60, s % 60, u]


def stamp_list(us):
    d = from_us(us)
    return [d.year, d.month, d.day, d.hour, d.minute, d.second, d.microsecond]


NICE_TODS = [0, 1, 999999, 6 * 3600 * 10 ** 6, 12 * 3600 * 10 ** 6, 12 * 3600 * 10 ** 6 + 500,
             18 * 3600 * 10 ** 6 + 30 * 60 * 10 ** 6, DAY_US - 1, DAY_US - 1000, 23 * 3600 * 10 ** 6,
             3600 * 10 ** 6, 3600 * 10 ** 6 + 250]

START_DAYS = [(2023, 12, 31), (2024, 12, 31), (2024, 2, 28), (2024, 2, 29), (2023, 2, 28), (2100, 2, 28),
              (2000, 2, 29), (1999, 12, 31), (2024, 3, 31), (2025, 6, 30)]


def rnd_tod(rng):
    r = rng.random()
    if r < 0.3:
        return rng.choice(NICE_TODS)
    if r < 0.6:
        return rng.randrange(0, 24 * 60) * 60 * 10 ** 6         # full minute
    if r < 0.8:
        return rng.randrange(0, 86400) * 10 ** 6 + rng.choice([0, 1, 2, 500, 999, 500000])
    return rng.randrange(0, DAY_US)


def rnd_times(rng, near=None):
    """time ranges; `near` = list of times of day some end points should be close to"""
    if rng.random() < 0.06:
        return []
    out = []
    for _ in range(rng.choice([1, 1, 2, 2, 3])):
        lo = rnd_tod(rng)
        r = rng.random()
        if near and r < 0.5:
            lo = (rng.choice(near) + rng.choice([-1, 0, 1, 2, 3, 300, 700, -400])) % DAY_US
        r = rng.random()
        if r < 0.08:
            hi = lo                                              # whole day
        elif r < 0.25:
            hi = (lo + rng.choice([1, 2, 100, 900, 2000, 10 ** 6])) % DAY_US
        elif r < 0.5:
            hi = (lo + rng.randrange(60, 6 * 3600) * 10 ** 6) % DAY_US
        else:
            hi = rnd_tod(rng)
        out.append([hms(lo), hms(hi)])
    return out


MONTH_LEN = [0, 31, 29, 31, 30, 31, 30, 31, 31, 30, 31, 30, 31]


def rnd_md(rng, day0=None):
    if day0 is not None and rng.random() < 0.7:
        d = dt.date(*day0) + dt.timedelta(days=rng.randint(-2, 3))
        return [d.month, d.day]
    r = rng.random()
    if r < 0.3:
        return rng.choice([[12, 31], [1, 1], [2, 28], [2, 29], [3, 1], [12, 30], [1, 2]])
    m = rng.randint(1, 12)
    return [m, rng.randint(1, MONTH_LEN[m])]


def rnd_dates(rng, day0):
    if rng.random() < 0.06:
        return []
    out = []
    for _ in range(rng.choice([1, 1, 2])):
        lo = rnd_md(rng, day0)
        r = rng.random()
        hi = lo if r < 0.3 else rnd_md(rng, day0)
        out.append([lo, hi])
    return out


def rnd_weekdays(rng):
    r = rng.random()
    if r < 0.06:
        return []
    if r < 0.2:
        return ''.join(str(x) for x in rng.sample(range(0, 8), rng.randint(1, 4)))
    return sorted(rng.sample(range(0, 8), rng.randint(1, 6)))


def rnd_td(rng, day0, near=None):
    r = rng.random()
    if r < 0.04:
        return {'times': None, 'dates': None, 'weekdays': None}
    cfg = {'times': rnd_times(rng, near) if rng.random() < 0.85 else None,
           'dates': rnd_dates(rng, day0) if rng.random() < 0.4 else None,
           'weekdays': rnd_weekdays(rng) if rng.random() < 0.4 else None}
    return cfg


def rnd_ts(rng, t0, t1, near=None):
    """span relative to the run [t0, t1] (wall us)"""
    r = rng.random()
    if r < 0.12:
        return {'span': []}
    out = []
    for _ in range(rng.choice([1, 1, 2, 3])):
        r = rng.random()
        if r < 0.15:        # entirely in the past
            lo = t0 - rng.randrange(2, 400) * DAY_US + rnd_tod(rng)
            hi = lo + rng.randrange(1, DAY_US)
        elif r < 0.25:      # far future
            lo = t1 + rng.randrange(2, 400) * DAY_US
            hi = lo + rng.randrange(1, 3 * DAY_US)
        else:
            lo = rng.randrange(t0 - DAY_US // 2, t1)
            if near and rng.random() < 0.5:
                lo = rng.choice(near) + rng.choice([-1, 0, 1, 2, 3, 300, -400])
            elif rng.random() < 0.5:
                lo = lo // (60 * 10 ** 6) * 60 * 10 ** 6
            r2 = rng.random()
            if r2 < 0.15:
                hi = lo + rng.choice([1, 2, 900, 3000])
            elif r2 < 0.25:
                hi = lo - rng.randrange(0, 10 ** 9)              # empty range (hi <= lo)
            else:
                hi = lo + rng.randrange(60 * 10 ** 6, 2 * DAY_US)
                if rng.random() < 0.5:
                    hi = hi // (60 * 10 ** 6) * 60 * 10 ** 6
        out.append([stamp_list(lo), stamp_list(hi)])
    return {'span': out}


def cfg_boundaries_abs(kind, cfg, t0, t1):
    """boundary instants of a configuration within [t0, t1] -- used by the generator only"""
    out = []
    if kind == 'ts':
        for lo, hi in cfg['span']:
            for e in (lo, hi):
                out.append(to_us(dt.datetime(*e)))
    else:
        tods = {0}
        for lo, hi in cfg.get('times') or []:
            tods.add(tod_us(dt.time(*lo)))
            tods.add(tod_us(dt.time(*hi)))
        for day in range(t0 // DAY_US, t1 // DAY_US + 1):
            out.extend(day * DAY_US + t for t in tods)
    return sorted(b for b in out if t0 <= b <= t1)


def rnd_delta(rng, lat, ilat):
    """distance of a new end point after a reconfiguration / start: inside the window of the
    following clock reads"""
    r = rng.random()
    if r < 0.3:
        return rng.randint(1, 8)
    if r < 0.75:
        return max(1, lat * rng.randint(1, 6) + ilat * rng.randint(0, 3) + rng.choice([-1, 0, 1, lat // 2]))
    return rng.randint(1, 2000)


def gen_circuit(rng, tier):
    year, month, day = rng.choice(START_DAYS) if rng.random() < 0.7 else (
        rng.randint(1971, 2099), rng.randint(1, 12), rng.randint(1, 28))
    day0 = (year, month, day)
    lat = rng.choice([2, 2, 50, 200])
    ilat = rng.choice([0, 0, 0, 100, 400])
    ndays = rng.choice([1, 1, 2, 2, 3]) if tier == 'thorough' else rng.choice([1, 1, 1, 2])
    start_tod = rng.choice([rnd_tod(rng), DAY_US - rng.randrange(1, 4 * 3600) * 10 ** 6,
                            DAY_US - rng.randrange(1, 3000)])
    t0 = to_us(dt.datetime(year, month, day)) + start_tod
    t1 = t0 + ndays * DAY_US + rng.randrange(0, 3600) * 10 ** 6
    nblocks = rng.choice([1, 2, 2, 3, 3, 4])
    family = rng.choice(['plain', 'plain', 'startrace', 'reconfrace', 'reconfrace', 'burst', 'jump', 'jump',
                         'emptyjump'])
    blocks = []
    start_near = [t0 + rnd_delta(rng, lat, ilat) * rng.choice([1, 1, 1, 2]) for _ in range(2)]
    for i in range(nblocks):
        kind = 'td' if rng.random() < 0.65 else 'ts'
        utc = rng.random() < 0.4
        near = start_near if family == 'startrace' else None
        if kind == 'td':
            cfg = rnd_td(rng, day0, [b % DAY_US for b in near] if near else None)
        else:
            cfg = rnd_ts(rng, t0, t1, near)
        blocks.append({'kind': kind, 'utc': utc, 'cfg': cfg})
    if family == 'emptyjump':
        # a cron whose alarm table stays empty: only TimeSpans without present/future end points
        utc = rng.random() < 0.5
        blocks = [b for b in blocks if b['utc'] != utc][:3]
        for _ in range(rng.choice([1, 2])):
            r = rng.random()
            span = [] if r < 0.5 else [[stamp_list(t0 - 5 * DAY_US), stamp_list(t0 - 4 * DAY_US + 77)]]
            blocks.append({'kind': 'ts', 'utc': utc, 'cfg': {'span': span}})
    ops = []
    known = []
    for b in blocks:
        known.extend(cfg_boundaries_abs(b['kind'], b['cfg'], t0, t1))

    def some_boundary():
        if known and rng.random() < 0.8:
            return rng.choice(known)
        return rng.randrange(t0, t1)

    def reconf(w, i, place=None):
        kind = blocks[i]['kind']
        d = from_us(w)
        day_here = (d.year, d.month, d.day)
        lead = [w + rnd_delta(rng, lat, ilat) for _ in range(2)]
        near = lead if rng.random() < 0.8 else None
        if kind == 'td':
            cfg = rnd_td(rng, day_here, [b % DAY_US for b in near] if near else None)
        else:
            cfg = rnd_ts(rng, w, t1, near)
        known.extend(cfg_boundaries_abs(kind, cfg, w, t1))
        return {'op': 'reconfig', 'w': w, 'blk': i, 'cfg': cfg, 'place': place or rng.choice('BA')}

    nops = {'plain': rng.choice([0, 1, 2]), 'startrace': rng.choice([0, 1]), 'reconfrace': rng.randint(2, 6),
            'burst': rng.randint(1, 3), 'jump': rng.randint(1, 3), 'emptyjump': rng.choice([0, 1])}[family]
    for _ in range(nops):
        b = some_boundary()
        off = rng.choice([-1500, -1001, -1000, -999, -500, -3, -2, -1, 0, 1, 2, 3, 100, 600,
                          -rng.randrange(1, 3000), rng.randrange(1, 3000), rng.randrange(-10 ** 9, 10 ** 9)])
        w = min(max(b + off, t0 + 10 ** 6), t1 - 10 ** 6)
        if family == 'burst':
            # several blocks reconfigured in one instant shortly before the scheduler stops listening
            w = min(max(b - rng.choice([1001, 1002, 1050, 1100, 1200, 1400, 1001 + lat]), t0 + 10 ** 6), t1 - 10 ** 6)
            place = rng.choice('BA')
            for i in rng.sample(range(len(blocks)), rng.randint(1, len(blocks))):
                ops.append(reconf(w, i, place))
        else:
            ops.append(reconf(w, rng.randrange(len(blocks))))
    njumps = {'jump': rng.randint(1, 3), 'emptyjump': rng.randint(1, 2)}.get(family, rng.choice([0, 0, 0, 1]))
    for _ in range(njumps):
        delta = rng.choice([30 * 10 ** 6, HOUR_US, rng.randrange(30 * 10 ** 6, HOUR_US + 1),
                            rng.randrange(30 * 10 ** 6, 120 * 10 ** 6)])
        if rng.random() < 0.6:
            b = some_boundary()
            w = b - rng.choice([1, 500, 1001, 10 ** 6, rng.randrange(1, delta + 1), delta, delta + 1, delta - 1])
        else:
            w = rng.randrange(t0, t1)
        ops.append({'op': 'jump', 'w': min(max(w, t0 + 10 ** 6), t1 - 10 ** 6), 'delta': delta})
    ops.sort(key=lambda o: o['w'])
    return {'kind': 'circuit', 'family': family, 'start': t0, 'end': t1, 'lat': lat, 'ilat': ilat,
            'blocks': blocks, 'ops': ops}


SPIKES_US = [2000, 3000, 6000, 6000, 8000, 10000, 15000, 20000]


def gen_spike(rng, tier):
    """latency spikes: one to three timer wake-ups are 2..20 ms late (a load peak of the machine, injected by
    the harness), all others on time; many alarms follow, so that an error fed back into cron's wake-up
    overhead estimate has tens of alarms to grow"""
    year, month, day = rng.choice(START_DAYS) if rng.random() < 0.5 else (
        rng.randint(1971, 2099), rng.randint(1, 12), rng.randint(1, 28))
    lat = rng.choice([2, 2, 50])
    ilat = rng.choice([0, 100, 300])
    ndays = rng.choice([1, 1, 2]) if tier == 'quick' else rng.choice([1, 2, 3])
    t0 = to_us(dt.datetime(year, month, day)) + rng.randrange(0, 24 * 60) * 60 * 10 ** 6
    t1 = t0 + ndays * DAY_US + rng.randrange(0, 3600) * 10 ** 6
    blocks = []
    for i in range(rng.choice([2, 3, 4])):
        times = []
        for _ in range(rng.randint(3, 6)):
            lo = rng.randrange(0, 24 * 60) * 60 * 10 ** 6 + rng.choice([0, 0, 0, 500, 30 * 10 ** 6])
            hi = (lo + rng.randrange(5, 300) * 60 * 10 ** 6) % DAY_US
            times.append([hms(lo), hms(hi)])
        cfg = {'times': times, 'dates': None, 'weekdays': rnd_weekdays(rng) if rng.random() < 0.3 else None}
        blocks.append({'kind': 'td', 'utc': rng.random() < 0.4, 'cfg': cfg})
    if rng.random() < 0.4:
        lo = t0 + rng.randrange(HOUR_US, DAY_US) // (60 * 10 ** 6) * 60 * 10 ** 6
        blocks.append({'kind': 'ts', 'utc': rng.random() < 0.5,
                       'cfg': {'span': [[stamp_list(lo), stamp_list(lo + rng.randrange(1, 600) * 60 * 10 ** 6)]]}})
    # the alarms of the first third of the run: block boundaries and the hourly wake-ups
    alarms = []
    for b in blocks:
        alarms.extend(cfg_boundaries_abs(b['kind'], b['cfg'], t0 + 60 * 10 ** 6, t0 + (t1 - t0) // 3))
    h = (t0 // HOUR_US + 1) * HOUR_US
    while h < t0 + (t1 - t0) // 3:
        alarms.append(h)
        h += HOUR_US
    spikes = []
    for _ in range(rng.choice([1, 1, 2, 3])):
        a = rng.choice(alarms)
        spikes.append({'w': a - rng.choice([30000, 30000, 12000, 500]), 'lat': rng.choice(SPIKES_US)})
    spikes.sort(key=lambda x: x['w'])
    return {'kind': 'circuit', 'family': 'spike', 'start': t0, 'end': t1, 'lat': lat, 'ilat': ilat,
            'blocks': blocks, 'ops': [], 'spikes': spikes}


HOOK_STYLES = ['edge-rise', 'edge-fall', 'cond-rise', 'cond-fall', 'any']


def gen_hook(rng, tier):
    """blocks whose on_output events (Edge filter or EventCond selecting the rising / falling edge, or every
    change) send 'reconfig' with the next configuration of a list to themselves or to another block: the
    reconfiguration runs synchronously inside cron's alarm processing, at a boundary of the block that
    changed. All end points come from a small pool of times of day, so that blocks share alarm times and a new
    configuration has the current alarm time, other ones or none in common with the old one.
    No event loops: a block with a hook to itself (Edge filter, one edge only -- an EventCond enters event() also
    for the edge it ignores, which the recursion guard refuses) is nobody's target, other targets have no hook."""
    year, month, day = rng.choice(START_DAYS) if rng.random() < 0.4 else (
        rng.randint(1971, 2099), rng.randint(1, 12), rng.randint(1, 28))
    lat = rng.choice([2, 2, 50, 200])
    ilat = rng.choice([0, 0, 100])
    t0 = to_us(dt.datetime(year, month, day)) + rng.randrange(0, 24 * 60) * 60 * 10 ** 6 + rng.choice([0, 17, 30 * 10 ** 6])
    ndays = 1 if tier == 'quick' or rng.random() < 0.6 else 2
    t1 = t0 + ndays * DAY_US + rng.randrange(0, 3600) * 10 ** 6
    pool = sorted(rng.sample(range(0, 24 * 12), rng.randint(4, 8)))
    pool = [x * 5 * 60 * 10 ** 6 + rng.choice([0, 0, 0, 500, 10 ** 6]) for x in pool]

    def td_cfg():
        r = rng.random()
        if r < 0.08:
            return {'times': None, 'dates': None, 'weekdays': rnd_weekdays(rng)}      # no time alarm at all
        if r < 0.12:
            return {'times': [], 'dates': None, 'weekdays': None}
        times = []
        for _ in range(rng.choice([1, 1, 2, 3])):
            lo, hi = rng.sample(pool, 2)
            times.append([hms(lo), hms(hi)])
        return {'times': times, 'dates': None, 'weekdays': rnd_weekdays(rng) if rng.random() < 0.15 else None}

    def ts_cfg():
        if rng.random() < 0.1:
            return {'span': []}
        span = []
        for _ in range(rng.choice([1, 1, 2])):
            d0 = (t0 // DAY_US + rng.randint(0, ndays)) * DAY_US
            lo = d0 + rng.choice(pool)
            hi = lo + rng.choice([rng.choice(pool) + DAY_US - lo % DAY_US, rng.randrange(1, 600) * 60 * 10 ** 6])
            span.append([stamp_list(lo), stamp_list(hi)])
        return {'span': span}

    nblocks = rng.choice([1, 2, 2, 3, 3, 4])
    utc_all = rng.random() < 0.5
    blocks = []
    for i in range(nblocks):
        kind = 'td' if rng.random() < 0.75 else 'ts'
        blocks.append({'kind': kind, 'utc': utc_all if rng.random() < 0.85 else not utc_all,
                       'cfg': td_cfg() if kind == 'td' else ts_cfg()})
    # who reconfigures whom
    order = list(range(nblocks))
    rng.shuffle(order)
    nsrc = rng.randint(1, max(1, nblocks - 1)) if nblocks > 1 else 1
    sources, plain = order[:nsrc], order[nsrc:]
    for i in sources:
        if plain and rng.random() < 0.55:
            target, style = rng.choice(plain), rng.choice(HOOK_STYLES)
        else:
            target, style = i, rng.choice(HOOK_STYLES[:2])
        kind = blocks[target]['kind']
        cfgs = [td_cfg() if kind == 'td' else ts_cfg() for _ in range(rng.randint(1, 5))]
        blocks[i]['hook'] = {'style': style, 'target': target, 'cfgs': cfgs}
    return {'kind': 'circuit', 'family': 'hook', 'start': t0, 'end': t1, 'lat': lat, 'ilat': ilat,
            'blocks': blocks, 'ops': []}


def targeted(tier):
    """seed-independent schedules aimed at the windows between a block's own clock read and the
    scheduler's next one (DESIGN.md 5, rows 3 and 4)"""
    out = []
    base = to_us(dt.datetime(2024, 3, 5, 10, 30))
    for lat in (2, 50, 200):
        w = base - 7
        newb = w + lat + lat // 2
        # a new end point between the reconfiguration's clock read and cron's
        out.append({'kind': 'circuit', 'family': 'targeted-reconf', 'start': base - 1800 * 10 ** 6,
                    'end': base + 7200 * 10 ** 6, 'lat': lat, 'ilat': 0,
                    'blocks': [{'kind': 'td', 'utc': False, 'cfg': {'times': [[[12, 0], [13, 0]]], 'dates': None,
                                                                    'weekdays': None}}],
                    'ops': [{'op': 'reconfig', 'w': w, 'blk': 0, 'place': 'B',
                             'cfg': {'times': [[hms(newb % DAY_US), [11, 0, 0, 0]]], 'dates': None,
                                     'weekdays': None}}]})
        out.append({'kind': 'circuit', 'family': 'targeted-reconf', 'start': base - 1800 * 10 ** 6,
                    'end': base + 7200 * 10 ** 6, 'lat': lat, 'ilat': 0,
                    'blocks': [{'kind': 'ts', 'utc': True, 'cfg': {'span': []}}],
                    'ops': [{'op': 'reconfig', 'w': w, 'blk': 0, 'place': 'B',
                             'cfg': {'span': [[stamp_list(newb), stamp_list(newb + 1800 * 10 ** 6)]]}}]})
    # forward jump with an empty alarm table
    for delta in (30 * 10 ** 6, 120 * 10 ** 6, HOUR_US):
        out.append({'kind': 'circuit', 'family': 'targeted-emptyjump', 'start': base, 'end': base + 3 * HOUR_US,
                    'lat': 2, 'ilat': 0,
                    'blocks': [{'kind': 'ts', 'utc': False, 'cfg': {'span': []}}],
                    'ops': [{'op': 'jump', 'w': base + 600 * 10 ** 6, 'delta': delta}]})
    # an alarm so close to midnight that the clock reading after it belongs to the next day, and a
    # forward jump over midnight while cron sleeps towards an alarm of the old day
    eve = to_us(dt.datetime(2023, 12, 31, 20, 0))
    for lat in (50, 200):
        out.append({'kind': 'circuit', 'family': 'targeted-midnight', 'start': eve, 'end': eve + 30 * HOUR_US,
                    'lat': lat, 'ilat': 0,
                    'blocks': [{'kind': 'td', 'utc': False,
                                'cfg': {'times': [[[23, 59, 59, 999900], [23, 59, 59, 999990]], [[6, 0], [7, 0]]],
                                        'dates': [[[1, 1], [1, 1]]], 'weekdays': None}}],
                    'ops': []})
    for delta in (1800 * 10 ** 6, HOUR_US):
        out.append({'kind': 'circuit', 'family': 'targeted-midnight', 'start': eve, 'end': eve + 30 * HOUR_US,
                    'lat': 2, 'ilat': 0,
                    'blocks': [{'kind': 'td', 'utc': True,
                                'cfg': {'times': [[[23, 50], [0, 30]]], 'dates': None, 'weekdays': [1]}}],
                    'ops': [{'op': 'jump', 'w': eve + 3 * HOUR_US + 2700 * 10 ** 6, 'delta': delta}]})
    # a one-shot window that re-schedules itself at its falling edge (inside cron's alarm processing), a second
    # block at the same alarm time; and a block that moves ANOTHER block of the same alarm away
    sun = to_us(dt.datetime(2024, 3, 10, 10, 0))
    w = lambda a, z: {'times': [[a, z]], 'dates': None, 'weekdays': None}       # noqa: E731
    for style, tgt in (('edge-fall', 0), ('cond-fall', 1)):
        out.append({'kind': 'circuit', 'family': 'targeted-hook', 'start': sun, 'end': sun + 5 * HOUR_US,
                    'lat': 2, 'ilat': 0,
                    'blocks': [{'kind': 'td', 'utc': False, 'cfg': w([10, 30], [11, 0]),
                                'hook': {'style': style, 'target': tgt,
                                         'cfgs': [w([11, 30], [12, 0]), w([12, 0], [12, 30]), w([13, 0], [13, 30])]}},
                               {'kind': 'td', 'utc': False, 'cfg': w([10, 45], [11, 0])}],
                    'ops': []})
    out.append({'kind': 'circuit', 'family': 'targeted-hook', 'start': sun, 'end': sun + 5 * HOUR_US,
                'lat': 50, 'ilat': 0,
                'blocks': [{'kind': 'td', 'utc': True, 'cfg': w([10, 30], [11, 0]),
                            'hook': {'style': 'any', 'target': 1,
                                     'cfgs': [w([11, 30], [12, 0]), w([11, 0], [12, 30]), w([13, 0], [13, 30])]}},
                           {'kind': 'td', 'utc': True, 'cfg': w([10, 30], [11, 0])},
                           {'kind': 'td', 'utc': True, 'cfg': w([9, 0], [11, 0])}],
                'ops': []})
    # one single wake-up (the one before 11:00) is 6 / 10 / 20 ms late, then a day and a half of alarms
    wed = to_us(dt.datetime(2026, 3, 4, 9, 50))
    for sp in (6000, 10000, 20000):
        out.append({'kind': 'circuit', 'family': 'targeted-spike', 'start': wed, 'end': wed + 36 * HOUR_US,
                    'lat': 2, 'ilat': 300 if sp == 6000 else 0,
                    'blocks': [{'kind': 'td', 'utc': False,
                                'cfg': {'times': [[[8, 0], [9, 0]], [[13, 30], [14, 15]], [[20, 0], [2, 30]]],
                                        'dates': None, 'weekdays': None}},
                               {'kind': 'ts', 'utc': True,
                                'cfg': {'span': [[[2026, 3, 5, 8, 0], [2026, 3, 5, 8, 30]]]}}],
                    'ops': [], 'spikes': [{'w': wed + 70 * 60 * 10 ** 6 - 30000, 'lat': sp}]})
    # several blocks reconfigured at once just before the scheduler's final short sleep: the reload is
    # handled after the alarm time of ANOTHER block
    for n, lat, ilat in ((4, 200, 100), (3, 200, 400), (4, 200, 0), (2, 200, 400)):
        w = base - 1001
        blocks = [{'kind': 'td', 'utc': False, 'cfg': {'times': [[[10, 30], [11, 0]]], 'dates': None,
                                                       'weekdays': None}}]
        ops = []
        for i in range(n):
            blocks.append({'kind': 'td', 'utc': False, 'cfg': {'times': [[[12, 0], [13, 0]]], 'dates': None,
                                                               'weekdays': None}})
            ops.append({'op': 'reconfig', 'w': w, 'blk': i + 1, 'place': 'B',
                        'cfg': {'times': [[[14, 0, 1 + i], [15, 0]]], 'dates': None, 'weekdays': None}})
        out.append({'kind': 'circuit', 'family': 'targeted-burst', 'start': base - 1800 * 10 ** 6,
                    'end': base + 3600 * 10 ** 6, 'lat': lat, 'ilat': ilat, 'blocks': blocks[:5], 'ops': ops})
    return out


def scenarios(rng, tier):
    # civil-from-days against datetime
    last = (dt.date(2100, 12, 31).toordinal() - EPOCH_ORD)
    if tier == 'thorough':
        step = 2000
        for a in range(0, last + 1, step):
            yield {'kind': 'civil', 'days': [a, min(a + step, last + 1)]}
    else:
        days = set(rng.sample(range(0, last + 1), 2400))
        for y in (1970, 1972, 1999, 2000, 2001, 2023, 2024, 2025, 2096, 2099, 2100):
            for m, d in ((1, 1), (2, 28), (3, 1), (12, 31), (12, 30), (2, 27), (6, 30), (7, 1)):
                o = dt.date(y, m, d).toordinal() - EPOCH_ORD
                days.update((o, o + 1))
        days = sorted(x for x in days if 0 <= x <= last)
        for i in range(0, len(days), 400):
            yield {'kind': 'civil', 'list': days[i:i + 400]}
    yield from targeted(tier)
    n = 5000 if tier == 'quick' else 200000
    for i in range(n):
        yield gen_spike(rng, tier) if i % 8 == 7 else gen_hook(rng, tier) if i % 8 == 3 else gen_circuit(rng, tier)


def shrink(scn):
    if scn.get('kind') != 'circuit':
        return
    ops = scn['ops']
    for i in reversed(range(len(ops))):
        yield {**scn, 'ops': ops[:i] + ops[i + 1:]}
    spikes = scn.get('spikes') or []
    for i in reversed(range(len(spikes))):
        yield {**scn, 'spikes': spikes[:i] + spikes[i + 1:]}
    hooked = [i for i, blk in enumerate(scn['blocks']) if blk.get('hook')]
    for i in hooked:
        hook = scn['blocks'][i]['hook']
        blocks = list(scn['blocks'])
        blocks[i] = {k: v for k, v in blocks[i].items() if k != 'hook'}
        yield {**scn, 'blocks': blocks}
        if len(hook['cfgs']) > 1:
            blocks = list(scn['blocks'])
            blocks[i] = {**blocks[i], 'hook': {**hook, 'cfgs': hook['cfgs'][:-1]}}
            yield {**scn, 'blocks': blocks}
    # drop a block that no op refers to (re-indexing the others)
    used = {o['blk'] for o in ops if o['op'] == 'reconfig'}
    if hooked:
        used = set(range(len(scn['blocks'])))
    for i in reversed(range(len(scn['blocks']))):
        if i not in used and len(scn['blocks']) > 1:
            new_ops = [dict(o, blk=o['blk'] - 1) if o['op'] == 'reconfig' and o['blk'] > i else o for o in ops]
            yield {**scn, 'blocks': scn['blocks'][:i] + scn['blocks'][i + 1:], 'ops': new_ops}
    span = scn['end'] - scn['start']
    last_op = max([o['w'] for o in ops], default=scn['start'])
    for cut in (span // 2, span // 4, 3 * HOUR_US):
        end = max(scn['start'] + cut, last_op + 2 * HOUR_US + 10 ** 6)
        if end < scn['end']:
            yield {**scn, 'end': end}
    if scn['ilat']:
        yield {**scn, 'ilat': 0}


# ------------------------------------------------------------------ encoding for the Lean driver

def enc_times(v):
    if v is None:
        return '-'
    if not v:
        return 'e'
    return ','.join(f'{tod_us(dt.time(*lo))}~{tod_us(dt.time(*hi))}' for lo, hi in v)


def enc_dates(v):
    if v is None:
        return '-'
    if not v:
        return 'e'
    return ','.join(f'{lo[0]}.{lo[1]}~{hi[0]}.{hi[1]}' for lo, hi in v)


def enc_wd(v):
    if v is None:
        return '-'
    if not v:
        return 'e'
    return ','.join(str(x) for x in v)


def enc_stamp(e):
    e = list(e) + [0] * (7 - len(e))
    return f'{e[0]}.{e[1]}.{e[2]}.{tod_us(dt.time(*e[3:7]))}'


def enc_cfg(kind, state):
    """`state` = get_state() of the real block (parsed integer end points)"""
    if kind == 'td':
        return f"td:{enc_times(state['times'])}:{enc_dates(state['dates'])}:{enc_wd(state['weekdays'])}"
    if not state:
        return 'ts:e'
    return 'ts:' + ','.join(f'{enc_stamp(lo)}~{enc_stamp(hi)}' for lo, hi in state)


def enc_ids(ids, sep='.'):
    return sep.join(str(i) for i in ids) if ids else 'e'


def enc_alarms(alarms):
    if not alarms:
        return 'e'
    return ','.join(f'{t}={enc_ids(alarms[t])}' for t in sorted(alarms))


def b(v):
    return 'b1' if v is True else 'b0' if v is False else 'x'


# ------------------------------------------------------------------ implementation runner

def run_civil(scn):
    days = scn.get('list')
    if days is None:
        days = range(*scn['days'])
    lines, trace = [], []
    for d in days:
        x = dt.date.fromordinal(EPOCH_ORD + d)
        lines.append(f'cron civil {d}')
        trace.append(f'{x.year}-{x.month}-{x.day}-{x.isoweekday()}')
    return {'lines': lines, 'trace': trace, 'tags': ['civil'], 'nontrivial': True, 'events': []}


def probe_instants(cfgs, now, horizon):
    """instants worth sampling in (now, horizon]: 10 ms before and after every boundary of every block and
    the midpoints between consecutive distinct boundaries"""
    bs = set()
    for kind, cfg in cfgs:
        bs.update(cfg_boundaries_abs(kind, cfg, now - PROBE_US, horizon + PROBE_US))
    bs = sorted(bs)
    cand = set()
    for x in bs:
        cand.add(x - PROBE_US)
        cand.add(x + PROBE_US)
    for x, y in zip(bs, bs[1:]):
        if y - x > 4 * PROBE_US:
            cand.add((x + y) // 2)
    return sorted(c for c in cand if now < c <= horizon)


def run_impl(scn):
    global _REC
    if scn.get('kind') == 'civil':
        return run_civil(scn)
    world = vtime.World(from_us(scn['start']))
    world.read_latency_us = scn['lat']
    # watchdog: a scheduler that reads the clock in a tight loop without ever sleeping blocks the whole
    # event loop; it is stopped (the exception terminates the simulation, which the oracle reports)
    budget = MAX_READS_PER_DAY * ((scn['end'] - scn['start']) // DAY_US + 2)
    plain_read = world.read

    def counted_read():
        if world.reads > budget:
            raise Livelock(f'more than {budget} clock reads: the scheduler is spinning')
        return plain_read()
    world.read = counted_read
    vtime.install(world)
    sim = Sim(world)
    events = _REC = []
    info = {'error': None, 'done': False}

    cur = [(s['kind'], s['cfg']) for s in scn['blocks']]     # configuration in force (for the probe planner)

    def hook_event(i, hook):
        """on_output event of block i: send 'reconfig' with the next configuration of the hook's list to the
        target block -- synchronously, i.e. inside cron's alarm processing when cron's recalc changed the output"""
        queue = list(enumerate(hook['cfgs']))
        target = hook['target']
        style = hook['style']

        def pick(data):
            if not queue or _REC is None or data.get('previous') is edzed.UNDEF:
                return False
            # the filters run before an EventCond is resolved: consume a configuration only when an event
            # will really be sent; keep 'value' in the data, the EventCond selects by it
            if (style == 'cond-rise' and not data.get('value')) or (style == 'cond-fall' and data.get('value')):
                return data
            n, cfg = queue.pop(0)
            events.append({'k': 'hook', 'src': i, 'blk': target, 'n': n})
            cur[target] = (cur[target][0], cfg)
            return {**data, **cfg}
        pick.__name__ = f'pick{i}'
        if style == 'edge-rise':
            return edzed.Event(f'b{target}', 'reconfig', efilter=(edzed.Edge(rise=True, u_rise=False), pick))
        if style == 'edge-fall':
            return edzed.Event(f'b{target}', 'reconfig', efilter=(edzed.Edge(fall=True), pick))
        if style == 'cond-rise':
            return edzed.Event(f'b{target}', edzed.EventCond('reconfig', None), efilter=pick)
        if style == 'cond-fall':
            return edzed.Event(f'b{target}', edzed.EventCond(None, 'reconfig'), efilter=pick)
        return edzed.Event(f'b{target}', 'reconfig', efilter=pick)       # 'any': every change

    def build(circuit):
        blks = []
        for i, spec in enumerate(scn['blocks']):
            kw = {}
            if spec.get('hook'):
                kw['on_output'] = hook_event(i, spec['hook'])
            if spec['kind'] == 'td':
                blk = edzed.TimeDate(f'b{i}', utc=spec['utc'], **spec['cfg'], **kw)
            else:
                blk = edzed.TimeSpan(f'b{i}', utc=spec['utc'], **spec['cfg'], **kw)
            blk._c07_id = i
            blks.append(blk)
        return blks

    async def drive(sim, blks):
        loop = sim.loop
        loop.iter_latency_us = scn['ilat']
        spikes = sorted(scn.get('spikes') or [], key=lambda x: x['w'])
        plain_run_once = loop._run_once

        def run_once():
            # injected latency spike: the first batch of timer callbacks due at/after `w` runs `lat` us late
            # (all timers of this loop belong to the cron tasks; the driver itself uses none)
            if spikes:
                nxt = loop.next_timer_us()
                if nxt is not None:
                    jumps = not loop._ready and nxt > loop.now_us and not getattr(loop, 'hold', False)
                    if jumps or nxt <= loop.now_us:
                        due = world.now_us() + (max(nxt, loop.now_us) - loop.now_us)
                        if due >= spikes[0]['w']:
                            sp = spikes.pop(0)
                            events.append({'k': 'late', 't': due, 'delta': sp['lat']})
                            saved = loop.iter_latency_us
                            loop.iter_latency_us = saved + sp['lat']
                            try:
                                plain_run_once()
                            finally:
                                loop.iter_latency_us = saved
                            return
            plain_run_once()
        if spikes:
            loop._run_once = run_once
        ops = list(scn['ops'])

        async def goto(wall, place, exact=False):
            delta = wall - world.now_us()
            if delta <= 0:
                return
            if not exact or not scn['ilat']:
                await goto0(wall, place, delta)
                return
            if delta > APPROACH_US:
                await vtime.advance_to(loop, loop.now_us + delta - APPROACH_US)
                delta = wall - world.now_us()
                if delta <= 0:
                    return
            # the driver is the environment: it acts at exact instants, so the wake-up latency of the loop
            # is switched off during its own final approach
            loop.iter_latency_us = 0
            try:
                await goto0(wall, place, delta)
            finally:
                loop.iter_latency_us = scn['ilat']

        async def goto0(wall, place, delta):
            if place == 'B':
                # stop one microsecond earlier, then set the clock: the timers of `wall` have not run
                if delta > 1:
                    await vtime.advance_to(loop, loop.now_us + delta - 1)
                delta = wall - world.now_us()
                if delta > 0:
                    loop.set_us(loop.now_us + delta)
            else:
                await vtime.advance_to(loop, loop.now_us + delta)

        def probe():
            t = world.now_us()
            for i, blk in enumerate(blks):
                events.append({'k': 'probe', 't': t, 'blk': i, 'out': blk.output})

        probe()
        while True:
            now = world.now_us()
            if sim.circuit.error is not None or sim.simtask.done():
                break
            nxt_op = ops[0]['w'] if ops else None
            horizon = min(scn['end'], nxt_op if nxt_op is not None else scn['end'], now + DAY_US)
            pr = probe_instants(cur, now, horizon)
            if pr:
                await goto(pr[0], 'A')
                probe()
                continue
            if horizon > now and (nxt_op is None or horizon < nxt_op):
                await goto(horizon, 'A')
                if horizon >= scn['end']:
                    break
                continue
            if nxt_op is None:
                break
            await goto(nxt_op, ops[0].get('place', 'A'), exact=True)
            # everything due now happens back to back, without yielding to the loop
            while ops and ops[0]['w'] <= world.now_us():
                op = ops.pop(0)
                if op['op'] == 'jump':
                    events.append({'k': 'jump', 't': world.now_us(), 'delta': op['delta']})
                    world.jump(op['delta'])
                else:
                    events.append({'k': 'op', 'blk': op['blk'], 'idx': scn['ops'].index(op)})
                    kind, val = sim.send(blks[op['blk']], 'reconfig', **op['cfg'])
                    if kind == 'err':
                        events.append({'k': 'operr', 'what': repr(val)})
                    cur[op['blk']] = (cur[op['blk']][0], op['cfg'])
        probe()
        info['error'] = sim.circuit.error
        info['done'] = True

    try:
        sim.run(build, drive)
    finally:
        _REC = None
        vtime.uninstall()
    if sim.init_error is not None:
        info['error'] = sim.init_error
    # the service blocks of the circuit and the one each client holds (`_get_cron`)
    import edzed.blocklib.cron as _cronmod
    services = sorted(blk.name for blk in sim.circuit.getblocks(_cronmod.Cron))
    held = []
    for blk in sim.circuit.getblocks():
        if hasattr(blk, '_c07_id'):
            held.append([blk._c07_id, blk._cron.name, bool(blk._cron._utc)])

    # ---- protocol lines
    lines = [f'cron reset {LAMBDA_US} {BOUND_US}']
    trace = ['ok']
    kinds = [s['kind'] for s in scn['blocks']]
    group_obj = group_cron = None
    nested = False
    after_jump = {}
    changes = 0
    prev_out = {}
    for n, ev in enumerate(events):
        k = ev['k']
        if k == 'config':
            lines.append(f"cron config {ev['blk']} {enc_cfg(kinds[ev['blk']], ev['state'])} {ev['read']} {b(ev['out'])}")
            trace.append('ok')
            lines.append(f"cron alarms {ev['blk']}")
            trace.append(','.join(str(t) for t in ev['alarms']) or 'e')
            if not nested:          # a reconfiguration made inside cron's alarm processing does not end the group
                group_obj = None
            nested = False
        elif k == 'hook':
            nested = True
        elif k == 'recalc':
            if ev['now_obj'] is not group_obj or ev['cron'] != group_cron:
                group_obj, group_cron = ev['now_obj'], ev['cron']
                members = []
                for ev2 in events[n:]:
                    if ev2['k'] in ('hook', 'config'):
                        continue            # nested reconfigurations triggered by output events
                    if ev2['k'] != 'recalc' or ev2['now_obj'] is not group_obj or ev2['cron'] != group_cron:
                        break
                    members.append(ev2['blk'])
                lines.append(f"cron group {ev['read']} {enc_alarms(ev['alarms'])} {enc_ids(sorted(set(members)))}")
                trace.append('ok')
                if after_jump.get(group_cron):
                    after_jump[group_cron] = False
                    lines.append(f"cron targets {enc_alarms(ev['alarms'])}")
                    trace.append(enc_ids(sorted(set(members))))
            lines.append(f"cron recalc {ev['blk']} {ev['read']} {b(ev['out'])}")
            trace.append('ok')
            if prev_out.get(ev['blk']) is not None and prev_out[ev['blk']] != ev['out']:
                changes += 1
        elif k == 'jump':
            lines.append(f"cron jump {ev['t']} {ev['delta']}")
            trace.append('ok')
            after_jump = {'_cron_local': True, '_cron_utc': True}
            group_obj = None
        elif k == 'probe':
            lines.append(f"cron probe {ev['t']} {ev['blk']} {b(ev['out'])}")
            trace.append('ok')
            group_obj = None
        elif k == 'late':
            lines.append(f"cron late {ev['t']} {ev['delta']}")
            trace.append('ok')
            group_obj = None
        else:
            group_obj = None
        if 'out' in ev and k != 'probe':
            prev_out[ev['blk']] = ev['out']
    for ev in events:
        ev.pop('now_obj', None)
        if ev['k'] == 'recalc':
            ev.pop('alarms', None)
    njump = sum(1 for o in scn['ops'] if o['op'] == 'jump')
    nrec = sum(1 for o in scn['ops'] if o['op'] == 'reconfig')
    d0 = from_us(scn['start'])
    tags = [f"family={scn['family']}", f"lat={scn['lat']}", f"ilat={scn['ilat']}", f"blocks={len(scn['blocks'])}",
            f"jumps={njump}", f"reconfigs={min(nrec, 4)}", f"spikes={len(scn.get('spikes') or [])}",
            f"hooks={sum(1 for s in scn['blocks'] if s.get('hook'))}",
            f"nested_reconfigs={min(sum(1 for e in events if e['k'] == 'hook'), 5)}", f"days={(scn['end'] - scn['start']) // DAY_US}",
            'crons=' + '+'.join(sorted({'utc' if s['utc'] else 'local' for s in scn['blocks']}))]
    tags += sorted({f"kind={s['kind']}" for s in scn['blocks']})
    if (d0.month, d0.day) in ((12, 31), (12, 30)):
        tags.append('year-end')
    if (d0.month, d0.day) in ((2, 28), (2, 29), (2, 27)):
        tags.append('feb-end')
    return {'lines': lines, 'trace': trace, 'events': events, 'tags': tags,
            'nontrivial': changes > 0 or njump > 0 or nrec > 0,
            'error': repr(info['error']) if info['error'] is not None else None, 'completed': info['done'],
            'services': services, 'held': sorted(held),
            'reads': world.reads}


# ------------------------------------------------------------------ independent oracle

def _tod(e):
    e = list(e) + [0] * (4 - len(e))
    return dt.timedelta(hours=e[0], minutes=e[1], seconds=e[2], microseconds=e[3])


_DAY = dt.timedelta(days=1)


def expect_td(cfg, now):
    """documented meaning of TimeDate (docs/sblocks2.rst), computed with timedelta arithmetic"""
    times, dates, weekdays = cfg.get('times'), cfg.get('dates'), cfg.get('weekdays')
    if times is None and dates is None and weekdays is None:
        return False
    if times is not None:
        x = now - now.replace(hour=0, minute=0, second=0, microsecond=0)
        ok = False
        for lo, hi in times:
            lo, hi = _tod(lo), _tod(hi)
            if lo == hi or (x - lo) % _DAY < (hi - lo) % _DAY:
                ok = True
        if not ok:
            return False
    if dates is not None:
        def doy(md):
            return dt.date(2000, md[0], md[1]).timetuple().tm_yday      # a leap year: Feb 29 exists
        x = doy((now.month, now.day))
        if not any((x - doy(lo)) % 366 <= (doy(hi) - doy(lo)) % 366 for lo, hi in dates):
            return False
    if weekdays is not None:
        wd = {int(c) % 7 for c in weekdays if c not in (' ', '\t')} if isinstance(weekdays, str) else \
            {int(c) % 7 for c in weekdays}
        if (now.weekday() + 1) % 7 not in wd:        # 0 = Sunday
            return False
    return True


def expect_ts(cfg, now):
    return any(dt.datetime(*lo) <= now < dt.datetime(*hi) for lo, hi in cfg['span'])


def oracle_boundaries(kind, cfg, t):
    """is a documented boundary of the configuration within (t - 10 ms, t + 1 ms]?"""
    lo_t, hi_t = t - PROBE_US, t + 1000
    if kind == 'ts':
        pts = [to_us(dt.datetime(*e)) for r in cfg['span'] for e in r]
        return any(lo_t < p <= hi_t for p in pts)
    tods = {0}
    for r in cfg.get('times') or []:
        for e in r:
            tods.add(_tod(e) // US)
    for day in (lo_t // DAY_US, hi_t // DAY_US, hi_t // DAY_US + 1):
        if any(lo_t < day * DAY_US + x <= hi_t for x in tods):
            return True
    return False


def oracle(scn, res):
    if scn.get('kind') != 'circuit':
        return []
    out = []
    cur = [(s['kind'], s['cfg']) for s in scn['blocks']]
    last_jump = None
    lates = []
    judged = 0
    seen = set()
    for ev in res['events']:
        k = ev['k']
        if k == 'op':
            op = scn['ops'][ev['idx']]
            cur[ev['blk']] = (cur[ev['blk']][0], op['cfg'])
        elif k == 'hook':
            cfgs = scn['blocks'][ev['src']]['hook']['cfgs']
            cur[ev['blk']] = (cur[ev['blk']][0], cfgs[ev['n']])
        elif k == 'operr':
            if res.get('error') is None:    # otherwise a consequence of the terminated simulation, reported below
                out.append({'clause': 'reconfig_accepted', 'what': f"reconfig raised {ev['what']}"})
        elif k == 'jump':
            last_jump = ev['t'] + ev['delta']
        elif k == 'late':
            lates.append((ev['t'], ev['delta']))
        elif k == 'probe':
            kind, cfg = cur[ev['blk']]
            t = ev['t']
            if any(tl - 1000 <= t <= tl + d + PROBE_US for tl, d in lates[-3:]):
                continue        # inside the window of an injected delay: not cron's doing
            if last_jump is not None and t <= last_jump + BOUND_US + PROBE_US:
                continue
            if oracle_boundaries(kind, cfg, t):
                continue
            now = from_us(t)
            want = expect_td(cfg, now) if kind == 'td' else expect_ts(cfg, now)
            judged += 1
            if ev['out'] is not want and (ev['blk'], 'o') not in seen:
                seen.add((ev['blk'], 'o'))
                out.append({'clause': 'output_follows_clock' if last_jump is None else 'recovers_after_jump',
                            'what': f"block b{ev['blk']} ({kind} {cfg}) shows {ev['out']!r} at {now.isoformat()}, "
                                    f"the calendar says {want!r}"
                                    + (f" (last clock jump arrived at {from_us(last_jump).isoformat()})"
                                       if last_jump is not None else ''),
                            'sig': {'after_jump': last_jump is not None}})
    # one service block per time-zone kind, shared by all clients of that kind
    want = sorted({'_cron_utc' if s['utc'] else '_cron_local' for s in scn['blocks']})
    if res.get('services') != want or any(
            name != ('_cron_utc' if scn['blocks'][i]['utc'] else '_cron_local') or utc != scn['blocks'][i]['utc']
            for i, name, utc in res.get('held', [])):
        out.append({'clause': 'one_service_per_kind',
                    'what': f"service blocks {res.get('services')} (expected {want}); clients hold {res.get('held')}"})
    if res.get('error') is not None or not res.get('completed'):
        out.append({'clause': 'jump_never_terminates' if last_jump is not None else 'simulation_keeps_running',
                    'what': f"the simulation terminated: Circuit.error = {res.get('error')}"
                            + (' after a forward clock jump' if last_jump is not None else ''),
                    'sig': {'error': (res.get('error') or '').split('(')[0]}})
    return out
