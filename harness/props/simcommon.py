"""
Shared by C01 and C10: build a real circuit from a scenario, run it through the REAL simulator
task on the virtual loop, record the order of CBlock evaluations, and emit the protocol
lines / canonical trace for the Lean simulator model (lean/EdzedModel/Simulate.lean).
"""
import asyncio
import contextlib
import itertools
import signal
import threading

import edzed

from .. import vtime
from ..enc import enc

_EVAL_LOG = None


class Watchdog(Exception):
    """the real code kept the CPU for too long without giving control back (a busy loop)"""


@contextlib.contextmanager
def watchdog(seconds=20.0):
    """interrupt a synchronous endless loop of the code under test: after `seconds` of wall time the
    exception `Watchdog` is raised inside whatever is running (only in the main thread of a process)"""
    if threading.current_thread() is not threading.main_thread():
        yield
        return

    def handler(signum, frame):
        raise Watchdog(f'no progress for {seconds} s')
    old = signal.signal(signal.SIGALRM, handler)
    signal.setitimer(signal.ITIMER_REAL, seconds)
    try:
        yield
    finally:
        signal.setitimer(signal.ITIMER_REAL, 0)
        signal.signal(signal.SIGALRM, old)
_orig_eval_block = edzed.CBlock.eval_block


def _logging_eval_block(self):
    changed = _orig_eval_block(self)
    if _EVAL_LOG is not None:
        _EVAL_LOG.append((self.name, changed, self.output))
    return changed


edzed.CBlock.eval_block = _logging_eval_block    # process-local wrapper, records the evaluation order

CALLS = {'n': 0}


def _count(f):
    def wrapper(*a, **kw):
        CALLS['n'] += 1
        return f(*a, **kw)
    return wrapper


FUNCS = {
    ('cnt', True): lambda *a: sum(1 for v in a if v),
    ('cnt', False): lambda a: sum(1 for v in a if v),
    ('sel', True): lambda *a, c, x, y: x if c else y,
    ('sel', False): lambda a, c, x, y: x if c else y,
    ('glen', True): lambda *a, g: sum(1 for v in g if v) + len(a),
    ('glen', False): lambda a, g: sum(1 for v in g if v) + len(a),
    # a result CPython does not intern: every call returns a FRESH int object equal to the previous one
    ('big', True): lambda *a: 1000 + sum(1 for v in a if v),
    ('big', False): lambda a: 1000 + sum(1 for v in a if v),
}


class _Sink(edzed.SBlock):
    """destination of output events that have no effect on the circuit"""

    def _event(self, etype, data):
        if etype == 'nosuch':
            raise edzed.EdzedUnknownEvent(f'{self}: unknown event type {etype!r}')
        return None

    def init_regular(self):
        self.set_output(None)


def ref_obj(ref, byname, blocks):
    """scenario reference -> argument for connect()"""
    kind, x = ref
    if kind == 'k':
        v = tuple(x) if isinstance(x, list) else x
        return edzed.Const(v) if byname or isinstance(v, (tuple, str)) else v
    name = {'s': f's{x}', 'c': f'c{x}', 'ns': f'_not_s{x}', 'nc': f'_not_c{x}'}[kind]
    if kind in ('s', 'c') and not byname and name in blocks:
        return blocks[name]
    return name


def build(scn, circuit):
    blocks = {}
    for i, sb in enumerate(scn['sblocks']):
        cls = edzed.Input if sb['kind'] == 'input' else edzed.Counter
        kw = {}
        if sb.get('sink'):
            # output events to a block that ignores them: 'every' -> on_every_output, 'out' -> on_output
            if 'sink' not in blocks:
                blocks['sink'] = _Sink('sink')
            for mode in sb['sink']:
                if mode == 'unk':
                    # an event type the destination does not know (not at start: the change from UNDEF is filtered)
                    kw['on_output'] = edzed.Event('sink', 'nosuch', efilter=edzed.not_from_undef)
                else:
                    kw['on_every_output' if mode == 'every' else 'on_output'] = edzed.Event('sink', 'ev')
        blocks[f's{i}'] = cls(f's{i}', initdef=sb['init'], **kw)
    order = scn.get('order') or list(range(len(scn['cblocks'])))
    for j in order:
        cb = scn['cblocks'][j]
        name = f'c{j}'
        kw = {}
        if cb.get('events'):
            kw['on_output'] = [edzed.Event(f's{i}', et) for i, et in cb['events']]
        fn = cb['fn']
        if fn == 'not':
            blk = edzed.Not(name, **kw)
        elif fn == 'and':
            blk = edzed.And(name, **kw)
        elif fn == 'or':
            blk = edzed.Or(name, **kw)
        elif fn == 'xor':
            blk = edzed.Xor(name, **kw)
        elif fn == 'ovr':
            blk = edzed.Override(name, null_value=cb['null'], **kw)
        elif fn == 'cmp':
            blk = edzed.Compare(name, low=cb['low'], high=cb['high'], **kw)
        elif fn == 'f':
            blk = edzed.FuncBlock(name, func=_count(FUNCS[(cb['script'], cb['unpack'])]),
                                  unpack=cb['unpack'], **kw)
        else:
            raise ValueError(fn)
        byname = cb.get('byname', False)
        pos = [ref_obj(r, byname, blocks) for r in cb.get('pos', [])]
        named = {k: ref_obj(r, byname, blocks) for k, r in cb.get('named', {}).items()}
        groups = {k: [ref_obj(r, byname, blocks) for r in g] for k, g in cb.get('groups', {}).items()}
        blk.connect(*pos, **named, **groups)
        blocks[name] = blk
    # record what every FuncBlock (incl. And / Or / Xor) passes to its function
    for blk in blocks.values():
        if isinstance(blk, edzed.FuncBlock):
            blk._func = _recording(blk.name, blk._func)
    return blocks


LAST_CALL = {}


def _recording(name, f):
    def wrapper(*a, **kw):
        r = f(*a, **kw)
        LAST_CALL[name] = (a, dict(kw), r)
        return r
    return wrapper


def call_str(scn, blk):
    """canonical rendering of the last call of a FuncBlock's function, read against the DOCUMENTED shape:
    unnamed inputs as separate values (unpack) or one tuple, named singles as values, named groups as tuples;
    anything else is rendered `?…` and cannot match the model"""
    cb = scn['cblocks'][int(blk.name[1:])]
    unpack = cb['unpack'] if cb['fn'] == 'f' else False
    a, kw, r = LAST_CALL[blk.name]

    def senc(v):
        try:
            return enc(v)
        except Exception:               # not a value of the model's domain (e.g. a tuple where a value belongs)
            return '?' + repr(v).replace(' ', '')

    def many(v):
        return 'm:' + '|'.join(senc(x) for x in v) if isinstance(v, tuple) else '?' + repr(v).replace(' ', '')
    if unpack:
        pos = ['o:' + senc(v) for v in a]
    else:
        pos = [many(v) for v in a] if len(a) == 1 else ['?' + repr(a).replace(' ', '')]
    kws = []
    for k in sorted(kw):
        if k in cb.get('named', {}):
            kws.append(f'{k}=o:' + senc(kw[k]))
        elif k in cb.get('groups', {}):
            kws.append(f'{k}=' + many(kw[k]))
        else:
            kws.append(f'{k}=?')
    out = 'args pos=' + ','.join(pos) + ' kw=' + ','.join(kws)
    if cb['fn'] == 'f':
        out += ' val=' + senc(r)
    return out


def fn_token(cb):
    fn = cb['fn']
    if fn in ('not', 'and', 'or', 'xor'):
        return fn
    if fn == 'ovr':
        return 'ovr~' + enc(cb['null'])
    if fn == 'cmp':
        from fractions import Fraction
        lo, hi = Fraction(cb['low']), Fraction(cb['high'])
        return f'cmp~{lo.numerator}/{lo.denominator}~{hi.numerator}/{hi.denominator}'
    return f"f~{cb['script']}~{1 if cb['unpack'] else 0}"


def reset_line(scn, circuit):
    """describe the FINALIZED circuit as the real objects show it"""
    cblocks = list(circuit.getblocks(edzed.CBlock))
    cidx = {b.name: j for j, b in enumerate(cblocks)}
    sidx = {f's{i}': i for i in range(len(scn['sblocks']))}

    def src(b):
        if isinstance(b, edzed.Const):
            return 'k~' + enc(b.output)
        if b.name in cidx:
            return f'c{cidx[b.name]}'
        return f's{sidx[b.name]}'

    toks = [f'nblocks={len(list(circuit.getblocks()))}']
    for i, sb in enumerate(scn['sblocks']):
        toks.append(f"S:{'i' if sb['kind'] == 'input' else 'c'}:{enc(sb['init'])}")
    for blk in cblocks:
        if blk.name.startswith('_not_'):
            cb = {'fn': 'not'}
        else:
            cb = scn['cblocks'][int(blk.name[1:])]
        pos, named, groups = [], [], []
        for iname, ival in blk.inputs.items():
            if iname == '_':
                pos = [src(b) for b in ival]
            elif isinstance(ival, tuple):
                groups.append(iname + '=' + '|'.join(src(b) for b in ival))
            else:
                named.append(iname + '=' + src(ival))
        events = [f'{i}.{et}' for i, et in cb.get('events', [])]
        toks.append(':'.join([
            'C', fn_token(cb), '+'.join(pos) or '-', '+'.join(named) or '-',
            '+'.join(groups) or '-', '+'.join(events) or '-']))
    return 'sim reset ' + ' '.join(toks), cblocks, cidx


def outs_str(cblocks, sblocks):
    return ('C=' + ';'.join(enc(b.output) for b in cblocks)
            + ' S=' + ';'.join(enc(b.output) for b in sblocks))


def run(scn):
    """returns dict(lines, trace, idle_points=[{name: output}], error, evals_per_burst, ...)"""
    global _EVAL_LOG
    lines, trace, idle_points, burst_evals = [], [], [], []
    info = {'error': None, 'unstable': False}
    log = []
    _EVAL_LOG = log
    CALLS['n'] = 0
    LAST_CALL.clear()
    edzed.reset_circuit()
    circuit = edzed.get_circuit()
    try:
        blocks = build(scn, circuit)
    except Exception:
        _EVAL_LOG = None
        raise
    sblocks = [blocks[f's{i}'] for i in range(len(scn['sblocks']))]
    state = {'pos': 0}

    async def main(loop):
        simtask = asyncio.create_task(circuit.run_forever())
        try:
            await circuit.wait_init()
        except edzed.EdzedInvalidState:
            pass
        cblocks_done = []

        def flush():
            # the structure is known only after finalize()
            if not cblocks_done:
                line, cbl, cidx = reset_line(scn, circuit)
                lines.append(line)
                trace.append('ok')
                cblocks_done.extend([cbl, cidx])
            cbl, cidx = cblocks_done
            n = 0
            while state['pos'] < len(log):
                name, changed, out = log[state['pos']]
                state['pos'] += 1
                n += 1
                lines.append(f'sim eval {cidx[name]}')
                trace.append(f'ev {1 if changed else 0} {enc(out)}')
            burst_evals.append(n)
            err = circuit.error
            if err is not None:
                if isinstance(err, edzed.EdzedCircuitError) and 'instability' in str(err):
                    info['unstable'] = True
                    lines.append('sim over')
                    trace.append('err Instability')
                else:
                    info['error'] = repr(err)
                    lines.append('sim idle')
                    trace.append('err SimError ' + type(err).__name__)
                return False
            lines.append('sim idle')
            trace.append('idle ' + outs_str(cbl, sblocks))
            idle_points.append({b.name: b.output for b in list(circuit.getblocks())})
            # the arguments every FuncBlock passed to its function at its last evaluation (at a pause the
            # inputs are what they were then)
            for j, b in enumerate(cbl):
                if isinstance(b, edzed.FuncBlock) and b.name in LAST_CALL:
                    lines.append(f'sim args {j}')
                    trace.append(call_str(scn, b))
            return True

        if not circuit.is_finalized():
            info['error'] = repr(circuit.error)
            return
        alive = flush()
        for burst in scn.get('bursts', []):
            if not alive:
                break
            for ev in burst:
                i = ev[0]
                try:
                    if ev[1] == 'put':
                        edzed.ExtEvent(sblocks[i], 'put').send(ev[2])
                    else:
                        edzed.ExtEvent(sblocks[i], 'inc').send()
                except edzed.EdzedUnknownEvent:
                    # an output event of this block went to a destination that does not know its type:
                    # documented as non-fatal, the caller gets the exception, the simulation goes on
                    pass
                lines.append(f'sim ext {i} put {enc(ev[2])}' if ev[1] == 'put' else f'sim ext {i} inc')
                trace.append('ok ' + enc(sblocks[i].output))
            await vtime.settle(loop)
            alive = flush()
        try:
            await circuit.shutdown()
        except Exception:
            pass

    try:
        with watchdog():
            vtime.run(main)
    finally:
        _EVAL_LOG = None
    info.update(lines=lines, trace=trace, idle_points=idle_points, burst_evals=burst_evals,
                func_calls=CALLS['n'], nblocks=len(list(circuit.getblocks())))
    return info


# ---------------------------------------------------------------- independent oracle helpers

def expected_output(cb, inputs, own):
    """documented function of a library block; `inputs`: {'_': [...], name: v | [...]}.
    Returns a set-like predicate result: (ok: bool, expected description)"""
    fn = cb['fn']
    pos = inputs.get('_', [])
    if fn == 'not':
        return own is (not pos[0]), f'not {pos[0]!r}'
    if fn == 'and':
        return own is all(bool(v) for v in pos), f'all{pos!r}'
    if fn == 'or':
        return own is any(bool(v) for v in pos), f'any{pos!r}'
    if fn == 'xor':
        exp = sum(1 for v in pos if v) % 2 == 1
        return own is exp, f'odd number of true values in {pos!r}'
    if fn == 'ovr':
        ov = inputs['override']
        exp = inputs['input'] if ov == cb['null'] else ov
        return own == exp, f'override: {exp!r}'
    if fn == 'cmp':
        x = pos[0]
        if x >= cb['high']:
            return own is True, f'{x} >= high {cb["high"]} -> True'
        if x < cb['low']:
            return own is False, f'{x} < low {cb["low"]} -> False'
        return own in (True, False), 'between low and high: keeps'
    if fn == 'f':
        if cb['script'] == 'cnt':
            exp = sum(1 for v in pos if v)
        elif cb['script'] == 'big':
            exp = 1000 + sum(1 for v in pos if v)
        elif cb['script'] == 'sel':
            exp = inputs['x'] if inputs['c'] else inputs['y']
        else:
            exp = sum(1 for v in inputs['g'] if v) + len(pos)
        return own == exp, f'func {cb["script"]}: {exp!r}'
    raise ValueError(fn)


def ref_value(ref, outs):
    kind, x = ref
    if kind == 'k':
        return tuple(x) if isinstance(x, list) else x
    if kind == 's':
        return outs[f's{x}']
    if kind == 'c':
        return outs[f'c{x}']
    if kind == 'ns':
        return outs[f'_not_s{x}']
    return outs[f'_not_c{x}']


def consistency_violations(scn, outs):
    """check every CBlock (user blocks and automatic inverters) against its inputs"""
    bad = []
    for j, cb in enumerate(scn['cblocks']):
        inputs = {}
        if cb.get('pos'):
            inputs['_'] = [ref_value(r, outs) for r in cb['pos']]
        for k, r in cb.get('named', {}).items():
            inputs[k] = ref_value(r, outs)
        for k, g in cb.get('groups', {}).items():
            inputs[k] = [ref_value(r, outs) for r in g]
        undef = [k for k, v in inputs.items()
                 if v is edzed.UNDEF or (isinstance(v, list) and any(x is edzed.UNDEF for x in v))]
        if outs[f'c{j}'] is edzed.UNDEF or undef:
            bad.append(f'c{j} ({cb["fn"]}) output {outs[f"c{j}"]!r} with inputs {inputs!r}: UNDEF at an idle point')
            continue
        try:
            ok, why = expected_output(cb, inputs, outs[f'c{j}'])
        except Exception as err:        # e.g. a value of an unexpected type in a corrupted circuit
            ok, why = False, f'{type(err).__name__}: {err}'
        if not ok:
            bad.append(f'c{j} ({cb["fn"]}) output {outs[f"c{j}"]!r}, documented function gives: {why}')
    for name, out in outs.items():
        if name.startswith('_not_'):
            src = outs[name[5:]]
            if out is not (not src):
                bad.append(f'{name} output {out!r} but {name[5:]} is {src!r}')
    return bad
